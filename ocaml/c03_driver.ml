(* C03 driver: bigraded oracle tables (reduced and unreduced) over Z, Q, F2, F3 for small diagrams;
   `ig` cases: Model/IntoBigraded.into_bigraded on the dumped generator data of the total homology. *)
(*INCLUDE kh_common.ml*)

(* ---- ig cases ---- *)
(* "q^n,q^n,.." -> the list of the q-degrees of the terms (n copies of q); "-" -> [] *)
let parse_gen (tok : string) : z list =
  if tok = "-" then [] else
  Stdlib.List.concat_map (fun qn ->
      match String.index_opt qn '^' with
      | None -> failwith "bad generator token"
      | Some k ->
        let q = z_of_string (String.sub qn 0 k) in
        let n = int_of_string (String.sub qn (k + 1) (String.length qn - k - 1)) in
        Stdlib.List.init n (fun _ -> q))
    (String.split_on_char ',' tok)

let rec take n l = if n = 0 then ([], l) else match l with
  | [] -> failwith "dump too short"
  | x :: r -> let (a, b) = take (n - 1) r in (x :: a, b)

(* "H i r t t_1..t_t gen_0..gen_(r+t-1) H .." -> (i, summand_info) list *)
let rec parse_dump (toks : string list) : (z * summand_info) list =
  match toks with
  | [] -> []
  | "H" :: i :: r :: t :: rest ->
    let r = int_of_string r and t = int_of_string t in
    let (tors, rest) = take t rest in
    let (fg, rest) = take r rest in
    let (tg, rest) = take t rest in
    (z_of_string i,
     { si_free = Stdlib.List.map parse_gen fg;
       si_tors = Stdlib.List.map2 (fun a g -> (z_of_string a, parse_gen g)) tors tg }) :: parse_dump rest
  | _ -> failwith "bad dump"

let handle_ig (dump : string) : string =
  let toks = split_ws dump in
  if toks = ["P"] then "SKIP-P" else
  let hs = parse_dump toks in
  let out = into_bigraded hs in
  let idx (i, j) = Printf.sprintf "(%s,%s)" (string_of_z i) (string_of_z j) in
  let sup = match out with
    | [] -> "S=0"
    | (a, _) :: _ ->
      let (z, _) = Stdlib.List.nth out (Stdlib.List.length out - 1) in
      Printf.sprintf "S=%d:%s:%s" (Stdlib.List.length out) (idx a) (idx z) in
  let cells = Stdlib.List.filter_map (fun (k, (rk, ts)) ->
      if int_of_nat rk = 0 && ts = [] then None
      else Some (Printf.sprintf "%s=%d/%s" (idx k) (int_of_nat rk) (String.concat "." (Stdlib.List.map string_of_z ts)))) out in
  String.concat " " (("NH=" ^ string_of_nat (count_inhomogeneous hs)) :: sup :: cells)
let handle (line : string) : string =
  if String.length line > 3 && String.sub line 0 3 = "ig " then
    (match String.split_on_char ';' line with
     | [_; _; dump] -> handle_ig dump
     | _ -> failwith "bad ig case")
  else
  match String.index_opt line ';' with
  | None -> failwith "bad case"
  | Some k ->
    let head = String.sub line 0 k and ls = String.sub line (k + 1) (String.length line - k - 1) in
    (match split_ws head with
     | ["tb"; npos; nneg; "1"] ->
        let l = parse_link ls in
        (match model_signs l (int_of_string npos) (int_of_string nneg) with Error e -> e | Ok (np, nn) ->
        let seg red =
          if red && l = [] then [] else
          let rede = if red then first_edge l else None in
          let c = build_cube l rede Z0 Z0 in
          (match kh_groups_bigraded c with
           | None -> ["MODEL-NONE"]
           | Some qs ->
              let qs' = np - 2 * nn + (if red then 1 else 0) in
              Stdlib.List.map (fun w -> Printf.sprintf "%s%d[%s]" w (if red then 1 else 0) (bitable_of qs (- nn) qs' w))
                ["Z"; "Q"; "F2"; "F3"]) in
        String.concat " " (seg false @ seg true))
     | "tb" :: _ | "wt" :: _ -> "SKIP"
     | _ -> failwith "bad case head")

let () = run_lines handle
