(* C03 driver: bigraded oracle tables (reduced and unreduced) over Z, Q, F2, F3 for small diagrams. *)
(*INCLUDE kh_common.ml*)
let handle (line : string) : string =
  match String.index_opt line ';' with
  | None -> failwith "bad case"
  | Some k ->
    let head = String.sub line 0 k and ls = String.sub line (k + 1) (String.length line - k - 1) in
    (match split_ws head with
     | ["tb"; npos; nneg; "1"] ->
        let l = parse_link ls in
        (match model_signs l (int_of_string npos) (int_of_string nneg) with Error e -> e | Ok (np, nn) ->
        let seg red =
          if red && l = [] then [] else
          let rede = if red then first_edge l else None in
          let c = build_cube l rede Z0 Z0 in
          (match kh_groups_bigraded c with
           | None -> ["MODEL-NONE"]
           | Some qs ->
              let qs' = np - 2 * nn + (if red then 1 else 0) in
              Stdlib.List.map (fun w -> Printf.sprintf "%s%d[%s]" w (if red then 1 else 0) (bitable_of qs (- nn) qs' w))
                ["Z"; "Q"; "F2"; "F3"]) in
        String.concat " " (seg false @ seg true))
     | "tb" :: _ | "wt" :: _ -> "SKIP"
     | _ -> failwith "bad case head")

let () = run_lines handle
