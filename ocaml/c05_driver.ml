(* C05 driver: runs the Coq checker on complexes dumped by the harness. *)
(*INCLUDE kh_common.ml*)
let split_on (sep : string) (s : string) : string list =
  (* split on a multi-character separator *)
  let n = String.length sep in
  let rec go acc start i =
    if i + n > String.length s then Stdlib.List.rev (String.sub s start (String.length s - start) :: acc)
    else if String.sub s i n = sep then go (String.sub s start (i - start) :: acc) (i + n) (i + n)
    else go acc start (i + 1) in
  go [] 0 0

let parse_term (m : z) (s : string) : (nat * nat) * z =
  match String.split_on_char '*' s with
  | [c; eh; et] -> ((nat_of_string eh, nat_of_string et), z_of_string c)
  | _ -> failwith ("term " ^ s)

let parse_level (m : z) (s : string) : level =
  match split_on "|" s with
  | [qs; ds] ->
      let q = Stdlib.List.map z_of_string (split_ws qs) in
      let es = Stdlib.List.filter (fun x -> String.trim x <> "") (split_on "," ds) in
      let d = Stdlib.List.map (fun e ->
        match split_ws e with
        | [i; j; ts] ->
            let terms = Stdlib.List.map (parse_term m) (String.split_on_char '+' ts) in
            ((nat_of_string i, nat_of_string j), p_norm m terms)
        | _ -> failwith ("entry " ^ e)) es in
      { lv_q = q; lv_d = d }
  | _ -> failwith "level"

let parse_complex (m : z) (s : string) : complex =
  Stdlib.List.map (parse_level m) (split_on "#" s)

let handle (line : string) : string =
  match String.index_opt line ';' with
  | None -> failwith "bad case"
  | Some k ->
    let head = String.sub line 0 k and body = String.sub line (k + 1) (String.length line - k - 1) in
    (match split_ws head with
     | ["cx"; m; gr] ->
        if String.length (String.trim body) >= 5 && String.sub (String.trim body) 0 5 = "PANIC" then "OK" else
        let mz = z_of_string m in
        let c = parse_complex mz body in
        let v = int_of_nat (check_complex mz (gr = "1") c) in
        if v = 0 then "OK" else Printf.sprintf "FAIL %d (1 = shapes, 2 = d.d <> 0, 3 = grading)" v
     | ["sp"; h; t; i0] ->
        let c = parse_complex Z0 body in
        let sc = specialise (z_of_string h) (z_of_string t) c in
        (match level_groups sc [] with
         | None -> "MODEL-NONE"
         | Some gs ->
            let gs' = Stdlib.List.mapi (fun k g -> (nat_of_int k, g)) gs in
            table_of gs' (int_of_string i0) "Z")
     | "rc" :: _ -> "OK"
     | _ -> failwith "bad case head")

let () = run_lines handle
