(* C05 driver: runs the Coq checker on complexes dumped by the harness, and the cobordism evaluation model. *)
(*INCLUDE kh_common.ml*)
let split_on (sep : string) (s : string) : string list =
  (* split on a multi-character separator *)
  let n = String.length sep in
  let rec go acc start i =
    if i + n > String.length s then Stdlib.List.rev (String.sub s start (String.length s - start) :: acc)
    else if String.sub s i n = sep then go (String.sub s start (i - start) :: acc) (i + n) (i + n)
    else go acc start (i + 1) in
  go [] 0 0

let parse_term (m : z) (s : string) : (nat * nat) * z =
  match String.split_on_char '*' s with
  | [c; eh; et] -> ((nat_of_string eh, nat_of_string et), z_of_string c)
  | _ -> failwith ("term " ^ s)

let parse_level (m : z) (s : string) : level =
  match split_on "|" s with
  | [qs; ds] ->
      let q = Stdlib.List.map z_of_string (split_ws qs) in
      let es = Stdlib.List.filter (fun x -> String.trim x <> "") (split_on "," ds) in
      let d = Stdlib.List.map (fun e ->
        match split_ws e with
        | [i; j; ts] ->
            let terms = Stdlib.List.map (parse_term m) (String.split_on_char '+' ts) in
            ((nat_of_string i, nat_of_string j), p_norm m terms)
        | _ -> failwith ("entry " ^ e)) es in
      { lv_q = q; lv_d = d }
  | _ -> failwith "level"

let parse_complex (m : z) (s : string) : complex =
  Stdlib.List.map (parse_level m) (split_on "#" s)

(* ---------- cobordism evaluation (Model/CobEval.v) ---------- *)
let string_of_poly (p : poly) : string =
  if p = [] then "0" else
  String.concat "+" (Stdlib.List.map (fun ((eh, et), c) ->
    Printf.sprintf "%s*%s*%s" (string_of_z c) (string_of_nat eh) (string_of_nat et)) p)

let string_of_zopt = function Some v -> string_of_z v | None -> "MODEL-FUEL"
let string_of_lc3 ((a, b), c) = Printf.sprintf "%s,%s,%s" (string_of_z a) (string_of_z b) (string_of_z c)

let parse_comps (body : string) : ccomp list =
  Stdlib.List.filter_map (fun part ->
    match split_ws part with
    | [] -> None
    | [g; x; y] -> Some { cc_g = nat_of_string g; cc_x = nat_of_string x; cc_y = nat_of_string y }
    | _ -> failwith ("component " ^ part)) (String.split_on_char ',' body)

(* v comes from the literal transcription of the Rust match (on fuel), pe / lev from the structural recursion *)
let handle_ce ring g x y h t : string =
  let gi = int_of_string g and xi = int_of_string x and yi = int_of_string y in
  let g = nat_of_int gi and x = nat_of_int xi and y = nat_of_int yi in
  let c = { cc_g = g; cc_x = x; cc_y = y } in
  let tail = Printf.sprintf "deg=%s chi=%s z=%s u=%s s=%s" (string_of_z (deg c)) (string_of_z (euler_num c))
      (string_of_bool01 (is_zero_cob c)) (string_of_bool01 (is_unit_cob c)) (string_of_bool01 (should_part_eval c)) in
  if ring = "p" then
    let v = string_of_poly (eval_closed_poly g x y) in
    Printf.sprintf "v=%s pe=%s cpe=- cev=- lev=%s %s" v v v tail
  else
    let h = z_of_string h and t = z_of_string t in
    let fuel = nat_of_int (2 * gi + xi + yi + 1) in
    let v = string_of_z (eval_closed g x y h t) in
    Printf.sprintf "v=%s pe=%s cpe=%s cev=%s lev=%s %s" (string_of_zopt (eval_closed_fuel fuel g x y h t)) v
      (string_of_z (cob_part_eval h t [c])) (string_of_z (cob_eval h t [c])) v tail

let handle_co g x y h t : string =
  let gi = int_of_string g and xi = int_of_string x and yi = int_of_string y in
  let g = nat_of_int gi and x = nat_of_int xi and y = nat_of_int yi in
  let h = z_of_string h and t = z_of_string t in
  let fuel = nat_of_int (2 * gi + xi + yi + 1) in
  let pe = match part_eval_open_fuel fuel g x y h t with Some u -> string_of_lc3 u | None -> "MODEL-FUEL" in
  Printf.sprintf "pe=%s cpe=%s s=%s" pe (string_of_lc3 (part_eval_open g x y h t))
    (string_of_bool01 (should_part_eval_gen false false g x y))

let handle_cp ring h t body : string =
  let cs = parse_comps body in
  let tail = Printf.sprintf "deg=%s n=%d" (string_of_z (cob_deg cs)) (Stdlib.List.length cs) in
  if ring = "p" then Printf.sprintf "e=%s pe=- %s" (string_of_poly (cob_eval_poly cs)) tail
  else
    let h = z_of_string h and t = z_of_string t in
    Printf.sprintf "e=%s pe=%s %s" (string_of_z (cob_eval h t cs)) (string_of_z (cob_part_eval h t cs)) tail

let handle (line : string) : string =
  match String.index_opt line ';' with
  | None -> failwith "bad case"
  | Some k ->
    let head = String.sub line 0 k and body = String.sub line (k + 1) (String.length line - k - 1) in
    (match split_ws head with
     | ["cx"; m; gr] ->
        if String.length (String.trim body) >= 5 && String.sub (String.trim body) 0 5 = "PANIC" then "OK" else
        let mz = z_of_string m in
        let c = parse_complex mz body in
        let v = int_of_nat (check_complex mz (gr = "1") c) in
        if v = 0 then "OK" else Printf.sprintf "FAIL %d (1 = shapes, 2 = d.d <> 0, 3 = grading)" v
     | ["sp"; h; t; i0] ->
        let c = parse_complex Z0 body in
        let sc = specialise (z_of_string h) (z_of_string t) c in
        (match level_groups sc [] with
         | None -> "MODEL-NONE"
         | Some gs ->
            let gs' = Stdlib.List.mapi (fun k g -> (nat_of_int k, g)) gs in
            table_of gs' (int_of_string i0) "Z")
     | "rc" :: _ -> "OK"
     | "rj" :: _ -> "REJECTED"
     | ["ce"; ring; g; x; y; h; t] -> handle_ce ring g x y h t
     | ["co"; _; _; g; x; y; h; t] -> handle_co g x y h t
     | ["cp"; ring; h; t] -> handle_cp ring h t body
     | _ -> failwith "bad case head")

let () = run_lines handle
