(* C01 driver: Khovanov homology tables of the cube-of-resolutions complex (the definition). *)
(*INCLUDE kh_common.ml*)
let handle (line : string) : string =
  match String.index_opt line ';' with
  | None -> failwith "bad case"
  | Some k ->
    let head = String.sub line 0 k and ls = String.sub line (k + 1) (String.length line - k - 1) in
    (match split_ws head with
     | ["kh"; red; h; t; npos; nneg] ->
        let l = parse_link ls in
        let red = (red = "1") in
        (match model_signs l (int_of_string npos) (int_of_string nneg) with Error e -> e | Ok (np, nn) ->
        let hz = z_of_string h and tz = z_of_string t in
        let rede = if red then first_edge l else None in
        let c = build_cube l rede hz tz in
        (match kh_groups c with
         | None -> "MODEL-NONE"
         | Some gs ->
            let hs = - nn in
            let base = Stdlib.List.map (fun w -> Printf.sprintf "%s[%s]" w (table_of gs hs w)) ["Z"; "Q"; "F2"; "F3"] in
            let bi =
              if h = "0" && t = "0" then
                (match kh_groups_bigraded c with
                 | None -> ["MODEL-NONE"]
                 | Some qs ->
                    let qs' = np - 2 * nn + (if red then 1 else 0) in
                    Stdlib.List.map (fun w -> Printf.sprintf "B%s[%s]" w (bitable_of qs hs qs' w)) ["Z"; "Q"; "F2"; "F3"])
              else [] in
            String.concat " " (base @ bi)))
     | ["hr"; h; t; _a; _b; _k] ->
        (* builder option h_range: the implementation prints its unrestricted table over Z and whether the restricted
           build agrees with it inside the range; the oracle supplies the table, computing the signs itself *)
        let l = parse_link ls in
        (match signed_nums l with
         | None -> "MODEL-SIGNS-NONE"
         | Some (_, nn) ->
            let c = build_cube l None (z_of_string h) (z_of_string t) in
            (match kh_groups c with
             | None -> "MODEL-NONE"
             | Some gs -> Printf.sprintf "Z[%s] | same=1" (table_of gs (- (int_of_nat nn)) "Z")))
     | _ -> failwith "bad case head")

let () = run_lines handle
