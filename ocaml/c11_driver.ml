(* C11 driver: trace validation of the parallel pivot search against the extracted model (Model/Pivot.v).

   A case line has sections separated by " | ":
     ctl <policy> <seed> <ring> <R|C> <O|U|W<w>> <nr> <nc> <k> | <entries> | <triplets> | <trace> | <ret> | <p> | <q>
     unc <ring> <R|C> <cond> <nr> <nc> <k>                     | <entries> | <triplets> | <ret> | <p> | <q>
     seq <ring> <R|C> <cond> <nr> <nc>                         | <entries> | <triplets> | <ret> | <p> | <q>
     stats ...
   entries: the generated ring elements (used by the harness to rebuild the matrix; ignored here);
   triplets: "i,j,nz,pm1,unit,w" in a.iter() order ("-" = none);
   trace: S<t>:<row>=s<j>:<len> | S<t>:<row>=n | E<t>=r<len> | E<t>=c<j>:<len> | R<t>=s<j>:<len> | R<t>=n
   ret: the list returned by find_pivots in matrix coordinates "i:j ..." ("-" = empty, "!X" = no result);
   p, q: the permutation vectors of perms_by_pivots ("-" = empty).
   Output: "OK" or the first thing the model does not reproduce / the verified checker rejects. *)
exception Bad of string
let bad fmt = Printf.ksprintf (fun s -> raise (Bad s)) fmt

let ni = nat_of_int
let i_n = int_of_nat
let sl = Stdlib.List.length
let smap = Stdlib.List.map

let sections (line : string) : string list =
  (* split on " | " *)
  let parts = String.split_on_char '|' line in
  smap String.trim parts

let parse_pt = function "R" -> Rows | "C" -> Cols | s -> failwith ("ptype " ^ s)
let parse_cond s =
  if s = "O" then COne else if s = "U" then CAnyUnit
  else if String.length s > 1 && s.[0] = 'W' then CWeight (z_of_string (String.sub s 1 (String.length s - 1)))
  else failwith ("cond " ^ s)

let parse_trips (s : string) =
  if s = "-" then [] else
  smap (fun tok ->
    match String.split_on_char ',' tok with
    | [i; j; nz; pm; u; w] ->
        ((nat_of_string i, nat_of_string j),
         { e_nz = (nz = "1"); e_pm1 = (pm = "1"); e_unit = (u = "1"); e_w = z_of_string w })
    | _ -> failwith ("triplet " ^ tok)) (split_ws s)

let parse_pairs (s : string) : (nat * nat) list =
  if s = "-" then [] else
  smap (fun tok -> match String.split_on_char ':' tok with
    | [i; j] -> (nat_of_string i, nat_of_string j)
    | _ -> failwith ("pair " ^ tok)) (split_ws s)

let parse_natlist (s : string) : nat list =
  if s = "-" then [] else smap nat_of_string (String.split_on_char ',' s)

let str_natlist l = if l = [] then "-" else String.concat "," (smap string_of_nat l)
let str_pairs l = if l = [] then "-" else String.concat " " (smap (fun (i, j) -> string_of_nat i ^ ":" ^ string_of_nat j) l)

let sort_pairs (l : (nat * nat) list) : (int * int) list =
  Stdlib.List.sort compare (smap (fun (i, j) -> (i_n i, i_n j)) l)

(* to str coordinates *)
let to_str pt (l : (nat * nat) list) = match pt with Rows -> l | Cols -> smap (fun (i, j) -> (j, i)) l

(* observation produced by an event, read off the successor state *)
let obs_of (s' : gstate) (e : event) : string =
  match e with
  | EStart (t, _) | EResearch t ->
      let th = s'.g_thr t in
      (match th.t_pc with
       | PSearched j -> "s" ^ string_of_nat j ^ ":" ^ string_of_nat th.t_snap
       | PIdle -> "n"
       | PRetrying -> "?")
  | EEnter t ->
      let th = s'.g_thr t in
      (match th.t_pc with
       | PRetrying -> "r" ^ string_of_nat th.t_snap
       | PIdle ->
           (* commit: the new pivot is the last entry of the log *)
           (match Stdlib.List.rev s'.g_log with
            | (_, j) :: _ -> "c" ^ string_of_nat j ^ ":" ^ string_of_nat (length s'.g_log)
            | [] -> "?")
       | PSearched _ -> "?")

let parse_event (tok : string) : event * string =
  match String.index_opt tok '=' with
  | None -> failwith ("event " ^ tok)
  | Some k ->
      let lhs = String.sub tok 0 k and rhs = String.sub tok (k + 1) (String.length tok - k - 1) in
      let body = String.sub lhs 1 (String.length lhs - 1) in
      let e = match lhs.[0] with
        | 'S' -> (match String.split_on_char ':' body with
                  | [t; r] -> EStart (nat_of_string t, nat_of_string r)
                  | _ -> failwith ("event " ^ tok))
        | 'E' -> EEnter (nat_of_string body)
        | 'R' -> EResearch (nat_of_string body)
        | _ -> failwith ("event " ^ tok) in
      (e, rhs)

(* checks shared by all kinds, given the structure, the model's final log (if any) and the returned list *)
let check_result pt nr nc (m : mstr) (final : plog option) (ret_s : string) (p_s : string) (q_s : string) : unit =
  if String.length ret_s > 0 && ret_s.[0] = '!' then bad "NO-RESULT %s" ret_s;
  let ret = parse_pairs ret_s in
  let ret_str = to_str pt ret in
  (* the verified checker on the implementation's list *)
  if not (pivots_ok m ret_str) then bad "CHECKER-REJECTS returned list %s" ret_s;
  (match final with
   | None -> ()
   | Some log ->
       if sort_pairs log <> sort_pairs ret_str then
         bad "PIVOT-SET model=%s impl=%s" (str_pairs log) (str_pairs ret_str);
       (* the model's own result(): Kahn mirror must succeed, same set, valid order *)
       (match result m pt log with
        | None -> bad "MODEL-TOPSORT-NONE"
        | Some r ->
            let r_str = to_str pt r in
            if sort_pairs r_str <> sort_pairs log then bad "MODEL-RESULT-SET";
            if not (pivots_ok m r_str) then bad "MODEL-RESULT-ORDER"));
  (* perms_by_pivots mirror *)
  (match perms_by_pivots nr nc ret with
   | None -> bad "MODEL-PERMS-NONE"
   | Some (p, q) ->
       if str_natlist p <> p_s || str_natlist q <> q_s then
         bad "PERMS model=%s;%s impl=%s;%s" (str_natlist p) (str_natlist q) p_s q_s)

let phases12 (m : mstr) : plog =
  match find_fl_pivots m [] with
  | None -> bad "MODEL-PANIC phase1"
  | Some p1 -> (match find_fl_col_pivots m p1 with
                | None -> bad "MODEL-PANIC phase2"
                | Some p2 -> p2)

let handle_inner (line : string) : string =
  match sections line with
  | [hd; _entries; trips; trace; ret; p; q] when String.length hd > 3 && String.sub hd 0 3 = "ctl" ->
      (match split_ws hd with
       | [_; _pol; _seed; _ring; pt; cond; nr; nc; k] ->
           let pt = parse_pt pt and cond = parse_cond cond in
           let nr = nat_of_string nr and nc = nat_of_string nc and k = nat_of_string k in
           let m = build_str pt cond nr nc (parse_trips trips) in
           let s0 = init_state m (phases12 m) in
           let toks = if trace = "-" then [] else split_ws trace in
           let final =
             Stdlib.List.fold_left (fun (s, idx) tok ->
               let (e, seen) = parse_event tok in
               if not (enabled k s e) then bad "TRACE step=%d %s: event not enabled in the model" idx tok;
               match step m k s e with
               | None -> bad "TRACE step=%d %s: model panics" idx tok
               | Some s' ->
                   let o = obs_of s' e in
                   if o <> seen then bad "TRACE step=%d %s: model predicts %s" idx tok o;
                   (s', idx + 1)) (s0, 0) toks |> fst in
           if not (terminal k final) then bad "TRACE ends in a non-terminal model state (todo=%s)" (str_natlist final.g_todo);
           check_result pt nr nc m (Some final.g_log) ret p q;
           "OK"
       | _ -> failwith "ctl header")
  | [hd; _entries; trips; ret; p; q] when String.length hd > 3 && String.sub hd 0 3 = "seq" ->
      (match split_ws hd with
       | [_; _ring; pt; cond; nr; nc] ->
           let pt = parse_pt pt and cond = parse_cond cond in
           let nr = nat_of_string nr and nc = nat_of_string nc in
           let m = build_str pt cond nr nc (parse_trips trips) in
           let p2 = phases12 m in
           let s0 = init_state m p2 in
           (* one thread: rows in remain_rows order, each run to its end *)
           (match run m (ni 1) (seq_schedule s0.g_todo) s0 with
            | None -> bad "MODEL-PANIC seq"
            | Some s -> if not (terminal (ni 1) s) then bad "SEQ non-terminal";
                        check_result pt nr nc m (Some s.g_log) ret p q; "OK")
       | _ -> failwith "seq header")
  | [hd; _entries; trips; ret; p; q] when String.length hd > 3 && String.sub hd 0 3 = "unc" ->
      (match split_ws hd with
       | [_; _ring; pt; cond; nr; nc; _k] ->
           let pt = parse_pt pt and cond = parse_cond cond in
           let nr = nat_of_string nr and nc = nat_of_string nc in
           let m = build_str pt cond nr nc (parse_trips trips) in
           (* the deterministic prefix (phases 1, 2) must be part of the result *)
           let p2 = phases12 m in
           let ret_l = if String.length ret > 0 && ret.[0] = '!' then [] else to_str pt (parse_pairs ret) in
           Stdlib.List.iter (fun pr -> if not (Stdlib.List.mem pr ret_l) then
             bad "PHASE12 pivot %s missing from the result" (str_pairs [pr])) p2;
           check_result pt nr nc m None ret p q; "OK"
       | _ -> failwith "unc header")
  | hd :: _ when String.length hd >= 5 && String.sub hd 0 5 = "stats" -> "OK"
  | _ -> failwith "bad case"

let handle (line : string) : string =
  try handle_inner line with Bad s -> s

let () = run_lines handle
