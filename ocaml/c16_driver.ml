(* C16 driver: runs the extracted Lc / monomial / polynomial model on one case per line.

   Tokens (no spaces inside a token):
     coefficient   Zi Zb : decimal integer      Qi Qb : n/d      F3 : integer (reduced mod 3)     Gi Gb : a:b
     monomial      u1 i1 fr : e      u2 i2 : e0,e1      u3 i3 : e0,e1,e2
                   un in : idx^e,idx^e,...  or  -  (built with from_iter: zero exponents dropped, later duplicate wins)
     term          mono@coeff
     polynomial    term+term+...  or  0        (input: fed to from_iter in this order; output: terms sorted as strings)
   Cases:
     prog R M nregs op...     straight-line program over registers (all start as zero); one output token per op
                              single-term constructors (the model's p_from_pair / p_from_mono / p_from_const, i.e.
                              Lc.from_pair x r = from_iter [(x, r)] by definition, covered by C16_no_zero_constructors):
                                term d x@c   From<(X, R)>          dterm d x a b   From<(X, R)> of (x, a - b)
                                gen d x      From<X>               const d c       PolyBase::from_const
                                pstr d s     PolyBase::from_str on an integer literal (R::from_str succeeds: from_const)
                                             or, one variable, on "x" / "x^d" / "x^{d}" (X::from_str: From<X>)
     mono M op args           monomial operations
     mdeg u|i op args         MultiDeg operations
     hp R op args             HPoly operations (value = deg@coeff) *)

let ios = int_of_string
let soi = string_of_int
let split c s = if s = "" then [] else String.split_on_char c s
let sort_strings l = Stdlib.List.sort Stdlib.compare l
let b01 b = if b then "1" else "0"

(* ---------- coefficient rings ---------- *)
type 'r rcodec = { ro : 'r ring_ops; rparse : string -> 'r; rprint : 'r -> string; ru : 'r unit_ops option;
                   rint : string -> 'r   (* the ring element of an integer literal: R::from_str *) }

let zc = { ro = z_ring; rparse = z_of_string; rprint = string_of_z; ru = Some z_units; rint = z_of_string }
let f3c = { ro = f3_ring;
            rparse = (fun s -> Z.modulo (z_of_string s) (z_of_string "3"));
            rprint = string_of_z; ru = Some f3_units;
            rint = (fun s -> Z.modulo (z_of_string s) (z_of_string "3")) }
let qc = { ro = q_ring;
           rparse = (fun s -> match split '/' s with
                      | [a; b] -> (match z_of_string b with
                                   | Zpos p -> qred { qnum = z_of_string a; qden = p }
                                   | _ -> failwith "bad denominator")
                      | [a] -> { qnum = z_of_string a; qden = XH }
                      | _ -> failwith "bad rational");
           rprint = (fun x -> string_of_z x.qnum ^ "/" ^ string_of_z (Zpos x.qden));
           ru = Some q_units; rint = (fun s -> { qnum = z_of_string s; qden = XH }) }
let gc = { ro = gauss_ring;
           rparse = (fun s -> match split ':' s with
                      | [a; b] -> (z_of_string a, z_of_string b) | _ -> failwith "bad gaussian");
           rprint = (fun (a, b) -> string_of_z a ^ ":" ^ string_of_z b); ru = None;
           rint = (fun s -> (z_of_string s, Z0)) }

(* ---------- monomial types ---------- *)
type 'x mcodec = {
  mo : 'x mono_ops; mparse : string -> 'x; mprint : 'x -> string;
  ev : 'r. ('r ring_ops -> 'r list -> 'x -> 'r) option;           (* u1 u2 u3 *)
  ltf : 'r. (('x, 'r) lc -> nat -> ('x * 'r) option) option;      (* un in *)
  total : ('x -> string) option;                                   (* 2, 3, n variables *)
  degfor : ('x -> int -> string) option;
  zkey : ((z -> z) -> 'x -> 'x) option;                            (* fr: keys are integers *)
  zof : ('x -> z) option;
}

type 'i ecodec = { eo : 'i exp_ops; eparse : string -> 'i; eprint : 'i -> string }
let nE = { eo = n_exp; eparse = n_of_string; eprint = string_of_n }
let zE = { eo = z_exp; eparse = z_of_string; eprint = string_of_z }

let m1 (e : 'i ecodec) : 'i mcodec =
  { mo = var_mono e.eo; mparse = e.eparse; mprint = e.eprint; ev = None; ltf = None; total = None;
    degfor = None; zkey = None; zof = None }
let m2 (e : 'i ecodec) : ('i * 'i) mcodec =
  { mo = var2_mono e.eo;
    mparse = (fun s -> match split ',' s with [a; b] -> (e.eparse a, e.eparse b) | _ -> failwith "bad var2");
    mprint = (fun (a, b) -> e.eprint a ^ "," ^ e.eprint b);
    ev = None; ltf = None;
    total = Some (fun x -> e.eprint (v2_total e.eo x));
    degfor = Some (fun (a, b) k -> e.eprint (if k = 0 then a else b));
    zkey = None; zof = None }
let m3 (e : 'i ecodec) : (('i * 'i) * 'i) mcodec =
  { mo = var3_mono e.eo;
    mparse = (fun s -> match split ',' s with
               | [a; b; c] -> ((e.eparse a, e.eparse b), e.eparse c) | _ -> failwith "bad var3");
    mprint = (fun ((a, b), c) -> e.eprint a ^ "," ^ e.eprint b ^ "," ^ e.eprint c);
    ev = None; ltf = None;
    total = Some (fun x -> e.eprint (v3_total e.eo x));
    degfor = Some (fun ((a, b), c) k -> e.eprint (if k = 0 then a else if k = 1 then b else c));
    zkey = None; zof = None }
let parse_pairs (e : 'i ecodec) s : (nat * 'i) list =
  if s = "-" then [] else
  Stdlib.List.map (fun t -> match split '^' t with
                     | [i; d] -> (nat_of_string i, e.eparse d) | _ -> failwith "bad mdeg entry") (split ',' s)
let print_mdeg (e : 'i ecodec) (l : 'i mdeg) : string =
  if l = [] then "-" else
  String.concat "," (Stdlib.List.map (fun (i, d) -> string_of_nat i ^ "^" ^ e.eprint d) l)
let mn (e : 'i ecodec) : 'i mdeg mcodec =
  { mo = mvar_mono e.eo;
    mparse = (fun s -> md_from_iter e.eo (parse_pairs e s));
    mprint = print_mdeg e;
    ev = None; ltf = None;
    total = Some (fun x -> e.eprint (md_total e.eo x));
    degfor = Some (fun x k -> e.eprint (md_at e.eo x (nat_of_int k)));
    zkey = None; zof = None }

let mc_u1 = { (m1 nE) with ev = Some (fun o pts i -> ev1 o (Stdlib.List.nth pts 0) i) }
let mc_i1 = m1 zE
let mc_fr = { (m1 zE) with zkey = Some (fun f x -> f x); zof = Some (fun x -> x) }
let mc_u2 = { (m2 nE) with ev = Some (fun o pts i -> ev2 o (Stdlib.List.nth pts 0) (Stdlib.List.nth pts 1) i) }
let mc_i2 = m2 zE
let mc_u3 = { (m3 nE) with ev = Some (fun o pts i ->
                ev3 o (Stdlib.List.nth pts 0) (Stdlib.List.nth pts 1) (Stdlib.List.nth pts 2) i) }
let mc_i3 = m3 zE
let mc_un = { (mn nE) with ltf = Some (fun p k -> lead_term_for n_exp p k) }
let mc_in = { (mn zE) with ltf = Some (fun p k -> lead_term_for z_exp p k) }

(* ---------- polynomials ---------- *)
let print_term rc mc (x, r) = mc.mprint x ^ "@" ^ rc.rprint r
let print_poly rc mc (p : ('x, 'r) lc) : string =
  if p = [] then "0" else String.concat "+" (sort_strings (Stdlib.List.map (print_term rc mc) p))
let parse_term rc mc s =
  match split '@' s with [x; r] -> (mc.mparse x, rc.rparse r) | _ -> failwith ("bad term " ^ s)
let parse_terms rc mc s : ('x * 'r) list =
  if s = "0" then [] else Stdlib.List.map (parse_term rc mc) (split '+' s)

(* the state line printed after an operation on register d *)
let observe rc mc (is_fr : bool) (p : ('x, 'r) lc) : string =
  let m = mc.mo and o = rc.ro in
  let base = print_poly rc mc p ^ "|n=" ^ string_of_nat (p_nterms p) ^ ";z=" ^ b01 (p_is_zero p)
             ^ ";g=" ^ b01 (p_is_mono o p) in
  if is_fr then base
  else base ^ ";c=" ^ b01 (p_is_const m p) ^ ";o=" ^ b01 (p_is_one m o p)
       ^ ";ct=" ^ rc.rprint (p_const_term m o p)
       ^ ";lt=" ^ print_term rc mc (p_lead_term m o p)

let is_int_lit (s : string) : bool =
  let t = if String.length s > 0 && s.[0] = '-' then String.sub s 1 (String.length s - 1) else s in
  t <> "" && (let ok = ref true in String.iter (fun c -> if c < '0' || c > '9' then ok := false) t; !ok)
(* exponent text of "x", "x^d" (one digit), "x^{d}" *)
let xvar_exp (s : string) : string =
  let n = String.length s in
  if s = "x" then "1"
  else if n = 3 && String.sub s 0 2 = "x^" && is_int_lit (String.sub s 2 1) && s.[2] <> '-' then String.sub s 2 1
  else if n >= 5 && String.sub s 0 3 = "x^{" && s.[n - 1] = '}' && is_int_lit (String.sub s 3 (n - 4))
  then String.sub s 3 (n - 4)
  else failwith ("bad monomial string " ^ s)

let run_prog (type x r) (rc : r rcodec) (mc : x mcodec) (is_fr : bool) (toks : string list) : string =
  let m = mc.mo and o = rc.ro in
  let nat = nat_of_string in
  match toks with
  | nregs :: ops ->
    let regs0 : (x, r) lc list = Stdlib.List.init (ios nregs) (fun _ -> []) in
    let zk () = match mc.zkey, mc.zof with Some f, Some g -> (f, g) | _ -> failwith "integer keys only" in
    let rec go regs toks acc =
      let real (p : (x, r) op) rest =
        let regs' = step m o regs p in
        go regs' rest (observe rc mc is_fr (rd regs' (dest p)) :: acc) in
      let put d (v : (x, r) lc) rest =
        let regs' = wr regs (nat d) v in
        go regs' rest (observe rc mc is_fr (rd regs' (nat d)) :: acc) in
      match toks with
      | [] -> Stdlib.List.rev acc
      | "set" :: d :: p :: rest -> real (OSet (nat d, parse_terms rc mc p)) rest
      | "term" :: d :: t :: rest -> let (x, c) = parse_term rc mc t in put d (p_from_pair m o x c) rest
      | "dterm" :: d :: x :: a :: b :: rest ->
          put d (p_from_pair m o (mc.mparse x) (o.radd (rc.rparse a) (o.rneg (rc.rparse b)))) rest
      | "gen" :: d :: x :: rest -> put d (p_from_mono m o (mc.mparse x)) rest
      | "const" :: d :: c :: rest ->
          if is_fr then failwith "const on Lc<Free>" else put d (p_from_const m o (rc.rparse c)) rest
      | "pstr" :: d :: s :: rest ->
          if is_fr then failwith "pstr on Lc<Free>"
          else if is_int_lit s then put d (p_from_const m o (rc.rint s)) rest
          else put d (p_from_mono m o (mc.mparse (xvar_exp s))) rest
      | "add" :: d :: a :: b :: rest -> real (OAdd (nat d, nat a, nat b)) rest
      | "sub" :: d :: a :: b :: rest -> real (OSub (nat d, nat a, nat b)) rest
      | "neg" :: d :: a :: rest -> real (ONeg (nat d, nat a)) rest
      | "smul" :: d :: a :: c :: rest -> real (OSmul (nat d, nat a, rc.rparse c)) rest
      | "mul" :: d :: a :: b :: rest ->
          if is_fr then failwith "mul on Lc<Free>" else real (OMul (nat d, nat a, nat b)) rest
      | "lmul" :: d :: a :: b :: rest -> real (OLcMul (nat d, nat a, nat b)) rest
      | "pow" :: d :: a :: n :: rest -> real (OPow (nat d, nat a, nat n)) rest
      (* Pow<i32/i64/isize>: a negative exponent goes through inv().unwrap(); None = panic = "P", register kept *)
      | "powz" :: d :: a :: n :: rest ->
          let u = (match rc.ru with Some u -> u | None -> failwith "no units") in
          (match p_pow_z m o u (rd regs (nat a)) (z_of_string n) with
           | Some v -> let regs' = wr regs (nat d) v in
                       go regs' rest (observe rc mc is_fr (rd regs' (nat d)) :: acc)
           | None -> go regs rest ("P" :: acc))
      | "mapg" :: d :: a :: k :: rest ->
          let (f, _) = zk () in let k = z_of_string k in
          real (OMapGens (nat d, nat a, f (fun x -> Z.div x k))) rest
      | "filt" :: d :: a :: k :: rest ->
          let (_, g) = zk () in let k = z_of_string k in
          real (OFilter (nat d, nat a, (fun x -> not (Z.eqb (Z.modulo (g x) k) Z0)))) rest
      | "appl" :: d :: a :: k :: rest ->
          let (f, _) = zk () in let k = z_of_string k in
          real (OApply (nat d, nat a, (fun x -> [ (f (fun y -> Z.add y k) x, o.rone); (x, o.rneg o.rone) ]))) rest
      (* observers: do not change the registers *)
      | "eq" :: a :: b :: rest ->
          go regs rest (("eq=" ^ b01 (p_eqb m o (rd regs (nat a)) (rd regs (nat b)))) :: acc)
      | "coef" :: a :: x :: rest ->
          go regs rest (("co=" ^ rc.rprint (p_coeff m o (rd regs (nat a)) (mc.mparse x))) :: acc)
      | "asmono" :: a :: rest ->
          go regs rest (("am=" ^ (match p_as_mono o (rd regs (nat a)) with Some x -> mc.mprint x | None -> "N")) :: acc)
      | "inv" :: a :: rest ->
          let u = (match rc.ru with Some u -> u | None -> failwith "no units") in
          go regs rest (("inv=" ^ (match p_inv m o u (rd regs (nat a)) with
                                   | Some q -> print_poly rc mc q | None -> "N")) :: acc)
      | "unit" :: a :: rest ->
          let u = (match rc.ru with Some u -> u | None -> failwith "no units") in
          go regs rest (("unit=" ^ b01 (p_is_unit m u (rd regs (nat a)))) :: acc)
      | "nunit" :: a :: rest ->
          let u = (match rc.ru with Some u -> u | None -> failwith "no units") in
          go regs rest (("nu=" ^ print_poly rc mc (p_normalizing_unit m o u (rd regs (nat a)))) :: acc)
      | "ev" :: a :: pts :: rest ->
          let ev = (match mc.ev with Some f -> f | None -> failwith "no eval") in
          let pts = Stdlib.List.map rc.rparse (split ',' pts) in
          go regs rest (("ev=" ^ rc.rprint (p_eval o (ev o pts) (rd regs (nat a)))) :: acc)
      | "ltf" :: a :: k :: rest ->
          let f = (match mc.ltf with Some f -> f | None -> failwith "no lead_term_for") in
          go regs rest (("ltf=" ^ (match f (rd regs (nat a)) (nat k) with
                                   | Some t -> print_term rc mc t | None -> "N")) :: acc)
      | t :: _ -> failwith ("bad op " ^ t)
    in
    String.concat " " (go regs0 ops [])
  | [] -> failwith "prog: missing register count"

let with_mono (type r) (rc : r rcodec) (mtag : string) (toks : string list) : string =
  match mtag with
  | "u1" -> run_prog rc mc_u1 false toks
  | "i1" -> run_prog rc mc_i1 false toks
  | "fr" -> run_prog rc mc_fr true toks
  | "u2" -> run_prog rc mc_u2 false toks
  | "i2" -> run_prog rc mc_i2 false toks
  | "u3" -> run_prog rc mc_u3 false toks
  | "i3" -> run_prog rc mc_i3 false toks
  | "un" -> run_prog rc mc_un false toks
  | "in" -> run_prog rc mc_in false toks
  | _ -> failwith ("bad mono type " ^ mtag)

let with_ring (rtag : string) (mtag : string) (toks : string list) : string =
  match rtag with
  | "Zi" | "Zb" -> with_mono zc mtag toks
  | "Qi" | "Qb" -> with_mono qc mtag toks
  | "F3" -> with_mono f3c mtag toks
  | "Gi" | "Gb" -> with_mono gc mtag toks
  | _ -> failwith ("bad ring " ^ rtag)

(* ---------- monomial cases ---------- *)
let mono_case (type x) (mc : x mcodec) (toks : string list) : string =
  let m = mc.mo in
  let p = mc.mparse in
  let some = function Some x -> mc.mprint x | None -> "P" in
  match toks with
  | ["mk"; a] -> mc.mprint (p a)
  | ["mul"; a; b] -> mc.mprint (m.mmul (p a) (p b))
  | ["div"; a; b] -> some (m.mdiv (p a) (p b))
  | ["cmp"; a; b] -> string_of_cmp (m.mcmp_lex (p a) (p b)) ^ "," ^ string_of_cmp (m.mcmp_grlex (p a) (p b))
                     ^ "," ^ b01 (m.meqb (p a) (p b))
  | ["cmpmul"; a; b; c] ->
      let (a, b, c) = (p a, p b, p c) in
      String.concat "," (Stdlib.List.map string_of_cmp
        [m.mcmp_lex a b; m.mcmp_grlex a b; m.mcmp_lex (m.mmul a c) (m.mmul b c); m.mcmp_grlex (m.mmul a c) (m.mmul b c)])
  | ["unit"; a] -> b01 (m.mis_unit (p a))
  | ["inv"; a] -> (match m.minv (p a) with Some x -> mc.mprint x | None -> "N")
  | ["divides"; a; b] -> b01 (m.mdivides (p a) (p b))
  | ["isone"; a] -> b01 (mis_one m (p a))
  | ["total"; a] -> (match mc.total with Some f -> f (p a) | None -> failwith "no total")
  | ["degfor"; a; k] -> (match mc.degfor with Some f -> f (p a) (ios k) | None -> failwith "no deg_for")
  | _ -> failwith "bad mono case"

let mdeg_case (e : 'i ecodec) (toks : string list) : string =
  let p s = md_from_iter e.eo (parse_pairs e s) in
  let pr = print_mdeg e in
  match toks with
  | ["mk"; a] -> pr (p a)
  | ["arr"; ds] -> pr (md_from_array e.eo (Stdlib.List.map e.eparse (if ds = "-" then [] else split ',' ds)))
  | ["add"; a; b] -> pr (md_add e.eo (p a) (p b))
  | ["sub"; a; b] -> (match md_sub e.eo (p a) (p b) with Some x -> pr x | None -> "P")
  | ["neg"; a] -> pr (md_neg e.eo (p a))
  | ["total"; a] -> e.eprint (md_total e.eo (p a))
  | ["at"; a; i] -> e.eprint (md_at e.eo (p a) (nat_of_string i))
  | ["minmax"; a] ->
      let f = function Some i -> string_of_nat i | None -> "N" in
      f (md_min_index (p a)) ^ "," ^ f (md_max_index (p a)) ^ "," ^ string_of_nat (length (p a))
      ^ "," ^ b01 (md_is_zero (p a))
  | ["cmp"; a; b] -> string_of_cmp (md_cmp_lex e.eo (p a) (p b)) ^ "," ^ string_of_cmp (md_cmp_grlex e.eo (p a) (p b))
                     ^ "," ^ b01 (md_eqb e.eo (p a) (p b))
  | ["leq"; a; b] -> b01 (md_all_leq e.eo (p a) (p b)) ^ "," ^ b01 (md_all_leq e.eo (p b) (p a))
  | _ -> failwith "bad mdeg case"

(* ---------- HPoly ---------- *)
let hp_case (type r) (rc : r rcodec) (toks : string list) : string =
  let o = rc.ro in
  let p s = match split '@' s with
    | [d; c] -> { hdeg = n_of_string d; hco = rc.rparse c } | _ -> failwith "bad hpoly" in
  let pr h = string_of_n h.hdeg ^ "@" ^ rc.rprint h.hco in
  let opt = function Some h -> pr h | None -> "P" in
  match toks with
  | ["add"; a; b] -> opt (h_add o (p a) (p b))
  | ["sub"; a; b] -> opt (h_sub o (p a) (p b))
  | ["neg"; a] -> pr (h_neg o (p a))
  | ["smul"; a; c] -> pr (h_smul o (p a) (rc.rparse c))
  | ["mul"; a; b] -> pr (h_mul o (p a) (p b))
  | ["eq"; a; b] -> b01 (h_eqb o (p a) (p b))
  | ["obs"; a] -> b01 (h_is_zero o (p a)) ^ "," ^ b01 (h_is_one o (p a))
  | _ -> failwith "bad hp case"

let handle (line : string) : string =
  match split_ws line with
  | "prog" :: r :: m :: rest -> with_ring r m rest
  | "mono" :: m :: rest ->
      (match m with
       | "u1" -> mono_case mc_u1 rest | "i1" -> mono_case mc_i1 rest
       | "u2" -> mono_case mc_u2 rest | "i2" -> mono_case mc_i2 rest
       | "u3" -> mono_case mc_u3 rest | "i3" -> mono_case mc_i3 rest
       | "un" -> mono_case mc_un rest | "in" -> mono_case mc_in rest
       | _ -> failwith "bad mono type")
  | "mdeg" :: "u" :: rest -> mdeg_case nE rest
  | "mdeg" :: "i" :: rest -> mdeg_case zE rest
  | "hp" :: r :: rest ->
      (match r with
       | "Zi" | "Zb" -> hp_case zc rest | "Qi" | "Qb" -> hp_case qc rest
       | "F3" -> hp_case f3c rest | "Gi" | "Gb" -> hp_case gc rest
       | _ -> failwith "bad ring")
  | _ -> failwith "bad case"

let () = run_lines handle
