(* C19 driver: F2-dimensions of the mapping cone of (1 + tau) on the cube complex; ordinary F2 tables for
   the symmetric construction without the involutive part.  The kinds cxh, ssi, khw (builder option h_range
   against the unrestricted complex) and khm (manual builder schedules against the automatic one) are relations
   between runs of the implementation; the model side answers REL. *)
(*INCLUDE kh_common.ml*)
let dims_str (ds : (nat * z) list) (shift : int) : string =
  String.concat " " (Stdlib.List.filter_map (fun (k, d) ->
    let d = z_to_int d in if d = 0 then None else Some (Printf.sprintf "%d=%d" (int_of_nat k + shift) d)) ds)

let handle (line : string) : string =
  match String.split_on_char ';' line with
  | head :: ls :: _ ->
    (match split_ws head with
     | [kind; red; h; npos; nneg; "1"] when kind = "khi" || kind = "sym" ->
        let l = parse_link ls in
        let red = (red = "1") in
        (match model_signs l (int_of_string npos) (int_of_string nneg) with Error e -> e | Ok (np, nn) ->
        let rede = if red then Some (nat_of_int 1) else None in
        let hz = z_of_string h in
        if kind = "khi" then
          (match build_icube l rede hz with
           | None -> "MODEL-NONE(no involution)"
           | Some ic ->
              (match khi_dims ic with
               | None -> "MODEL-NONE(check failed)"
               | Some ds ->
                  let t = Printf.sprintf "T[%s]" (dims_str ds (- nn)) in
                  if h = "0" then
                    (match khi_dims_bigraded ic with
                     | None -> t ^ " MODEL-NONE"
                     | Some qs ->
                        let qshift = np - 2 * nn + (if red then 1 else 0) in
                        let cells = Stdlib.List.concat_map (fun (q, ds) ->
                          Stdlib.List.filter_map (fun (k, d) ->
                            let d = z_to_int d in
                            if d = 0 then None else Some ((int_of_nat k - nn, z_to_int q + qshift), d)) ds) qs in
                        let cells = Stdlib.List.sort compare cells in
                        t ^ " B[" ^ String.concat " " (Stdlib.List.map (fun ((i, j), d) -> Printf.sprintf "(%d,%d)=%d" i j d) cells) ^ "]")
                  else t))
        else
          (* ordinary Khovanov homology over F2 of the underlying knot, from the cube oracle (reduced at edge 1) *)
          let c = build_cube l rede hz Z0 in
          (match kh_groups c with
           | None -> "MODEL-NONE"
           | Some gs -> "SAME " ^ table_of gs (- nn) "F2"))
     | "khi" :: _ | "sym" :: _ -> "SKIP"
     | _ -> "REL")
  | _ -> failwith "bad case"

let () = run_lines handle
