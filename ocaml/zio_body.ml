(* Shared I/O helpers, textually prepended (after `open <Model>`) to every driver.
   Conversions between decimal strings / OCaml ints and the extracted inductive numbers
   (positive, n, z, nat).  Zarith is used for decimal <-> binary conversion only. *)
let rec pos_of_zarith (x : ZA.t) : positive =
  if ZA.equal x ZA.one then XH
  else if ZA.testbit x 0 then XI (pos_of_zarith (ZA.shift_right x 1))
  else XO (pos_of_zarith (ZA.shift_right x 1))
let rec zarith_of_pos (p : positive) : ZA.t =
  match p with
  | XH -> ZA.one
  | XO q -> ZA.shift_left (zarith_of_pos q) 1
  | XI q -> ZA.succ (ZA.shift_left (zarith_of_pos q) 1)
let n_of_string (s : string) : n =
  let x = ZA.of_string s in
  if ZA.sign x = 0 then N0 else if ZA.sign x > 0 then Npos (pos_of_zarith x) else failwith ("negative N: " ^ s)
let string_of_n (x : n) : string = match x with N0 -> "0" | Npos p -> ZA.to_string (zarith_of_pos p)
let z_of_string (s : string) : z =
  let x = ZA.of_string s in
  if ZA.sign x = 0 then Z0 else if ZA.sign x > 0 then Zpos (pos_of_zarith x) else Zneg (pos_of_zarith (ZA.neg x))
let string_of_z (x : z) : string =
  match x with Z0 -> "0" | Zpos p -> ZA.to_string (zarith_of_pos p) | Zneg p -> "-" ^ ZA.to_string (zarith_of_pos p)
let nat_of_int (i : int) : nat =
  let rec go acc k = if k <= 0 then acc else go (S acc) (k - 1) in go O i
let int_of_nat (x : nat) : int =
  let rec go acc = function O -> acc | S k -> go (acc + 1) k in go 0 x
let nat_of_string s = nat_of_int (int_of_string s)
let string_of_nat x = string_of_int (int_of_nat x)
let bool_of_string01 s = (s = "1")
let string_of_bool01 b = if b then "1" else "0"
let split_ws (s : string) : string list =
  Stdlib.List.filter (fun t -> t <> "") (String.split_on_char ' ' s)
let string_of_cmp = function Eq -> "Eq" | Lt -> "Lt" | Gt -> "Gt"
(* main loop: one case per input line -> one result line; exceptions are reported, never swallowed *)
let run_lines (f : string -> string) : unit =
  let ic = if Array.length Sys.argv > 1 then open_in Sys.argv.(1) else stdin in
  let oc = if Array.length Sys.argv > 2 then open_out Sys.argv.(2) else stdout in
  (try
    while true do
      let line = input_line ic in
      let r = (try f line with e -> "DRIVER-EXN " ^ Printexc.to_string e) in
      output_string oc r; output_char oc '\n'
    done
  with End_of_file -> ());
  close_out oc
