(* C09 driver: runs the extracted SNF model (Model/Snf.v) on one case per line.
     snf <ring> <flags> <m> <n> <entries>   ->  D | P | Pinv | Q | Qinv | rank | factors      (P = None: panic / fuel)
     chk <ring> <minors> <m> <n> <A> <D> <P> <Pinv> <Q> <Qinv>   ->  pq=b pinv=b qinv=b shape=b minors=b|-
   Entries: integers, `a:b` quadratic integers, `n/d` rationals.
   For the rings that the implementation preprocesses with LLL-HNF the line is prefixed with `DONLY `
   as long as no LLL model is linked (then only D, rank and factors are comparable: D is canonical). *)
let sl = Stdlib.List.map
let rec take k l = if k = 0 then [] else match l with [] -> failwith "too few tokens" | x :: r -> x :: take (k - 1) r
let rec drop k l = if k = 0 then l else match l with [] -> failwith "too few tokens" | _ :: r -> drop (k - 1) r
let rec chunks k l = match l with [] -> [] | _ -> take k l :: chunks k (drop k l)

let split2 c s = match String.index_opt s c with
  | Some k -> (String.sub s 0 k, String.sub s (k + 1) (String.length s - k - 1))
  | None -> failwith ("bad entry " ^ s)

type 'r rio = { dict : 'r euc_dict; parse : string -> 'r; show : 'r -> string; exact : bool }

let z_io d exact = { dict = d; parse = z_of_string; show = string_of_z; exact }
let quad_io d exact =
  { dict = d; exact;
    parse = (fun s -> let (a, b) = split2 ':' s in (z_of_string a, z_of_string b));
    show = (fun (a, b) -> string_of_z a ^ ":" ^ string_of_z b) }
let q_io =
  { dict = q_dict; exact = true;
    parse = (fun s -> let (a, b) = split2 '/' s in
              let den = match z_of_string b with Zpos p -> p | _ -> failwith "denominator" in
              q2Qc { qnum = z_of_string a; qden = den });
    show = (fun x -> let q = this x in string_of_z q.qnum ^ "/" ^ string_of_z (Zpos q.qden)) }
let fp_io p =
  let pz = z_of_string (string_of_int p) in
  { dict = fp_dict pz; exact = true;
    parse = (fun s -> fp_mk pz (z_of_string s));
    show = (fun x -> string_of_z (fp_val pz x)) }
let f2_io =
  { dict = f2_dict; exact = true;
    parse = (fun s -> ZA.testbit (ZA.of_string s) 0);
    show = (fun b -> if b then "1" else "0") }

(* LLL-HNF preprocessing (Model/Lll.v, owned by C10); fuel = calls of `iterate` *)
let lll_fuel = nat_of_int 1000000
let z_pre : z preproc option = Some (lll_pre z_lll lll_fuel)
let gauss_pre : quad preproc option = Some (lll_pre g_lll lll_fuel)
let eisen_pre : quad preproc option = Some (lll_pre e_lll lll_fuel)
let lll_linked = true

let str_mat io (a : 'r dmat) =
  string_of_nat a.dm_m ^ "x" ^ string_of_nat a.dm_n ^ ":" ^
  String.concat ";" (sl (fun r -> String.concat "," (sl io.show r)) a.dm_rows)
let str_omat io = function None -> "-" | Some a -> str_mat io a

let mat_of io m n toks : 'r lmat =
  if Stdlib.List.length toks <> m * n then failwith "entry count";
  if n = 0 then Stdlib.List.init m (fun _ -> []) else chunks n (sl io.parse toks)

let flags_of s = (((s.[0] = '1', s.[1] = '1'), s.[2] = '1'), s.[3] = '1')
let b01 b = if b then "1" else "0"

let run_snf io fl m n toks =
  let a = { dm_m = nat_of_int m; dm_n = nat_of_int n; dm_rows = mat_of io m n toks } in
  let pre = if io.exact then "" else "DONLY " in
  match snf io.dict a (flags_of fl) with
  | None -> pre ^ "P"
  | Some r ->
    pre ^ String.concat " | "
      [ str_mat io r.sr_d; str_omat io r.sr_p; str_omat io r.sr_pinv; str_omat io r.sr_q; str_omat io r.sr_qinv;
        string_of_nat (snf_rank io.dict r); String.concat "," (sl io.show (snf_factors io.dict r)) ]

let run_chk io minors m n toks =
  let mn = nat_of_int m and nn = nat_of_int n in
  let a = mat_of io m n (take (m * n) toks) in
  let toks = drop (m * n) toks in
  let d = mat_of io m n (take (m * n) toks) in
  let toks = drop (m * n) toks in
  let p = mat_of io m m (take (m * m) toks) in
  let toks = drop (m * m) toks in
  let pi = mat_of io m m (take (m * m) toks) in
  let toks = drop (m * m) toks in
  let q = mat_of io n n (take (n * n) toks) in
  let toks = drop (n * n) toks in
  let qi = mat_of io n n (take (n * n) toks) in
  if drop (n * n) toks <> [] then failwith "too many tokens";
  Printf.sprintf "pq=%s pinv=%s qinv=%s shape=%s minors=%s"
    (b01 (chk_pq io.dict mn nn a d p q)) (b01 (chk_inv io.dict mn p pi)) (b01 (chk_inv io.dict nn q qi))
    (b01 (chk_shape io.dict mn nn d)) (if minors then b01 (chk_minors io.dict mn nn a d) else "-")


let handle (line : string) : string =
  match split_ws line with
  | kind :: ring :: x :: m :: n :: toks ->
    let m = int_of_string m and n = int_of_string n in
    let go : 'r. 'r rio -> string = fun io ->
      (match kind with
       | "snf" -> run_snf io x m n toks
       | "chk" -> if toks = ["BAD-SHAPES"] then "pq=0 pinv=0 qinv=0 shape=0 minors=-" else run_chk io (x = "1") m n toks
       | _ -> failwith "bad case") in
    (match ring with
     | "i32" -> go (z_io z_dict true)
     | "i64" | "i128" | "big" -> go (z_io (zpre_dict z_pre) lll_linked)
     | "gi32" -> go (quad_io gauss_dict true)
     | "gi64" | "gbig" -> go (quad_io (gausspre_dict gauss_pre) lll_linked)
     | "ei32" -> go (quad_io eisen_dict true)
     | "ei64" | "ebig" -> go (quad_io (eisenpre_dict eisen_pre) lll_linked)
     | "q64" | "qbig" -> go q_io
     | "f2" -> go f2_io
     | "ff2" -> go (fp_io 2)
     | "f3" -> go (fp_io 3)
     | "f5" -> go (fp_io 5)
     | "f7" -> go (fp_io 7)
     | _ -> failwith "bad ring")
  | _ -> failwith "bad case"

let () = run_lines handle
