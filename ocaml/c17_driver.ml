(* C17 driver: runs the extracted BitSeq model on one case per line.
   Output formats:  bitseq = "<val>:<len>",  panic/None = "P".  Every case is also run through the
   list-of-booleans reference (l_step etc.); the driver prints "model|reference" where both exist. *)
let str_bs (b : bitseq) = string_of_n b.val0 ^ ":" ^ string_of_nat b.len
let str_obs = function Some b -> str_bs b | None -> "P"
let str_bits (l : bool list) = String.concat "" (Stdlib.List.map string_of_bool01 l)
let bits_of_str s = Stdlib.List.init (String.length s) (fun i -> s.[i] = '1')
let bs v l = { val0 = n_of_string v; len = nat_of_string l }

let parse_op (t : string list) : op * string list =
  match t with
  | "set" :: i :: x :: r -> (OSet (nat_of_string i, bool_of_string01 x), r)
  | "push" :: x :: r -> (OPush (bool_of_string01 x), r)
  | "append" :: v :: l :: r -> (OAppend (n_of_string v, nat_of_string l), r)
  | "remove" :: i :: r -> (ORemove (nat_of_string i), r)
  | "insert" :: i :: x :: r -> (OInsert (nat_of_string i, bool_of_string01 x), r)
  | "sub" :: l :: r -> (OSub (nat_of_string l), r)
  | _ -> failwith "bad op"

let handle (line : string) : string =
  match split_ws line with
  | "hist" :: v :: l :: rest ->
      (* history: after every op print the model state (or P when rejected) and the reference list *)
      let b0 = bs v l in
      let rec go b ls toks acc =
        match toks with
        | [] -> Stdlib.List.rev acc
        | _ ->
          let (o, r) = parse_op toks in
          let m = step b o in
          let lr = l_step ls o in
          let out = (match m with Some b' -> str_bs b' | None -> "P") ^ "|" ^
                    (match lr with Some l' -> str_bits l' | None -> "P") in
          go (run_step b o) (l_run_step ls o) r (out :: acc)
      in
      String.concat " " (go b0 (abs b0) rest [])
  | ["new"; v; l] -> str_obs (new0 (n_of_string v) (nat_of_string l))
  | ["new_rev"; v; l] -> str_obs (new_rev (n_of_string v) (nat_of_string l))
  | ["zeros"; l] -> str_obs (zeros (nat_of_string l))
  | ["ones"; l] -> str_obs (ones0 (nat_of_string l))
  | ["from_iter"; s] -> str_obs (from_iter (bits_of_str (if s = "-" then "" else s)))
  | "from_str" :: cs ->
      (match from_str (Stdlib.List.map nat_of_string cs) with
       | POk b -> str_bs b | PErr -> "E" | PPanic -> "P")
  | ["to_string"; v; l] -> "s" ^ String.concat "" (Stdlib.List.map string_of_nat (to_string (bs v l)))
  | ["weight"; v; l] -> (match weight (bs v l) with Some w -> string_of_nat w | None -> "P")
  | ["iter"; v; l] -> "s" ^ str_bits (iter0 (bs v l))
  | ["index"; v; l; i] -> (match index (bs v l) (nat_of_string i) with Some x -> string_of_bool01 x | None -> "P")
  | ["is_sub"; va; la; vb; lb] -> (match is_sub (bs va la) (bs vb lb) with Some x -> string_of_bool01 x | None -> "P")
  | ["cmp"; va; la; vb; lb] -> (match cmp (bs va la) (bs vb lb) with Some c -> string_of_cmp c | None -> "P")
  | ["generate"; l] ->
      (match generate (nat_of_string l) with
       | Some gs -> String.concat "," (Stdlib.List.map str_bs gs) | None -> "P")
  | _ -> failwith "bad case"

let () = run_lines handle
