(* shared by the Khovanov-family drivers (textually included after zio_body.ml) *)
let parse_link (s : string) : link =
  let s = String.trim s in
  if s = "" then [] else
  Stdlib.List.map (fun c ->
    match split_ws c with
    | [ty; a; b; c'; d] ->
        let t = (match ty with "X" -> CX | "M" -> CXm | "V" -> CV | "H" -> CH | _ -> failwith "ctype") in
        (t, (((nat_of_string a, nat_of_string b), nat_of_string c'), nat_of_string d))
    | _ -> failwith "crossing") (String.split_on_char ',' s)

let z_to_int (x : z) : int = int_of_string (string_of_z x)

(* sort strings as the harness does: by (length, text) *)
let sort_tors (l : string list) : string list =
  Stdlib.List.sort (fun a b -> compare (String.length a, a) (String.length b, b)) l

(* tables in the harness' format *)
let table_of (gs : (nat * group) list) (shift : int) (which : string) : string =
  let items = Stdlib.List.filter_map (fun (k, g) ->
    let i = int_of_nat k + shift in
    match which with
    | "Z" ->
        let r = z_to_int g.g_rank and t = Stdlib.List.map string_of_z g.g_tors in
        if r = 0 && t = [] then None
        else Some (Printf.sprintf "%d=%d/%s" i r (String.concat "." (sort_tors t)))
    | "Q" -> let r = z_to_int g.g_rank in if r = 0 then None else Some (Printf.sprintf "%d=%d" i r)
    | "F2" -> let r = z_to_int g.g_dim2 in if r = 0 then None else Some (Printf.sprintf "%d=%d" i r)
    | "F3" -> let r = z_to_int g.g_dim3 in if r = 0 then None else Some (Printf.sprintf "%d=%d" i r)
    | _ -> failwith "which") gs in
  String.concat " " items

let bitable_of (qs : (z * (nat * group) list) list) (hshift : int) (qshift : int) (which : string) : string =
  let cells = Stdlib.List.concat_map (fun (q, gs) ->
    let j = z_to_int q + qshift in
    Stdlib.List.filter_map (fun (k, g) ->
      let i = int_of_nat k + hshift in
      let body =
        (match which with
         | "Z" ->
             let r = z_to_int g.g_rank and t = Stdlib.List.map string_of_z g.g_tors in
             if r = 0 && t = [] then None else Some (Printf.sprintf "%d/%s" r (String.concat "." (sort_tors t)))
         | "Q" -> let r = z_to_int g.g_rank in if r = 0 then None else Some (string_of_int r)
         | "F2" -> let r = z_to_int g.g_dim2 in if r = 0 then None else Some (string_of_int r)
         | "F3" -> let r = z_to_int g.g_dim3 in if r = 0 then None else Some (string_of_int r)
         | _ -> failwith "which") in
      match body with None -> None | Some b -> Some ((i, j), b)) gs) qs in
  let cells = Stdlib.List.sort compare cells in
  String.concat " " (Stdlib.List.map (fun ((i, j), b) -> Printf.sprintf "(%d,%d)=%s" i j b) cells)

(* crossing signs computed by the model of Link (Model/Link.v through KhSigns); the numbers in the case
   line come from the implementation and must agree *)
let model_signs (l : link) (np : int) (nn : int) : (int * int, string) result =
  match signed_nums l with
  | None -> Error "MODEL-SIGNS-NONE"
  | Some (p, n) ->
      let (p, n) = (int_of_nat p, int_of_nat n) in
      if p = np && n = nn then Ok (p, n)
      else Error (Printf.sprintf "SIGNS-DIFFER model=(%d,%d) impl=(%d,%d)" p n np nn)
