(* C13 driver: evaluates one stack program per line with the extracted models of Model/Dense.v,
   Model/Sparse.v and Model/Trans.v.  The language and the output format are those of
   harness/src/bin/c13.rs (see there): `<ring> tok tok ...`, output = the rendered final stack, or
   `P@k` when the model returns None at token k. *)
exception Panic
exception Bad of string

type 'r value = M of 'r spmat | V of 'r spmat | D of 'r dmat | P of perm | T of 'r trans

let nat = nat_of_int
let int = int_of_nat
let b01 b = if b then "1" else "0"
let get = function Some x -> x | None -> raise Panic

let run (o : 'r ring_ops) (parse : string -> 'r) (show : 'r -> string) (toks : string array) : string =
  let show_list xs = String.concat " " (Stdlib.List.map show xs) in
  let show_m (a : 'r spmat) =
    let st = Stdlib.List.map (fun ((i, j), x) -> Printf.sprintf "%d %d %s" (int i) (int j) (show x)) (sp_iter a) in
    Printf.sprintf "M %d %d nnz=%d z=%s id=%s [%s] [%s]" (int a.sp_m) (int a.sp_n) (int (sp_nnz a))
      (b01 (sp_is_zero o a)) (b01 (sp_is_id o a)) (String.concat "," st) (show_list (d_data o (sp_to_dense o a))) in
  let show_v (v : 'r spmat) =
    let st = Stdlib.List.map (fun ((i, _), x) -> Printf.sprintf "%d %s" (int i) (show x)) (sp_iter v) in
    Printf.sprintf "V %d z=%s [%s] [%s]" (int (sv_dim v)) (b01 (sp_is_zero o v)) (String.concat "," st)
      (show_list (sv_to_dense o v)) in
  let show_d (d : 'r dmat) =
    let it = Stdlib.List.map (fun ((i, j), x) -> Printf.sprintf "%d %d %s" (int i) (int j) (show x)) (d_iter o d) in
    Printf.sprintf "D %d %d sq=%s z=%s id=%s dg=%s [%s] it=[%s]" (int d.dm) (int d.dn) (b01 (int d.dm = int d.dn))
      (b01 (d_is_zero o d)) (b01 (d_is_id o d)) (b01 (d_is_diag o d)) (show_list (d_data o d)) (String.concat "," it) in
  let show_t (t : 'r trans) =
    let f = match tr_forward_mat o t with Some a -> show_m a | None -> "P" in
    let b = match tr_backward_mat o t with Some a -> show_m a | None -> "P" in
    Printf.sprintf "T %d %d id=%s F=%s B=%s" (int t.t_src) (int t.t_tgt) (b01 (tr_is_id t)) f b in
  let show_val = function
    | M a -> show_m a | V a -> show_v a | D a -> show_d a | T t -> show_t t
    | P p -> Printf.sprintf "P %d [%s]" (Stdlib.List.length p) (String.concat " " (Stdlib.List.map string_of_nat p)) in
  let k = ref 0 in
  let st : 'r value list ref = ref [] in
  let next () = if !k >= Array.length toks then raise (Bad "eof") else (let s = toks.(!k) in incr k; s) in
  let nati () = int_of_string (next ()) in
  let natn () = nat (nati ()) in
  let sc () = parse (next ()) in
  let rec rep n f = if n <= 0 then [] else (let x = f () in x :: rep (n - 1) f) in
  let trip n = rep n (fun () -> let i = natn () in let j = natn () in let x = sc () in ((i, j), x)) in
  let pairs n = rep n (fun () -> let i = natn () in let x = sc () in (i, x)) in
  let push v = st := v :: !st in
  let pop () = match !st with v :: r -> st := r; v | [] -> raise (Bad "underflow") in
  let pop_m () = match pop () with M a -> a | _ -> raise (Bad "type M") in
  let pop_v () = match pop () with V a -> a | _ -> raise (Bad "type V") in
  let pop_d () = match pop () with D a -> a | _ -> raise (Bad "type D") in
  let pop_p () = match pop () with P a -> a | _ -> raise (Bad "type P") in
  let pop_t () = match pop () with T a -> a | _ -> raise (Bad "type T") in
  let step op =
    match op with
    | "dup" -> let a = pop () in push a; push a
    | "swap" -> let b = pop () in let a = pop () in push b; push a
    | "over" -> let b = pop () in let a = pop () in push a; push b; push a
    | "drop" -> ignore (pop ())
    | "p" -> let n = nati () in let v = rep n natn in push (P (get (perm_new v)))
    | "pid" -> let n = natn () in push (P (perm_id n))
    | "pfi" -> let n = natn () in let c = nati () in let idx = rep c natn in push (P (get (perm_for_indices n idx)))
    | "csc" ->
        let m = natn () in let n = nati () in let c = nati () in
        let es = trip c in
        let cols = Stdlib.List.init n (fun j ->
          get (sv_from_sorted_entries m
                 (Stdlib.List.filter_map (fun ((i, j'), x) -> if int j' = j then Some (i, x) else None) es))) in
        push (M (get (sp_from_col_vecs m cols)))
    | "fe" -> let m = natn () in let n = natn () in let c = nati () in let es = trip c in
        push (M (get (sp_from_entries o m n es)))
    | "fdd" -> let m = natn () in let n = natn () in let c = nati () in let xs = rep c sc in
        push (M (get (sp_from_dense_data o m n xs)))
    | "zero" -> let m = natn () in let n = natn () in push (M (sp_zero m n))
    | "id" -> let n = natn () in push (M (sp_id o n))
    | "fcv" -> let m = natn () in let c = nati () in
        let vs = Stdlib.List.rev (rep c pop_v) in push (M (get (sp_from_col_vecs m vs)))
    | "frp" -> let p = pop_p () in push (M (get (sp_from_row_perm o p)))
    | "fcp" -> let p = pop_p () in push (M (get (sp_from_col_perm o p)))
    | "ofd" -> let d = pop_d () in push (M (sp_of_dense o d))
    | "tr" -> let a = pop_m () in push (M (sp_transpose o a))
    | "neg" -> let a = pop_m () in push (M (sp_neg o a))
    | "add" -> let b = pop_m () in let a = pop_m () in push (M (get (sp_add o a b)))
    | "sub" -> let b = pop_m () in let a = pop_m () in push (M (get (sp_sub o a b)))
    | "mul" -> let b = pop_m () in let a = pop_m () in push (M (get (sp_mul o a b)))
    | "perm" -> let q = pop_p () in let p = pop_p () in let a = pop_m () in push (M (get (sp_permute o a p q)))
    | "permr" -> let p = pop_p () in let a = pop_m () in push (M (get (sp_permute_rows o a p)))
    | "permc" -> let p = pop_p () in let a = pop_m () in push (M (get (sp_permute_cols o a p)))
    | "sm" -> let i0 = natn () in let i1 = natn () in let j0 = natn () in let j1 = natn () in
        let a = pop_m () in push (M (get (sp_submat o a i0 i1 j0 j1)))
    | "smr" -> let i0 = natn () in let i1 = natn () in let a = pop_m () in push (M (get (sp_submat_rows o a i0 i1)))
    | "smc" -> let j0 = natn () in let j1 = natn () in let a = pop_m () in push (M (get (sp_submat_cols o a j0 j1)))
    | "exmod" ->
        let m = nati () in let n = nati () in let a = pop_m () in
        let f i j =
          let i = int i and j = int j in
          if (i + j) mod 3 = 2 then FSkip else if m = 0 || n = 0 then FPanic else FTo (nat (i mod m), nat (j mod n)) in
        push (M (get (sp_extract o a (nat m) (nat n) f)))
    | "div4" -> let k' = natn () in let l = natn () in let a = pop_m () in
        let (((x, y), z), w) = get (sp_divide4 o a k' l) in push (M x); push (M y); push (M z); push (M w)
    | "comb" -> let d = pop_m () in let c = pop_m () in let b = pop_m () in let a = pop_m () in
        push (M (get (sp_combine_blocks o a b c d)))
    | "concat" -> let b = pop_m () in let a = pop_m () in push (M (get (sp_concat o a b)))
    | "stack" -> let b = pop_m () in let a = pop_m () in push (M (get (sp_stack o a b)))
    | "extc" -> let b = pop_m () in let a = pop_m () in push (M (get (sp_extend_cols a b)))
    | "tod" -> let a = pop_m () in push (D (sp_to_dense o a))
    | "colv" -> let j = natn () in let a = pop_m () in push (V (get (sp_col_vec o a j)))
    | "vfe" -> let dim = natn () in let c = nati () in let es = pairs c in push (V (get (sv_from_entries o dim es)))
    | "vfse" -> let dim = natn () in let c = nati () in let es = pairs c in push (V (get (sv_from_sorted_entries dim es)))
    | "vzero" -> let dim = natn () in push (V (sv_zero dim))
    | "vunit" -> let n = natn () in let i = natn () in push (V (get (sv_unit o n i)))
    | "vfv" -> let c = nati () in let xs = rep c sc in push (V (get (sv_from_vec o xs)))
    | "vmat" -> let v = pop_v () in push (M v)
    | "vperm" -> let p = pop_p () in let v = pop_v () in push (V (get (sv_permute o v p)))
    | "vsub" -> let s = natn () in let e = natn () in let v = pop_v () in push (V (get (sv_subvec o v s e)))
    | "vstack" -> let w = pop_v () in let v = pop_v () in push (V (get (sv_stack o v w)))
    | "vsplit" -> let c = natn () in let v = pop_v () in let (x, y) = get (sv_split o v c) in push (V x); push (V y)
    | "vstackn" -> let c = nati () in let vs = Stdlib.List.rev (rep c pop_v) in push (V (get (sv_stack_vecs vs)))
    | "vneg" -> let v = pop_v () in push (V (sv_neg o v))
    | "vadd" -> let b = pop_v () in let a = pop_v () in push (V (get (sv_add o a b)))
    | "vsubt" -> let b = pop_v () in let a = pop_v () in push (V (get (sv_sub o a b)))
    | "mulv" -> let v = pop_v () in let a = pop_m () in push (V (get (sp_mul_vec o a v)))
    | "dfd" -> let m = natn () in let n = natn () in let c = nati () in let xs = rep c sc in
        push (D (get (d_from_data o m n xs)))
    | "dzero" -> let m = natn () in let n = natn () in push (D (d_zero o m n))
    | "did" -> let n = natn () in push (D (d_id o n))
    | "ddiag" -> let m = natn () in let n = natn () in let c = nati () in let xs = rep c sc in
        push (D (get (d_diag o m n xs)))
    | "dsm" -> let i0 = natn () in let i1 = natn () in let j0 = natn () in let j1 = natn () in
        let a = pop_d () in push (D (get (d_submat o a i0 i1 j0 j1)))
    | "dsmr" -> let i0 = natn () in let i1 = natn () in let a = pop_d () in push (D (get (d_submat_rows o a i0 i1)))
    | "dsmc" -> let j0 = natn () in let j1 = natn () in let a = pop_d () in push (D (get (d_submat_cols o a j0 j1)))
    | "dswr" -> let i = natn () in let j = natn () in let a = pop_d () in push (D (get (d_swap_rows o a i j)))
    | "dswc" -> let i = natn () in let j = natn () in let a = pop_d () in push (D (get (d_swap_cols o a i j)))
    | "dmr" -> let i = natn () in let r = sc () in let a = pop_d () in push (D (get (d_mul_row o a i r)))
    | "dmc" -> let i = natn () in let r = sc () in let a = pop_d () in push (D (get (d_mul_col o a i r)))
    | "dart" -> let i = natn () in let j = natn () in let r = sc () in let a = pop_d () in
        push (D (get (d_add_row_to o a i j r)))
    | "dact" -> let i = natn () in let j = natn () in let r = sc () in let a = pop_d () in
        push (D (get (d_add_col_to o a i j r)))
    | "dle" | "dre" ->
        let a' = sc () in let b' = sc () in let c' = sc () in let d' = sc () in
        let i = natn () in let j = natn () in let a = pop_d () in
        push (D (get ((if op = "dle" then d_left_elementary else d_right_elementary) o a a' b' c' d' i j)))
    | "dneg" -> let a = pop_d () in push (D (d_neg o a))
    | "dadd" -> let b = pop_d () in let a = pop_d () in push (D (get (d_add o a b)))
    | "dsubt" -> let b = pop_d () in let a = pop_d () in push (D (get (d_sub o a b)))
    | "dmul" -> let b = pop_d () in let a = pop_d () in push (D (get (d_mul o a b)))
    | "tid" -> let n = natn () in push (T (tr_id n))
    | "tnew" -> let b = pop_m () in let f = pop_m () in push (T (get (tr_new f b)))
    | "tapp" -> let b = pop_m () in let f = pop_m () in let t = pop_t () in push (T (get (tr_append t f b)))
    | "tappp" -> let p = pop_p () in let t = pop_t () in push (T (get (tr_append_perm o t p)))
    | "tmerge" -> let u = pop_t () in let t = pop_t () in push (T (get (tr_merge t u)))
    | "tred" -> let t = pop_t () in push (T (get (tr_reduce o t)))
    | "tsub" -> let c = nati () in let idx = rep c natn in let t = pop_t () in push (T (get (tr_sub o t idx)))
    | "tfwd" -> let v = pop_v () in let t = pop_t () in push (V (get (tr_forward o t v)))
    | "tbwd" -> let v = pop_v () in let t = pop_t () in push (V (get (tr_backward o t v)))
    | "tfm" -> let t = pop_t () in push (M (get (tr_forward_mat o t)))
    | "tbm" -> let t = pop_t () in push (M (get (tr_backward_mat o t)))
    | _ -> raise (Bad ("op " ^ op))
  in
  let result = ref None in
  (try
     while !result = None && !k < Array.length toks do
       let at = !k in
       let op = next () in
       (try step op with Panic -> result := Some (Printf.sprintf "P@%d" at))
     done
   with Bad e -> failwith e);
  match !result with
  | Some r -> r
  | None ->
      let out = Stdlib.List.rev_map show_val !st in
      if out = [] then "-" else String.concat " | " out

(* scalars *)
let parse_q (s : string) : q =
  match String.split_on_char '/' s with
  | [n] -> qred { qnum = z_of_string n; qden = XH }
  | [n; d] ->
      (match z_of_string d with
       | Zpos p -> qred { qnum = z_of_string n; qden = p }
       | _ -> failwith "denominator")
  | _ -> failwith "rational"
let show_q (x : q) = string_of_z x.qnum ^ "/" ^ string_of_z (Zpos x.qden)
let five = z_of_string "5"
let parse_f5 (s : string) : z = Z.modulo (z_of_string s) five

let handle (line : string) : string =
  match split_ws line with
  | "Z" :: t -> run z_ring z_of_string string_of_z (Array.of_list t)
  | "Q" :: t -> run q_ops parse_q show_q (Array.of_list t)
  | "F5" :: t -> run (fp_ops five) parse_f5 string_of_z (Array.of_list t)
  | _ -> failwith "bad case"

let () = run_lines handle
