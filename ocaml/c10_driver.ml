(* C10 driver: runs the extracted LLL / LLL-HNF model (Model/Lll.v) on one case per line.

   case   :  <alg> <ring> <m> <n> <flags> <tag> e_1 e_2 ...
               alg   = lll | hnf
               ring  = Z | G | E             (G, E: two integers a b per entry a + b w)
               flags = 0|1 (lll: with_trans)   00|01|10|11 (hnf: [p, pinv])
               tag   = free token (generator class / independence), ignored here
               entries row-major
   result :  <main> # <checks>
               main   = T|P|Pinv (hnf)  or  B|P (lll); a matrix is its entries row-major, "." when it
                        has no entry, "-" when not tracked;  "P" alone when the model returns None
                        (panic or fuel exhausted)
               checks = executable Gallina checkers evaluated on the model's final state / output:
                        hnf: sh=<hnf_shape_b> tr=<check_trans | - unless flags = 11>
                        lll: ex=<lovasz_all_b && size_all_b on (det, lambda)> gs=<gs_consistent>
                             sz=<size-reduced> lo=<Lovasz>   (exact rational Gram-Schmidt on B; "-" when
                             skipped because the entries are too large for the rational checker,
                             "D" when Gram-Schmidt finds dependent rows) *)
let fuel : nat = nat_of_int 300000

let rec chunks k l =
  if l = [] then [] else
  let rec take i l acc = if i = 0 then (Stdlib.List.rev acc, l) else
    match l with [] -> failwith "short row" | x :: r -> take (i - 1) r (x :: acc) in
  let (a, r) = take k l [] in a :: chunks k r

let rows_of m n (es : 'a list) : 'a list list =
  if Stdlib.List.length es <> m * n then failwith "entry count";
  if n = 0 then Stdlib.List.init m (fun _ -> []) else chunks n es

let rec pairs = function
  | [] -> []
  | a :: b :: r -> (z_of_string a, z_of_string b) :: pairs r
  | _ -> failwith "odd number of coordinates"

let str_mat (f : 'a -> string) (a : 'a list list) : string =
  let es = Stdlib.List.concat a in
  if es = [] then "." else String.concat " " (Stdlib.List.map f es)
let str_omat f = function None -> "-" | Some a -> str_mat f a
let b01 b = if b then "1" else "0"

let run (type r) (ring : r lll_ring) (show : r -> string) (alg : string) (m : int) (n : int)
        (flags : string) (a : r list list) (small : bool) : string =
  let mm = nat_of_int m and nn = nat_of_int n in
  match alg with
  | "hnf" ->
      let f1 = flags.[0] = '1' and f2 = flags.[1] = '1' in
      (match hnf_run ring a (f1, f2) fuel with
       | None -> "P"
       | Some s ->
           let ((h, p), pinv) = hnf_result ring s in
           let main = String.concat "|" [str_mat show h; str_omat show p; str_omat show pinv] in
           let sh = hnf_shape_b ring mm nn h in
           let tr = (match p, pinv with
                     | Some p, Some q -> b01 (check_trans ring mm nn a h p q)
                     | _ -> "-") in
           Printf.sprintf "%s # sh=%s tr=%s" main (b01 sh) tr)
  | "lll" ->
      let f1 = flags.[0] = '1' in
      (match lll_run ring a (f1, false) fuel with
       | None -> "P"
       | Some s ->
           let main = String.concat "|" [str_mat show s.target; str_omat show s.tp] in
           let ex = lovasz_all_b ring s && size_all_b ring s in
           let (gs, sz, lo) =
             if not small then ("-", "-", "-") else
             let gs = b01 (gs_consistent ring s) in
             (match lll_reduced_q ring s.target with
              | None -> (gs, "D", "D")
              | Some (sz, lo) -> (gs, b01 sz, b01 lo)) in
           Printf.sprintf "%s # ex=%s gs=%s sz=%s lo=%s" main (b01 ex) gs sz lo)
  | _ -> failwith "bad alg"

let handle (line : string) : string =
  match split_ws line with
  | alg :: ring :: m :: n :: flags :: _tag :: es ->
      let m = int_of_string m and n = int_of_string n in
      let maxlen = Stdlib.List.fold_left (fun a s -> max a (String.length s)) 0 es in
      (* the rational checker is quadratic in the size of exact fractions: run it up to ~40-digit entries,
         and on larger ones only for small shapes *)
      let small = (maxlen <= 40 || (maxlen <= 320 && m <= 3)) && Sys.getenv_opt "C10_NORATIONAL" = None in
      (match ring with
       | "Z" ->
           let a = rows_of m n (Stdlib.List.map z_of_string es) in
           run z_lll string_of_z alg m n flags a small
       | "G" | "E" ->
           let a = rows_of m n (pairs es) in
           let show (x, y) = string_of_z x ^ " " ^ string_of_z y in
           run (if ring = "G" then g_lll else e_lll) show alg m n flags a small
       | _ -> failwith "bad ring")
  | _ -> failwith "bad case"

let () = run_lines handle
