(* C08 driver: runs the extracted chain-reducer model (Model/Reducer.v).
   Input line  = <case> ## <implementation line>   (vlib/c08.py joins the two files), where the
   implementation line is  <pivot log> # <result>  : the model needs the pivot lists the implementation
   used (the oracle) and the driver evaluates the verified checker on the implementation's result.
   Output line = ok=<ghost flag> rest=<unused oracle answers> chk=<checker on impl output: 1|0|-> # <model result>
   A model [None] (= Rust panic / oracle exhausted) prints "P".
   Case kinds: red | cpx : <kind> <ring> <threads> <deg> <n> <n ranks> <n-1 matrices>
               scr       : scr <ring> <threads> <deg> <m> <m+1 ranks> <m matrices> <m with_trans flags> <m+1 vector lists>
                           <support> <ops>;   bad: the same with <m (rows cols) pairs> instead of the ranks
   Formats (tokens separated by blanks):
     matrix  = <m> <n> <m*n elements, row major>
     trans   = 1 <src> <tgt> <matrix F> <matrix B>  |  0
     piv log = <k> then k lists: <len> <i j>*len
   Ring elements: Z, F2, F3: decimal; Q: a/b; Z[H]: c0,c1,..,ck (lowest degree first). *)

exception Panic

type 'r ringio = { ro : 'r ring_ops; uo : 'r unit_ops; parse : string -> 'r; show : 'r -> string }

let z_io = { ro = z_ring; uo = z_units; parse = z_of_string; show = string_of_z }
let fp_io p = let pz = z_of_string (string_of_int p) in
  { ro = fp_ring pz; uo = fp_units pz; parse = z_of_string; show = string_of_z }
let q_io = {
  ro = q_ring; uo = q_units;
  parse = (fun s -> match String.split_on_char '/' s with
    | [a; b] -> (match z_of_string b with Zpos p -> qnorm (z_of_string a) p | _ -> failwith "bad denominator")
    | [a] -> (z_of_string a, XH)
    | _ -> failwith "bad rational");
  show = (fun (a, b) -> string_of_z a ^ "/" ^ string_of_z (Zpos b)) }
let zh_io = {
  ro = zH_ring; uo = zH_units;
  parse = (fun s -> zh_strip (Stdlib.List.map z_of_string (String.split_on_char ',' s)));
  show = (fun l -> match l with [] -> "0" | _ -> String.concat "," (Stdlib.List.map string_of_z l)) }

(* token cursor *)
let toks : string list ref = ref []
let next () = match !toks with [] -> failwith "unexpected end of line" | x :: r -> toks := r; x
let next_int () = int_of_string (next ())
let next_nat () = nat_of_int (next_int ())
let rec times k f = if k <= 0 then [] else let x = f () in x :: times (k - 1) f

let read_mat io m n : 'r dmat =
  let rows = times m (fun () -> times n (fun () -> io.parse (next ()))) in
  { dr = nat_of_int m; dc = nat_of_int n; de = rows }
let read_dmat io = let m = next_int () in let n = next_int () in read_mat io m n
let show_mat io (a : 'r dmat) =
  String.concat " " (string_of_nat a.dr :: string_of_nat a.dc ::
                     Stdlib.List.concat_map (fun row -> Stdlib.List.map io.show row) a.de)
let show_trans io = function
  | None -> "0"
  | Some t -> "1 " ^ string_of_nat t.t_src ^ " " ^ string_of_nat t.t_tgt ^ " " ^ show_mat io t.t_f ^ " " ^ show_mat io t.t_b
let show_vecs io (vs : 'r list list) =
  String.concat " " (string_of_int (Stdlib.List.length vs) ::
                     Stdlib.List.map (fun v -> String.concat " " (string_of_int (Stdlib.List.length v) :: Stdlib.List.map io.show v)) vs)
let read_vecs io =
  let k = next_int () in times k (fun () -> let l = next_int () in times l (fun () -> io.parse (next ())))
let read_pivlog () =
  let k = next_int () in
  times k (fun () -> let l = next_int () in times l (fun () -> let i = next_nat () in let j = next_nat () in (i, j)))
let expect s = let t = next () in if t <> s then failwith ("expected " ^ s ^ " got " ^ t)

(* render positions 0..m-1 of a state: matrix, trans; then the vectors of positions 0..m *)
let show_state io (st : 'r state) (m : int) =
  let per p = match st.mats (nat_of_int p) with
    | None -> "-"
    | Some d -> show_mat io d ^ " " ^ show_trans io (st.trs (nat_of_int p)) in
  String.concat " | " (Stdlib.List.init m per) ^ " || " ^
  String.concat " | " (Stdlib.List.init (m + 1) (fun p -> show_vecs io (st.vcs (nat_of_int p))))

(* the same layout read back from the implementation's line *)
let read_state io (m : int) =
  let per _ =
    let d = read_dmat io in
    let t = (match next () with
      | "0" -> None
      | "1" -> let s = next_nat () in let g = next_nat () in let f = read_dmat io in let b = read_dmat io in
               Some { t_src = s; t_tgt = g; t_f = f; t_b = b }
      | _ -> failwith "bad trans flag") in
    (d, t) in
  let rec go p acc = if p >= m then Stdlib.List.rev acc else begin
      let x = per p in
      (if p < m - 1 then expect "|"); go (p + 1) (x :: acc) end in
  let slots = go 0 [] in
  expect "||";
  let rec gov p acc = if p > m then Stdlib.List.rev acc else begin
      let x = read_vecs io in
      (if p < m then expect "|"); gov (p + 1) (x :: acc) end in
  let vecs = gov 0 [] in
  (slots, vecs)

let opt_all l = if Stdlib.List.for_all (fun x -> x <> None) l
  then Some (Stdlib.List.map (function Some x -> x | None -> assert false) l) else None

(* checker on the implementation's output: closed complex, every Trans present *)
let run_checker io (orig : 'r dmat list) (orig_vecs : 'r list list list) (slots, vecs) =
  let cur = Stdlib.List.map fst slots in
  match opt_all (Stdlib.List.map snd slots) with
  | None -> "-"
  | Some ts ->
    let fs = Stdlib.List.map (fun t -> t.t_f) ts and bs = Stdlib.List.map (fun t -> t.t_b) ts in
    let closed = (match Stdlib.List.rev orig with d :: _ -> int_of_nat d.dr = 0 | [] -> false) in
    if not closed then "-" else
    let ok1 = check_all io.ro orig cur fs bs in
    let ok2 = Stdlib.List.for_all (fun x -> x)
        (Stdlib.List.mapi (fun p f ->
             let v0 = Stdlib.List.nth orig_vecs p and v1 = Stdlib.List.nth vecs p in
             Stdlib.List.length v0 = Stdlib.List.length v1 &&
             Stdlib.List.for_all2 (fun a b -> check_vec io.ro f a b) v0 v1) fs) in
    if ok1 && ok2 then "1" else "0"

let ptype_of = function "R" -> Rows | "C" -> Cols | s -> failwith ("bad pivot type " ^ s)

let handle_with (type r) (io : r ringio) (kind : string) : string =
  let _threads = next_int () in
  let deg = next_int () in
  match kind with
  | "red" | "cpx" ->
    let n = next_int () in
    let dims = times n next_int in
    let ds = Stdlib.List.init (max 0 (n - 1)) (fun p ->
        read_mat io (Stdlib.List.nth dims (p + 1)) (Stdlib.List.nth dims p)) in
    expect "##";
    let first = next () in
    if first = "P" then begin
      (* implementation panicked: replay with the pivots it had consumed *)
      let log = read_pivlog () in
      (match reduced io.ro io.uo (Stdlib.List.map nat_of_int dims) ds (deg < 0) log with
       | None -> "P" | Some _ -> "ok=? rest=? chk=- # model-does-not-panic")
    end else begin
      toks := first :: !toks;
      let log = read_pivlog () in
      expect "#";
      let m = n + 1 in
      let last_dim = (match Stdlib.List.rev dims with x :: _ -> x | [] -> 0) in
      let orig = ds @ [dzero io.ro O (nat_of_int last_dim); dzero io.ro O O] in
      match reduced io.ro io.uo (Stdlib.List.map nat_of_int dims) ds (deg < 0) log with
      | None -> "P"
      | Some (st, rest) ->
        let head chk = Printf.sprintf "ok=%s rest=%d chk=%s # " (string_of_bool01 st.okf) (Stdlib.List.length rest) chk in
        if kind = "red" then begin
          let impl = read_state io m in
          let chk = run_checker io orig (Stdlib.List.init (m + 1) (fun _ -> [])) impl in
          head chk ^ show_state io st m
        end else begin
          (* cpx: per support position: rank, trans, d_matrix through the trans; the driver also
             requires the model's own F D B = reduced matrix *)
          let per p =
            let d = (match st.mats (nat_of_int p) with Some d -> d | None -> raise Panic) in
            let rd = (match reduced_d io.ro (Stdlib.List.nth orig p) (st.trs (nat_of_int p)) (st.trs (nat_of_int (p + 1))) with
                Some x -> x | None -> raise Panic) in
            (deqb io.ro rd d, string_of_nat d.dc ^ " " ^ show_trans io (st.trs (nat_of_int p)) ^ " " ^ show_mat io rd) in
          let rs = Stdlib.List.init n per in
          let chk = if Stdlib.List.for_all fst rs then "1" else "0" in
          head chk ^ String.concat " | " (Stdlib.List.map snd rs)
        end
    end
  | "scr" | "bad" ->
    (* scr: ranks of the m+1 spaces; bad (malformed stream): explicit (rows, cols) of every matrix *)
    let m = next_int () in
    let shapes =
      if kind = "scr" then begin
        let dims = times (m + 1) next_int in
        Stdlib.List.init m (fun p -> (Stdlib.List.nth dims (p + 1), Stdlib.List.nth dims p))
      end else times m (fun () -> let a = next_int () in let b = next_int () in (a, b)) in
    let ds = Stdlib.List.map (fun (a, b) -> read_mat io a b) shapes in
    let wts = times m (fun () -> next () = "1") in
    let vecs = times (m + 1) (fun () -> read_vecs io) in
    let nsupp = next_int () in
    let supp = times nsupp next_nat in
    let nops = next_int () in
    let ops = times nops (fun () ->
        match next () with
        | "spec" -> let p = next_nat () in let t = ptype_of (next ()) in let _cond = next () in OSpec (p, t)
        | "at" -> let p = next_nat () in let d = next () = "1" in OAt (p, d)
        | "all" -> let d = next () = "1" in OAll d
        | s -> failwith ("bad op " ^ s)) in
    let st0 = {
      mats = (fun p -> Stdlib.List.nth_opt ds (int_of_nat p));
      trs = (fun p -> let i = int_of_nat p in
              if i < m && Stdlib.List.nth wts i then Some (t_id io.ro (Stdlib.List.nth ds i).dc) else None);
      vcs = (fun p -> let i = int_of_nat p in if i <= m then Stdlib.List.nth vecs i else []);
      okf = true } in
    expect "##";
    let first = next () in
    if first = "P" then begin
      let log = read_pivlog () in
      (match run_script io.ro io.uo supp ops st0 log with
       | None -> "P" | Some _ -> "ok=? rest=? chk=- # model-does-not-panic")
    end else begin
      toks := first :: !toks;
      let log = read_pivlog () in
      expect "#";
      match run_script io.ro io.uo supp ops st0 log with
      | None -> "P"
      | Some (st, rest) ->
        let impl = read_state io m in
        (* malformed stream: the checker's clauses are not expected to hold (and its shape assumptions fail) *)
        let chk = if kind = "bad" then "-" else run_checker io ds vecs impl in
        Printf.sprintf "ok=%s rest=%d chk=%s # " (string_of_bool01 st.okf) (Stdlib.List.length rest) chk ^ show_state io st m
    end
  | _ -> failwith "bad case kind"

let handle (line : string) : string =
  toks := split_ws line;
  let kind = next () in
  let ring = next () in
  try
    (match ring with
     | "Z" | "ZB" -> handle_with z_io kind
     | "Q" | "QB" -> handle_with q_io kind
     | "F2" -> handle_with (fp_io 2) kind
     | "F3" -> handle_with (fp_io 3) kind
     | "ZH" -> handle_with zh_io kind
     | _ -> failwith "bad ring")
  with Panic -> "P"

let () = run_lines handle
