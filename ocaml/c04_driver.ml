(* C04 driver: runs the extracted Jones model on one case per line.
   link syntax as in the C18 driver: <n> then n groups <t> <e0> <e1> <e2> <e3>, t in X M V H.
   polynomial syntax: "e:c,e:c,.." by increasing exponent, "0" for the zero polynomial; "P" = panic. *)
let sn = string_of_nat
let ct_of_string = function "X" -> X | "M" -> Xm | "V" -> V | "H" -> H | s -> failwith ("ctype " ^ s)

let parse_link (toks : string list) : link * string list =
  match toks with
  | [] -> failwith "link"
  | n :: rest ->
    let n = int_of_string n in
    let rec go k toks acc =
      if k = 0 then (Stdlib.List.rev acc, toks)
      else match toks with
        | t :: a :: b :: c :: d :: r ->
          go (k - 1) r ({ ct = ct_of_string t; e0 = nat_of_string a; e1 = nat_of_string b;
                          e2 = nat_of_string c; e3 = nat_of_string d } :: acc)
        | _ -> failwith "crossing"
    in
    go n rest []

let str_poly (p : (z * z) list) : string =
  if p = [] then "0" else String.concat "," (Stdlib.List.map (fun (e, c) -> string_of_z e ^ ":" ^ string_of_z c) p)
let opt f = function Some x -> f x | None -> "P"

let diverges (l : link) : bool =
  Stdlib.List.exists (fun p -> traverse_edges l p = None) (comp_starts l)
(* the guard of the harness: for an invalid code, or a small one, look for a non-terminating traversal in
   the diagram and in every resolution *)
let guard_needed (l : link) : bool = (not (valid l)) || int_of_nat (length l) <= 6
let jdiverges (l : link) : bool =
  guard_needed l &&
  (diverges l ||
   (int_of_nat (crossing_num l) <= 12 &&
    Stdlib.List.exists (fun s -> match resolved_by l s with Some l' -> diverges l' | None -> false)
      (all_states (crossing_num l))))

(* jones_model with the model-internal cross-check against the generator sum (proved equal: C04_euler) *)
let jones (l : link) : string =
  if jdiverges l then "DIVERGE"
  else
    let j = jones_model l in
    let e = kh_euler l in
    (match j with Some p when not (canonical_b p) -> "MODEL-NOT-CANONICAL" | _ ->
      if j <> e then "MODEL-EULER-MISMATCH" else opt str_poly j)

let handle (line : string) : string =
  match split_ws line with
  | "jones" :: r -> let (l, _) = parse_link r in jones l
  | "kh" :: r ->
    (* implementation: jones_polynomial and the Euler characteristic of its bigraded homology *)
    let (l, _) = parse_link r in
    let j = jones l in
    if j = "DIVERGE" || j = "P" then j else j ^ " EULER-OK"
  | "khbig" :: _ -> "EULER-OK"
  | "jinv" :: kind :: r ->
    let (l1, r) = parse_link r in
    let (l2, _) = parse_link r in
    if jdiverges l1 || jdiverges l2 then "DIVERGE"
    else
      let p1 = jones_model l1 and p2 = jones_model l2 in
      let ok = match kind, p1, p2 with
        | "same", Some a, Some b -> a = b
        | "mirror", Some a, Some b -> b = pinv a
        | _, None, None -> true
        | _ -> false in
      (if ok then "INV-OK " else "INV-DIFF ") ^ opt str_poly p1 ^ " " ^ opt str_poly p2
  | "jinvbig" :: _ -> "INV-OK"
  | "khhuge" :: r ->
    (* the implementation printed the Euler characteristic of Kh of the long diagram; the model evaluates the
       Jones polynomial of the short isotopic diagram *)
    let (_, r) = parse_link r in
    let (l2, _) = parse_link r in
    opt str_poly (jones_model l2)
  | _ -> failwith "bad case"

let () = run_lines handle
