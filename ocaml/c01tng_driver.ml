(* C01 (tangle layer) driver: runs the extracted Model/Tng.v on the case lines of harness/src/bin/c01tng.rs and
   prints exactly what the harness prints for the real Tng / TngComp (formats documented there). *)
module L = Stdlib.List

let ints (ws : string list) : nat list = L.map nat_of_string ws
let str_nats sep (l : nat list) = String.concat sep (L.map string_of_nat l)

let comp_str (c : path) : string = (if c.pclosed then "c" else "a") ^ str_nats "." c.pedges

let comp_display (c : path) : string =
  let s = str_nats "-" c.pedges in
  if c.pclosed then "\xE2\x9A\xAA\xEF\xB8\x8E(" ^ s ^ ")" else "[" ^ s ^ "]"

let tng_display (t : tng) : string =
  match t with
  | [] -> "\xE2\x88\x85"
  | [c] -> comp_display c
  | _ -> "{" ^ String.concat ", " (L.map comp_display t) ^ "}"

let sort_dedup_ints (l : nat list) : int list = L.sort_uniq compare (L.map int_of_nat l)

let state_str (t : tng) : string =
  Printf.sprintf "[%s] n=%s em=%s cl=%s cc=%s chi=%s ep=%s d=%s"
    (String.concat " " (L.map comp_str t)) (string_of_nat (tng_ncomps t)) (string_of_bool01 (tng_is_empty t))
    (string_of_bool01 (tng_is_closed t)) (string_of_bool01 (tng_contains_circle t)) (string_of_nat (tng_euler_num t))
    (String.concat "." (L.map string_of_int (sort_dedup_ints (tng_endpts t)))) (tng_display t)

let cmp_opt_str = function Some c -> string_of_cmp c | None -> "P"
let idx_str = function Some i -> string_of_nat i | None -> "-"

exception Bad

(* `a e..` / `c e..` : None = the constructor panics *)
let parse_comp (s : string) : path option =
  match split_ws s with
  | "a" :: es -> p_arc (ints es)
  | "c" :: es -> p_circ (ints es)
  | _ -> raise Bad

(* None = some constructor panics *)
let parse_comps (s : string) : path list option =
  let parts = L.filter (fun p -> String.trim p <> "") (String.split_on_char ',' s) in
  let rec go acc = function
    | [] -> Some (L.rev acc)
    | p :: r -> (match parse_comp p with Some c -> go (c :: acc) r | None -> None) in
  go [] parts

let parse_crossing (ws : string list) : crossing =
  match ws with
  | [t; a; b; c; d] ->
      let ty = (match t with "X" -> X | "M" -> Xm | "V" -> V | "H" -> H | _ -> raise Bad) in
      { ct = ty; e0 = nat_of_string a; e1 = nat_of_string b; e2 = nat_of_string c; e3 = nat_of_string d }
  | _ -> raise Bad

let parse_link (s : string) : crossing list =
  L.map (fun c -> parse_crossing (split_ws c)) (L.filter (fun p -> String.trim p <> "") (String.split_on_char ',' s))

let one_comp (c : path) : string =
  Printf.sprintf "%s,%s,%s,%s,%s,%s" (comp_str c) (string_of_nat (p_len c)) (string_of_bool01 (p_is_arc c))
    (string_of_bool01 (p_is_circle c))
    (match p_ends c with Some (a, b) -> string_of_nat a ^ "." ^ string_of_nat b | None -> "-")
    (match p_min_edge c with Some m -> string_of_nat m | None -> "P")

exception Stop

let run_script (body : string) : string =
  let state = ref tng_empty and saved = ref tng_empty in
  let out = ref [] in
  let push s = out := s :: !out in
  let stop () = push "P"; raise Stop in
  let need = function Some v -> v | None -> stop () in
  let rest_of op w0 = let t = String.trim op in String.trim (String.sub t (String.length w0) (String.length t - String.length w0)) in
  let run_op (op : string) : unit =
    match split_ws op with
    | [] -> raise Bad
    | "A" :: es ->
        let arc = need (p_arc (ints es)) in
        state := need (append_arc !state arc); push (state_str !state)
    | "N" :: _ ->
        let cs = need (parse_comps (rest_of op "N")) in
        state := need (tng_new cs); push (state_str !state)
    | "K" :: _ ->
        let cs = need (parse_comps (rest_of op "K")) in
        let t = need (tng_new cs) in
        state := need (tng_connect !state t); push (state_str !state)
    | ("R" | "r" as k) :: ws ->
        let x = parse_crossing ws in
        let t = need (tng_from_resolved x) in
        if k = "r" then state := t else state := need (tng_connect !state t);
        push (state_str !state)
    | ["S"] -> let t = !state in state := !saved; saved := t; push (state_str !state)
    | ["J"] -> state := need (tng_connect !state !saved); push (state_str !state)
    | ["D"; i] ->
        let (c, t) = need (tng_remove_at !state (nat_of_string i)) in
        state := t; push (Printf.sprintf "rm=%s %s" (comp_str c) (state_str !state))
    | ["E"; a; b; m] ->
        let a = int_of_string a and b = int_of_string b and m = int_of_string m in
        if m = 0 then raise Bad;
        let f (e : nat) : nat = nat_of_int ((a * int_of_nat e + b) mod m) in
        state := need (tng_convert f !state); push (state_str !state)
    | "Q" :: _ ->
        (match parse_comp (rest_of op "Q") with
         | None -> push "q=P"
         | Some c -> push (Printf.sprintf "q=%s/%s" (string_of_bool01 (tng_contains !state c)) (idx_str (tng_index_of !state c))))
    | ["F"; e] ->
        let e = nat_of_string e in
        push ("f=" ^ idx_str (tng_find_comp (fun c -> p_contains c e) !state))
    | ["G"; i] ->
        (match tng_comp !state (nat_of_string i) with
         | None -> push "g=P"
         | Some c -> push (Printf.sprintf "g=%s,%s" (one_comp c) (comp_display c)))
    | "=" :: _ ->
        (match parse_comps (rest_of op "=") with
         | None -> push "eq=P"
         | Some cs ->
             (match tng_new cs with
              | None -> push "eq=P"
              | Some t -> push (Printf.sprintf "eq=%s cmp=%s" (string_of_bool01 (tng_eqb !state t)) (cmp_opt_str (tng_cmp !state t)))))
    | ["Y"] ->
        push (Printf.sprintf "same=%s cmp=%s" (string_of_bool01 (tng_eqb !state !saved)) (cmp_opt_str (tng_cmp !state !saved)))
    | "Z" :: _ ->
        let l = parse_link (rest_of op "Z") in
        push (if circles_agree l !state then "circ=ok" else "circ=FAIL")
    | _ -> raise Bad in
  (try
     L.iter (fun op -> if String.trim op <> "" then run_op op) (String.split_on_char ';' body)
   with Stop -> () | Bad -> push "BAD-OP");
  String.concat " | " (L.rev !out)

let run_pc (body : string) : string =
  match String.split_on_char ',' body with
  | [a; b] ->
      (match parse_comp a, parse_comp b with
       | Some p, Some q ->
           let conn a b = (match p_connect a b with Some r -> one_comp r | None -> "P") in
           let b01 = string_of_bool01 in
           let has = String.concat "" (L.map (fun e ->
             let e = nat_of_int e in b01 (p_contains p e) ^ b01 (p_contains q e)) [0; 1; 2; 3; 4; 5]) in
           Printf.sprintf "p=%s q=%s able=%s%s pq=%s qp=%s eq=%s%s ne=%s cmp=%s has=%s" (one_comp p) (one_comp q)
             (b01 (p_connectable p q)) (b01 (p_connectable q p)) (conn p q) (conn q p)
             (b01 (unori_eq p q)) (b01 (unori_eq q p)) (b01 (not (unori_eq p q))) (cmp_opt_str (comp_cmp p q)) has
       | _ -> "P")
  | _ -> "BAD-CASE"


(* ---------- cobordisms (Model/TngCob.v) ---------- *)
let tng_raw (t : tng) : string = String.concat " " (L.map comp_str t)
let zopt = function Some v -> string_of_z v | None -> "P"
let nopt = function Some v -> string_of_nat v | None -> "P"

let cc_str (c : cobcomp) : string =
  Printf.sprintf "[%s]>[%s] g=%s d=%s,%s nb=%s chi=%s deg=%s" (tng_raw c.csrc) (tng_raw c.ctgt) (string_of_nat c.cgenus)
    (string_of_nat c.cdx) (string_of_nat c.cdy) (nopt (cc_nbdr c)) (zopt (cc_euler c)) (zopt (cc_deg c))

let cob_str (s : cob) : string =
  Printf.sprintf "{%s} n=%d chi=%s deg=%s nb=%s inv=%s cl=%s" (String.concat " | " (L.map cc_str s)) (L.length s)
    (zopt (cob_euler s)) (zopt (cob_deg s)) (zopt (cob_nbdr s)) (string_of_bool01 (cob_is_invertible s))
    (string_of_bool01 (cob_is_closed s))

(* None = a constructor panics *)
let parse_term (t : string) : cob option =
  match split_ws t with
  | ["c"; g; x; y] -> cob_new [cc_new [] [] (nat_of_string g) (nat_of_string x) (nat_of_string y)]
  | ["s"; ty; a; b; c; d; g; x; y] ->
      let cr = parse_crossing [ty; a; b; c; d] in
      (match sdl_of cr (nat_of_string g) (nat_of_string x) (nat_of_string y) with
       | Some c -> cob_new [c]
       | None -> None)
  | ["i"; ty; a; b; c; d; g; x; y] ->
      let cr = parse_crossing [ty; a; b; c; d] in
      (match tng_from_resolved cr with
       | Some t -> cob_new (L.map (fun p -> cc_new [p] [p] (nat_of_string g) (nat_of_string x) (nat_of_string y)) t)
       | None -> None)
  | _ -> raise Bad

let run_cb (body : string) : string =
  let acc = ref [] and out = ref [] in
  let push s = out := s :: !out in
  (try
     L.iter (fun t ->
       if String.trim t <> "" then begin
         match parse_term t with
         | None -> push "P"; raise Stop
         | Some b ->
             push ("b=" ^ cob_str b);
             (match cob_connect !acc b with
              | None -> push "P"; raise Stop
              | Some a -> acc := a; push ("acc=" ^ cob_str a))
       end) (String.split_on_char ';' body);
     push ("inv=" ^ (match cob_inv !acc with Some (Some i) -> cob_str i | Some None -> "P" | None -> "-"))
   with Stop -> ());
  String.concat " | " (L.rev !out)

let run_cx (body : string) : string =
  match L.filter (fun t -> String.trim t <> "") (String.split_on_char ';' body) with
  | [a; b] ->
      (match parse_term a, parse_term b with
       | Some (ca :: _), Some (cb :: _) ->
           Printf.sprintf "able=%s r=%s" (string_of_bool01 (cc_is_connectable ca cb))
             (match cc_connect ca cb with Some c -> cc_str c | None -> "P")
       | _ -> "P")
  | _ -> "BAD-CASE"

let handle (line : string) : string =
  let line = String.trim line in
  let (kind, body) =
    match String.index_opt line ' ' with
    | Some i -> (String.sub line 0 i, String.sub line (i + 1) (String.length line - i - 1))
    | None -> (line, "") in
  try (match kind with "pc" -> run_pc body | "cb" -> run_cb body | "cx" -> run_cx body | _ -> run_script body)
  with Bad -> "BAD-CASE"

let () = run_lines handle
