(* C01 (tangle layer) driver: runs the extracted Model/Tng.v on the case lines of harness/src/bin/c01tng.rs and
   prints exactly what the harness prints for the real Tng / TngComp (formats documented there). *)
module L = Stdlib.List

let ints (ws : string list) : nat list = L.map nat_of_string ws
let str_nats sep (l : nat list) = String.concat sep (L.map string_of_nat l)

let comp_str (c : path) : string = (if c.pclosed then "c" else "a") ^ str_nats "." c.pedges

let comp_display (c : path) : string =
  let s = str_nats "-" c.pedges in
  if c.pclosed then "\xE2\x9A\xAA\xEF\xB8\x8E(" ^ s ^ ")" else "[" ^ s ^ "]"

let tng_display (t : tng) : string =
  match t with
  | [] -> "\xE2\x88\x85"
  | [c] -> comp_display c
  | _ -> "{" ^ String.concat ", " (L.map comp_display t) ^ "}"

let sort_dedup_ints (l : nat list) : int list = L.sort_uniq compare (L.map int_of_nat l)

let state_str (t : tng) : string =
  Printf.sprintf "[%s] n=%s em=%s cl=%s cc=%s chi=%s ep=%s d=%s"
    (String.concat " " (L.map comp_str t)) (string_of_nat (tng_ncomps t)) (string_of_bool01 (tng_is_empty t))
    (string_of_bool01 (tng_is_closed t)) (string_of_bool01 (tng_contains_circle t)) (string_of_nat (tng_euler_num t))
    (String.concat "." (L.map string_of_int (sort_dedup_ints (tng_endpts t)))) (tng_display t)

let cmp_opt_str = function Some c -> string_of_cmp c | None -> "P"
let idx_str = function Some i -> string_of_nat i | None -> "-"

exception Bad

(* `a e..` / `c e..` : None = the constructor panics *)
let parse_comp (s : string) : path option =
  match split_ws s with
  | "a" :: es -> p_arc (ints es)
  | "c" :: es -> p_circ (ints es)
  | _ -> raise Bad

(* None = some constructor panics *)
let parse_comps (s : string) : path list option =
  let parts = L.filter (fun p -> String.trim p <> "") (String.split_on_char ',' s) in
  let rec go acc = function
    | [] -> Some (L.rev acc)
    | p :: r -> (match parse_comp p with Some c -> go (c :: acc) r | None -> None) in
  go [] parts

let parse_crossing (ws : string list) : crossing =
  match ws with
  | [t; a; b; c; d] ->
      let ty = (match t with "X" -> X | "M" -> Xm | "V" -> V | "H" -> H | _ -> raise Bad) in
      { ct = ty; e0 = nat_of_string a; e1 = nat_of_string b; e2 = nat_of_string c; e3 = nat_of_string d }
  | _ -> raise Bad

let parse_link (s : string) : crossing list =
  L.map (fun c -> parse_crossing (split_ws c)) (L.filter (fun p -> String.trim p <> "") (String.split_on_char ',' s))

let one_comp (c : path) : string =
  Printf.sprintf "%s,%s,%s,%s,%s,%s" (comp_str c) (string_of_nat (p_len c)) (string_of_bool01 (p_is_arc c))
    (string_of_bool01 (p_is_circle c))
    (match p_ends c with Some (a, b) -> string_of_nat a ^ "." ^ string_of_nat b | None -> "-")
    (match p_min_edge c with Some m -> string_of_nat m | None -> "P")

exception Stop

let run_script (body : string) : string =
  let state = ref tng_empty and saved = ref tng_empty in
  let out = ref [] in
  let push s = out := s :: !out in
  let stop () = push "P"; raise Stop in
  let need = function Some v -> v | None -> stop () in
  let rest_of op w0 = let t = String.trim op in String.trim (String.sub t (String.length w0) (String.length t - String.length w0)) in
  let run_op (op : string) : unit =
    match split_ws op with
    | [] -> raise Bad
    | "A" :: es ->
        let arc = need (p_arc (ints es)) in
        state := need (append_arc !state arc); push (state_str !state)
    | "N" :: _ ->
        let cs = need (parse_comps (rest_of op "N")) in
        state := need (tng_new cs); push (state_str !state)
    | "K" :: _ ->
        let cs = need (parse_comps (rest_of op "K")) in
        let t = need (tng_new cs) in
        state := need (tng_connect !state t); push (state_str !state)
    | ("R" | "r" as k) :: ws ->
        let x = parse_crossing ws in
        let t = need (tng_from_resolved x) in
        if k = "r" then state := t else state := need (tng_connect !state t);
        push (state_str !state)
    | ["S"] -> let t = !state in state := !saved; saved := t; push (state_str !state)
    | ["J"] -> state := need (tng_connect !state !saved); push (state_str !state)
    | ["D"; i] ->
        let (c, t) = need (tng_remove_at !state (nat_of_string i)) in
        state := t; push (Printf.sprintf "rm=%s %s" (comp_str c) (state_str !state))
    | ["E"; a; b; m] ->
        let a = int_of_string a and b = int_of_string b and m = int_of_string m in
        if m = 0 then raise Bad;
        let f (e : nat) : nat = nat_of_int ((a * int_of_nat e + b) mod m) in
        state := need (tng_convert f !state); push (state_str !state)
    | "Q" :: _ ->
        (match parse_comp (rest_of op "Q") with
         | None -> push "q=P"
         | Some c -> push (Printf.sprintf "q=%s/%s" (string_of_bool01 (tng_contains !state c)) (idx_str (tng_index_of !state c))))
    | ["F"; e] ->
        let e = nat_of_string e in
        push ("f=" ^ idx_str (tng_find_comp (fun c -> p_contains c e) !state))
    | ["G"; i] ->
        (match tng_comp !state (nat_of_string i) with
         | None -> push "g=P"
         | Some c -> push (Printf.sprintf "g=%s,%s" (one_comp c) (comp_display c)))
    | "=" :: _ ->
        (match parse_comps (rest_of op "=") with
         | None -> push "eq=P"
         | Some cs ->
             (match tng_new cs with
              | None -> push "eq=P"
              | Some t -> push (Printf.sprintf "eq=%s cmp=%s" (string_of_bool01 (tng_eqb !state t)) (cmp_opt_str (tng_cmp !state t)))))
    | ["Y"] ->
        push (Printf.sprintf "same=%s cmp=%s" (string_of_bool01 (tng_eqb !state !saved)) (cmp_opt_str (tng_cmp !state !saved)))
    | "Z" :: _ ->
        let l = parse_link (rest_of op "Z") in
        push (if circles_agree l !state then "circ=ok" else "circ=FAIL")
    | _ -> raise Bad in
  (try
     L.iter (fun op -> if String.trim op <> "" then run_op op) (String.split_on_char ';' body)
   with Stop -> () | Bad -> push "BAD-OP");
  String.concat " | " (L.rev !out)

let run_pc (body : string) : string =
  match String.split_on_char ',' body with
  | [a; b] ->
      (match parse_comp a, parse_comp b with
       | Some p, Some q ->
           let conn a b = (match p_connect a b with Some r -> one_comp r | None -> "P") in
           let b01 = string_of_bool01 in
           let has = String.concat "" (L.map (fun e ->
             let e = nat_of_int e in b01 (p_contains p e) ^ b01 (p_contains q e)) [0; 1; 2; 3; 4; 5]) in
           Printf.sprintf "p=%s q=%s able=%s%s pq=%s qp=%s eq=%s%s ne=%s cmp=%s has=%s" (one_comp p) (one_comp q)
             (b01 (p_connectable p q)) (b01 (p_connectable q p)) (conn p q) (conn q p)
             (b01 (unori_eq p q)) (b01 (unori_eq q p)) (b01 (not (unori_eq p q))) (cmp_opt_str (comp_cmp p q)) has
       | _ -> "P")
  | _ -> "BAD-CASE"


(* ---------- cobordisms (Model/TngCob.v) ---------- *)
let tng_raw (t : tng) : string = String.concat " " (L.map comp_str t)
let zopt = function Some v -> string_of_z v | None -> "P"
let nopt = function Some v -> string_of_nat v | None -> "P"

let cc_str (c : cobcomp) : string =
  Printf.sprintf "[%s]>[%s] g=%s d=%s,%s nb=%s chi=%s deg=%s" (tng_raw c.csrc) (tng_raw c.ctgt) (string_of_nat c.cgenus)
    (string_of_nat c.cdx) (string_of_nat c.cdy) (nopt (cc_nbdr c)) (zopt (cc_euler c)) (zopt (cc_deg c))

let cob_str (s : cob) : string =
  Printf.sprintf "{%s} n=%d chi=%s deg=%s nb=%s inv=%s cl=%s" (String.concat " | " (L.map cc_str s)) (L.length s)
    (zopt (cob_euler s)) (zopt (cob_deg s)) (zopt (cob_nbdr s)) (string_of_bool01 (cob_is_invertible s))
    (string_of_bool01 (cob_is_closed s))

(* None = a constructor panics *)
let parse_term (t : string) : cob option =
  match split_ws t with
  | ["c"; g; x; y] -> cob_new [cc_new [] [] (nat_of_string g) (nat_of_string x) (nat_of_string y)]
  | ["s"; ty; a; b; c; d; g; x; y] ->
      let cr = parse_crossing [ty; a; b; c; d] in
      (match sdl_of cr (nat_of_string g) (nat_of_string x) (nat_of_string y) with
       | Some c -> cob_new [c]
       | None -> None)
  | ["i"; ty; a; b; c; d; g; x; y] ->
      let cr = parse_crossing [ty; a; b; c; d] in
      (match tng_from_resolved cr with
       | Some t -> cob_new (L.map (fun p -> cc_new [p] [p] (nat_of_string g) (nat_of_string x) (nat_of_string y)) t)
       | None -> None)
  | _ -> raise Bad

let run_cb (body : string) : string =
  let acc = ref [] and out = ref [] in
  let push s = out := s :: !out in
  (try
     L.iter (fun t ->
       if String.trim t <> "" then begin
         match parse_term t with
         | None -> push "P"; raise Stop
         | Some b ->
             push ("b=" ^ cob_str b);
             (match cob_connect !acc b with
              | None -> push "P"; raise Stop
              | Some a -> acc := a; push ("acc=" ^ cob_str a))
       end) (String.split_on_char ';' body);
     push ("inv=" ^ (match cob_inv !acc with Some (Some i) -> cob_str i | Some None -> "P" | None -> "-"))
   with Stop -> ());
  String.concat " | " (L.rev !out)

let run_cx (body : string) : string =
  match L.filter (fun t -> String.trim t <> "") (String.split_on_char ';' body) with
  | [a; b] ->
      (match parse_term a, parse_term b with
       | Some (ca :: _), Some (cb :: _) ->
           Printf.sprintf "able=%s r=%s" (string_of_bool01 (cc_is_connectable ca cb))
             (match cc_connect ca cb with Some c -> cc_str c | None -> "P")
       | _ -> "P")
  | _ -> "BAD-CASE"


(* ---------- vertical composition (Model/TngStack.v) ---------- *)
let cc_raw (c : cobcomp) : string =
  Printf.sprintf "[%s]>[%s] g=%s d=%s,%s" (tng_raw c.csrc) (tng_raw c.ctgt) (string_of_nat c.cgenus)
    (string_of_nat c.cdx) (string_of_nat c.cdy)
let cob_raw (s : cob) : string = "{" ^ String.concat " | " (L.map cc_raw s) ^ "}"

let canon_path (c : path) : string =
  let es = L.map int_of_nat c.pedges in
  let rv = L.rev es in
  let rot l k = let rec go a b k = if k = 0 then b @ L.rev a else (match b with x :: r -> go (x :: a) r (k - 1) | [] -> L.rev a) in go [] l k in
  let best = ref es in
  if c.pclosed then
    L.iter (fun base -> L.iteri (fun k _ -> let x = rot base k in if compare x !best < 0 then best := x) base) [es; rv]
  else if compare rv !best < 0 then best := rv;
  (if c.pclosed then "c" else "a") ^ String.concat "." (L.map string_of_int !best)

let canon_cob (s : cob) : string =
  "{" ^ String.concat " | " (L.map (fun c ->
    Printf.sprintf "[%s]>[%s] g=%s d=%s,%s" (String.concat " " (L.map canon_path c.csrc))
      (String.concat " " (L.map canon_path c.ctgt)) (string_of_nat c.cgenus) (string_of_nat c.cdx) (string_of_nat c.cdy)) s) ^ "}"

let lc_str (l : lccob) : string =
  let ts = L.map (fun (c, r) -> Printf.sprintf "%s*%s^%s" (string_of_z r) (canon_cob c) (zopt (cob_deg c))) l in
  let ts = L.sort compare ts in
  Printf.sprintf "(%d)%s" (L.length ts) (String.concat " + " ts)

exception Panic

(* `comps > comps` *)
let sides (s : string) : (path list * path list) =
  match String.index_opt s '>' with
  | None -> raise Bad
  | Some i ->
      let a = String.sub s 0 i and b = String.sub s (i + 1) (String.length s - i - 1) in
      (match parse_comps a, parse_comps b with
       | Some a, Some b -> (a, b)
       | _ -> raise Panic)

let need_p = function Some v -> v | None -> raise Panic

let parse_cc_term (t : string) : cobcomp =
  let t = String.trim t in
  let (head, body) = match String.index_opt t ' ' with
    | Some i -> (String.sub t 0 i, String.sub t (i + 1) (String.length t - i - 1)) | None -> (t, "") in
  match head with
  | "n" ->
      (match String.index_opt body '@' with
       | None -> raise Bad
       | Some i ->
           let st = String.sub body 0 i and gxy = String.sub body (i + 1) (String.length body - i - 1) in
           (match split_ws gxy with
            | [g; x; y] ->
                let (g, x, y) = (try (nat_of_string g, nat_of_string x, nat_of_string y) with _ -> raise Bad) in
                let (a, b) = sides st in
                let src = need_p (tng_new a) in
                let tgt = need_p (tng_new b) in
                cc_new src tgt g x y
            | _ -> raise Bad))
  | "cup" -> need_p (cc_cup (need_p (parse_comp body)))
  | "cap" -> cc_cap (need_p (parse_comp body))
  | "id" -> cc_id (need_p (parse_comp body))
  | "mg" -> (match sides body with ([a; b], [c]) -> need_p (cc_merge a b c) | _ -> raise Bad)
  | "sp" -> (match sides body with ([a], [b; c]) -> need_p (cc_split a b c) | _ -> raise Bad)
  | "sd" -> (match sides body with ([a; b], [c; d]) -> need_p (cc_sdl a b c d) | _ -> raise Bad)
  | _ -> raise Bad

let parse_any_term (t : string) : cob =
  match split_ws t with
  | ("s" | "i" | "c") :: _ -> need_p (parse_term t)
  | _ -> need_p (cob_new [parse_cc_term t])

let parse_layer (s : string) : cob =
  let s = String.trim s in
  let (mode, body) = match String.index_opt s ' ' with
    | Some i -> (String.sub s 0 i, String.sub s (i + 1) (String.length s - i - 1)) | None -> (s, "") in
  let terms = L.filter (fun t -> String.trim t <> "") (String.split_on_char ';' body) in
  (* the harness parses every term before it looks at the mode *)
  let cobs = L.map parse_any_term terms in
  match mode with
  | "K" -> L.fold_left (fun acc c -> need_p (cob_connect acc c)) [] cobs
  | "N" -> need_p (cob_new (L.concat cobs))
  | _ -> raise Bad

let split_ops (body : string) : string list =
  (* split on "//" *)
  let n = String.length body in
  let rec go i start acc =
    if i + 1 >= n then L.rev (String.sub body start (n - start) :: acc)
    else if body.[i] = '/' && body.[i + 1] = '/' then go (i + 2) (i + 2) (String.sub body start (i - start) :: acc)
    else go (i + 1) start acc in
  if n = 0 then [] else go 0 0 []

let run_sk (body : string) : string =
  let acc = ref [] and cur = ref [] and hist = ref [] in
  let acclc : lccob option ref = ref None and curlc : lccob ref = ref [] in
  let out = ref [] in
  let push s = out := s :: !out in
  let b01 = string_of_bool01 in
  let two_ints rest = (match split_ws rest with
    | [h; t] -> (try (z_of_string (string_of_int (int_of_string h)), z_of_string (string_of_int (int_of_string t))) with _ -> raise Bad)
    | _ -> raise Bad) in
  let run_op (op : string) : unit =
    let op = String.trim op in
    let (name, rest) = match String.index_opt op ' ' with
      | Some i -> (String.sub op 0 i, String.sub op (i + 1) (String.length op - i - 1)) | None -> (op, "") in
    match name with
    | "L" -> cur := parse_layer rest; push ("L=" ^ cob_str !cur)
    | "ST" ->
        let st = cob_is_stackable !acc !cur in
        let r = need_p (cob_stack !acc !cur) in
        acc := r; hist := !hist @ [!cur];
        push (Printf.sprintf "st=%s acc=%s" (b01 st) (cob_str !acc))
    | "ID" ->
        let s = need_p (cob_src !cur) and t = need_p (cob_tgt !cur) in
        let ids = need_p (cob_id s) and idt = need_p (cob_id t) in
        let f e = (match e with Some c -> (cob_raw c, b01 (cob_eqb c !cur)) | None -> ("P", "P")) in
        let (s1, q1) = f (cob_stack ids !cur) in
        let (s2, q2) = f (cob_stack !cur idt) in
        push (Printf.sprintf "idl=%s eql=%s idr=%s eqr=%s" s1 q1 s2 q2)
    | "INV" ->
        (match cob_inv !cur with
         | None -> push "inv=-"
         | Some None -> raise Panic
         | Some (Some inv) ->
             let ids = (match cob_src !cur with Some s -> cob_id s | None -> None) in
             let idt = (match cob_tgt !cur with Some s -> cob_id s | None -> None) in
             let f e i = (match e, i with
               | Some c, Some i -> (cob_raw c, b01 (cob_eqb c i))
               | Some c, None -> (cob_raw c, "P")
               | _ -> ("P", "P")) in
             let (s1, q1) = f (cob_stack !cur inv) ids in
             let (s2, q2) = f (cob_stack inv !cur) idt in
             push (Printf.sprintf "inv=%s ci=%s eq=%s ic=%s eq=%s" (cob_raw inv) s1 q1 s2 q2))
    | "CO" ->
        let w = split_ws rest in
        let n = L.length w in
        if n < 3 then raise Bad;
        let b = (match L.hd w with "S" -> BSrc | "T" -> BTgt | _ -> raise Bad) in
        let d = (match L.nth w (n - 1) with "N" -> DNone | "X" -> DX | "Y" -> DY | _ -> raise Bad) in
        let mid = L.filteri (fun i _ -> i >= 1 && i < n - 1) w in
        let c = need_p (parse_comp (String.concat " " mid)) in
        acc := need_p (cob_cap_off !acc b c d);
        push ("co=" ^ cob_str !acc)
    | "SRC" ->
        let f = function Some t -> tng_raw t | None -> "P" in
        push (Printf.sprintf "src=[%s] tgt=[%s]" (f (cob_src !acc)) (f (cob_tgt !acc)))
    | "AS" ->
        (match L.rev !hist with
         | [] -> push "as=-"
         | last :: before ->
             let r = L.fold_left (fun r l -> match r with Some x -> cob_stack l x | None -> None) (Some last) before in
             (match r with
              | Some x -> push (Printf.sprintf "as=%s eq=%s" (cob_raw x) (b01 (cob_eqb x !acc)))
              | None -> push "as=P"))
    | "PE" ->
        let (h, t) = two_ints rest in
        push ("pe=" ^ (match cob_part_eval h t !acc with Some l -> lc_str l | None -> "P"))
    | "LC" ->
        let parts = L.filter (fun t -> String.trim t <> "") (String.split_on_char '|' rest) in
        let terms = L.map (fun t ->
          match String.index_opt t ':' with
          | None -> raise Bad
          | Some i ->
              let r = (try int_of_string (String.trim (String.sub t 0 i)) with _ -> raise Bad) in
              let c = parse_layer (String.sub t (i + 1) (String.length t - i - 1)) in
              (c, z_of_string (string_of_int r))) parts in
        curlc := lc_from_list terms;
        push (Printf.sprintf "lc=%s inv=%s" (lc_str !curlc) (b01 (lc_is_invertible !curlc)))
    | "MUL" ->
        let r = (match !acclc with None -> !curlc | Some a -> need_p (lc_mul !curlc a)) in
        push ("mul=" ^ lc_str r); acclc := Some r
    | "LPE" ->
        let (h, t) = two_ints rest in
        (match !acclc with
         | None -> raise Bad
         | Some a -> let r = need_p (lc_part_eval h t a) in push ("lpe=" ^ lc_str r); acclc := Some r)
    | "LINV" ->
        (match !curlc with
         | [] -> push "linv=-"
         | [(c, r)] ->
             (match lc_inv_first c r with
              | None -> push "linv=-"
              | Some None -> raise Panic
              | Some (Some i) -> push ("linv=" ^ lc_str i))
         | _ -> push "linv=?")
    | _ -> raise Bad in
  (try
     L.iter (fun op -> if String.trim op <> "" then run_op op) (split_ops body)
   with Panic -> push "P" | Bad -> push "BAD-OP");
  String.concat " | " (L.rev !out)

(* ---------- the tangle complex (Model/TngComplex.v) ---------- *)
let key_str (k : tkey) : string =
  String.concat "" (L.map (fun b -> if b then "1" else "0") k.kstate) ^ "/" ^
  String.concat "" (L.map (fun b -> if b then "I" else "X") k.klabel)

let parse_key (s : string) : tkey =
  match String.index_opt s '/' with
  | None -> raise Bad
  | Some i ->
      let a = String.sub s 0 i and b = String.sub s (i + 1) (String.length s - i - 1) in
      let chars str = L.init (String.length str) (String.get str) in
      if not (L.for_all (fun c -> c = '0' || c = '1') (chars a)) || not (L.for_all (fun c -> c = 'X' || c = 'I') (chars b))
      then raise Bad;
      if String.length a > 64 || String.length b > 64 then raise Panic;
      { kstate = L.map (fun c -> c = '1') (chars a); klabel = L.map (fun c -> c = 'I') (chars b) }

let sorted_verts (c : cpx) : vertex list =
  L.sort (fun v w -> compare (key_str v.vkey) (key_str w.vkey)) c.c_verts

let tc_str (c : cpx) : string =
  let verts = L.map (fun v ->
    let ins = L.sort compare (L.map key_str v.vin) in
    let outs = L.sort compare (L.map (fun (l, f) -> (key_str l, lc_str f)) v.vout) in
    Printf.sprintf "%s:[%s] in=%s out=%s" (key_str v.vkey) (tng_raw v.vtng) (String.concat "," ins)
      (String.concat " ~ " (L.map (fun (l, f) -> l ^ ">" ^ f) outs))) (sorted_verts c) in
  Printf.sprintf "dim=%s sh=%s,%s bp=%s nv=%d cd=%s val=%s dd=%s rk=%s :: %s" (string_of_nat (cpx_dim c))
    (string_of_z (fst c.c_shift)) (string_of_z (snd c.c_shift))
    (match c.c_base with Some e -> string_of_nat e | None -> "-") (L.length c.c_verts)
    (string_of_bool01 (cpx_is_completely_delooped c))
    (match cpx_validate c with Some true -> "1" | _ -> "0")
    (if not (cpx_is_completely_delooped c) then "-" else match cpx_dd_check c with Some true -> "1" | Some false -> "0" | None -> "P")
    (String.concat "," (L.map (fun i -> string_of_nat (cpx_rank c i)) (cpx_h_range c)))
    (String.concat " ; " verts)

let choose_loop (c : cpx) (allow_based : bool) : (tkey * nat) option =
  let rec go = function
    | [] -> None
    | v :: r ->
        (match tng_find_comp (fun m -> p_is_circle m && (allow_based || not (contains_base_pt c m))) v.vtng with
         | Some i -> Some (v.vkey, i)
         | None -> go r) in
  go (sorted_verts c)

let inv_edges (c : cpx) : (tkey * tkey) list =
  let es = L.concat_map (fun v ->
    L.filter_map (fun (l, f) -> if lc_is_invertible f then Some (key_str v.vkey, key_str l, v.vkey, l) else None) v.vout)
    c.c_verts in
  L.map (fun (_, _, k, l) -> (k, l)) (L.sort (fun (a, b, _, _) (a', b', _, _) -> compare (a, b) (a', b')) es)

let raw_str (c : cpx) : string =
  if not (cpx_is_completely_delooped c) then "P"
  else
    try
      let parts = L.concat_map (fun i ->
        let vs = L.filter (fun v -> cpx_rank { c with c_verts = [v] } i = nat_of_int 1) (sorted_verts c) in
        L.map (fun v ->
          match cpx_eval_edges c v with
          | None -> raise Panic
          | Some es ->
              let ts = L.filter_map (fun (l, r) -> if string_of_z r = "0" then None else Some (key_str l ^ "=" ^ string_of_z r)) es in
              Printf.sprintf "%s:%s->%s" (string_of_z i) (key_str v.vkey) (String.concat "," (L.sort compare ts))) vs)
        (cpx_h_range c) in
      String.concat ";" parts
    with Panic -> "P"

let run_tc (body : string) : string =
  let cur : cpx option ref = ref None and other : cpx option ref = ref None in
  let out = ref [] in
  let push s = out := s :: !out in
  let zint s = (try z_of_string (string_of_int (int_of_string s)) with _ -> raise Bad) in
  let nint s = (try let i = int_of_string s in if i < 0 then raise Bad else i with _ -> raise Bad) in
  let run_op (op : string) : unit =
    let op = String.trim op in
    let (name, rest) = match String.index_opt op ' ' with
      | Some i -> (String.sub op 0 i, String.sub op (i + 1) (String.length op - i - 1)) | None -> (op, "") in
    let w = split_ws rest in
    match name with
    | "I" ->
        (match w with
         | [h; t; i0; j0; bp] ->
             let h = zint h and t = zint t and i0 = zint i0 and j0 = zint j0 in
             let bp = if bp = "-" then None else Some (nat_of_int (nint bp)) in
             let c = cpx_init h t (i0, j0) bp in
             push ("I=" ^ tc_str c); cur := Some c
         | _ -> raise Bad)
    | "SW" ->
        let t = !cur in cur := !other; other := t;
        push ("sw=" ^ (match !cur with Some c -> tc_str c | None -> "-"))
    | "CO" ->
        (match !cur, !other with
         | Some c, Some o ->
             other := None;
             let r = need_p (cpx_connect c o) in
             cur := Some r; push ("co=" ^ tc_str r)
         | _ -> raise Bad)
    | _ ->
        let c = (match !cur with Some c -> c | None -> raise Bad) in
        let deloop k r =
          let (c', u) = need_p (cpx_deloop c k r) in
          cur := Some c';
          push (Printf.sprintf "dl=%s,%s upd=%s %s" (key_str k) (string_of_nat r) (String.concat "," (L.map key_str u)) (tc_str c')) in
        let eliminate k l =
          let c' = need_p (cpx_eliminate c k l) in
          cur := Some c';
          push (Printf.sprintf "el=%s>%s %s" (key_str k) (key_str l) (tc_str c')) in
        (match name with
         | "X" ->
             let x = parse_crossing w in
             let c' = need_p (cpx_append c x) in
             cur := Some c'; push ("x=" ^ tc_str c')
         | "DL" -> (match choose_loop c (String.trim rest = "1") with None -> push "dl=-" | Some (k, r) -> deloop k r)
         | "DX" -> (match w with [k; r] -> let k = parse_key k in deloop k (nat_of_int (nint r)) | _ -> raise Bad)
         | "DLA" ->
             let b = (String.trim rest = "1") in
             let steps = ref [] in
             let c = ref c in
             (try
                for _ = 1 to 500 do
                  match choose_loop !c b with
                  | None -> raise Exit
                  | Some (k, r) ->
                      (match cpx_deloop !c k r with
                       | None -> push ("dla=" ^ String.concat ";" (L.rev !steps)); raise Panic
                       | Some (c', _) -> c := c'; steps := (key_str k ^ "," ^ string_of_nat r) :: !steps)
                done
              with Exit -> ());
             cur := Some !c;
             push (Printf.sprintf "dla=%s %s" (String.concat ";" (L.rev !steps)) (tc_str !c))
         | "EL" ->
             let n = nint (String.trim rest) in
             (match inv_edges c with
              | [] -> push "el=-"
              | es -> let (k, l) = L.nth es (n mod L.length es) in eliminate k l)
         | "EX" -> (match w with [k; l] -> let k = parse_key k in let l = parse_key l in eliminate k l | _ -> raise Bad)
         | "ELA" ->
             let s = nint (String.trim rest) in
             let steps = ref [] in
             let c = ref c in
             (try
                for i = 0 to 499 do
                  match inv_edges !c with
                  | [] -> raise Exit
                  | es ->
                      let (k, l) = L.nth es ((s + i) mod L.length es) in
                      (match cpx_eliminate !c k l with
                       | None -> push ("ela=" ^ String.concat ";" (L.rev !steps)); raise Panic
                       | Some c' -> c := c'; steps := (key_str k ^ ">" ^ key_str l) :: !steps)
                done
              with Exit -> ());
             cur := Some !c;
             push (Printf.sprintf "ela=%s %s" (String.concat ";" (L.rev !steps)) (tc_str !c))
         | "RV" ->
             (match w with
              | [k] ->
                  let k = parse_key k in
                  let (vs, _) = need_p (remove_vertex c.c_verts k) in
                  let c' = set_verts c vs in
                  cur := Some c'; push ("rv=" ^ tc_str c')
              | _ -> raise Bad)
         | "SH" ->
             (match w with
              | [i; j] -> let c' = { c with c_shift = (zint i, zint j) } in cur := Some c'; push ("sh=" ^ tc_str c')
              | _ -> raise Bad)
         | "EV" ->
             let parts = L.concat_map (fun v ->
               let outs = L.sort (fun (a, _) (b, _) -> compare (key_str a) (key_str b)) v.vout in
               L.map (fun (l, f) -> Printf.sprintf "%s>%s=%s" (key_str v.vkey) (key_str l) (zopt (lc_eval c.c_h c.c_t f))) outs)
               (sorted_verts c) in
             push ("ev=" ^ String.concat ";" parts)
         | "RAW" -> push ("raw=" ^ raw_str c)
         | _ -> raise Bad) in
  (try
     L.iter (fun op -> if String.trim op <> "" then run_op op) (split_ops body)
   with Panic -> push "P" | Bad -> push "BAD-OP");
  String.concat " | " (L.rev !out)

let handle (line : string) : string =
  let line = String.trim line in
  let (kind, body) =
    match String.index_opt line ' ' with
    | Some i -> (String.sub line 0 i, String.sub line (i + 1) (String.length line - i - 1))
    | None -> (line, "") in
  try (match kind with "pc" -> run_pc body | "cb" -> run_cb body | "cx" -> run_cx body | "sk" -> run_sk body | "tc" | "tm" -> run_tc body | _ -> run_script body)
  with Bad -> "BAD-CASE"

let () = run_lines handle
