(* C06 driver: for `cyc` cases, Lee's canonical chains are built on the cube complex (the definition)
   and checked to be cycles; for `sso` cases the definition-level oracle `ss_spec` (Model/KhSs.v: cube
   complex around degree 0, homology coordinates from the verified homology calculator, divisibility of
   Lee's class) gives the value of the s-type invariant; the other case kinds are relations evaluated on
   the implementation's values by the check module (the model echoes REL). *)
(*INCLUDE kh_common.ml*)
let handle (line : string) : string =
  match String.split_on_char ';' line with
  | head :: ls :: _ ->
    (match split_ws head with
     | ["cyc"; signs] ->
        let l = parse_link ls in
        if Stdlib.List.length l > 7 then "SKIP" else
        let sg = if signs = "0" then [] else Stdlib.List.init (String.length signs) (fun i -> signs.[i] = '+') in
        if kh_crossing_signs l <> Some sg then "SIGNS-DIFFER" else
        let segs = Stdlib.List.concat_map (fun h ->
          Stdlib.List.map (fun red ->
            match lee_check l sg (z_of_string (string_of_int h)) red with
            | None -> Printf.sprintf "h=%d r=%d MODEL-NONE" h (if red then 1 else 0)
            | Some ((n, cyc), nz) ->
                Printf.sprintf "h=%d r=%d n=%d cyc=%d nz=%d" h (if red then 1 else 0) (int_of_nat n)
                  (if cyc then 1 else 0) (if nz then 1 else 0)) [false; true]) [0; 1; 2; 3] in
        String.concat " ; " segs
     | ["sso"; c; red; bound] ->
        let l = parse_link ls in
        let red = (red = "1") in
        (match ss_dims l red with
         | None -> "NONE"
         | Some ((a, b), d) ->
            if max (int_of_nat a) (max (int_of_nat b) (int_of_nat d)) > int_of_string bound then "SKIP" else
            (match ss_spec l (z_of_string c) red with
             | None -> "NONE"
             | Some v -> string_of_z v))
     | _ -> "REL")
  | _ -> failwith "bad case"

let () = run_lines handle
