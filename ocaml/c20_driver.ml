(* C20 driver: runs the extracted CLI / table model (Model/Cli.v, Model/Table.v) on one case per line.

   case line (space separated K=V fields, every V percent-escaped):
     cmd=<kh|ckh> L=<link token> T=<-|:value> C=<-|:value> M=<0|1> R=<0|1> F=<argv form, ignored>
     LS=<ok|inv>                      link status found by the harness (own PD parser / Link::load)
     D=<decision>                     the harness' own re-implementation of the dispatch (see desc below)
     LIB=<-|P|B;..|S;..|G;..>         what the library API returned for those parameters:
                                      B / G = bigraded grid  "i,j,rank,tor,tor..;..",  S = sequence "i,rank,tor..;.."
   output line: the expected result line of the real binary
     exit=<code> kind=<table|error:<kind>> out=<escaped stdout> [ovf=1] [cls=<g|u> fb=<ok|no>]
   ovf=1: constants beyond 32 bits (Cli.overflow_prone), a panic/table difference between two processes is legitimate;
   cls/fb (ckh tables only): q-graded parameters or not, and the verdict of Table.check_ckh_text on the text the
   binary printed (field RAW=:<escaped stdout>)
   or "MISMATCH model=<decision> harness=<decision>" when the harness' dispatch differs from the model's
   (then the library cells were computed for the wrong parameters and nothing can be compared). *)

let rec pos_of_int i = if i = 1 then XH else if i land 1 = 1 then XI (pos_of_int (i lsr 1)) else XO (pos_of_int (i lsr 1))
let n_of_int i = if i <= 0 then N0 else Npos (pos_of_int i)
let rec int_of_pos = function XH -> 1 | XO p -> 2 * int_of_pos p | XI p -> 2 * int_of_pos p + 1
let int_of_n = function N0 -> 0 | Npos p -> int_of_pos p

(* ---- percent escaping and UTF-8 ---- *)
let unescape (s : string) : string =
  let b = Buffer.create (String.length s) in
  let i = ref 0 in
  while !i < String.length s do
    if s.[!i] = '%' then begin
      Buffer.add_char b (Char.chr (int_of_string ("0x" ^ String.sub s (!i + 1) 2)));
      i := !i + 3
    end else begin Buffer.add_char b s.[!i]; incr i end
  done;
  Buffer.contents b

let escape_with (keep : char -> bool) (s : string) : string =
  let b = Buffer.create (String.length s) in
  String.iter (fun c -> if keep c then Buffer.add_char b c else Buffer.add_string b (Printf.sprintf "%%%02X" (Char.code c))) s;
  Buffer.contents b
let keep_text c = let k = Char.code c in k >= 33 && k <= 126 && c <> '%'
let escape_text = escape_with keep_text

let decode_utf8 (s : string) : int list =
  let n = String.length s in
  let rec go i acc =
    if i >= n then Stdlib.List.rev acc
    else
      let c = Char.code s.[i] in
      let cont k = Char.code s.[i + k] land 0x3F in
      if c < 0x80 then go (i + 1) (c :: acc)
      else if c < 0xE0 then go (i + 2) ((((c land 0x1F) lsl 6) lor cont 1) :: acc)
      else if c < 0xF0 then go (i + 3) ((((c land 0x0F) lsl 12) lor (cont 1 lsl 6) lor cont 2) :: acc)
      else go (i + 4) ((((c land 0x07) lsl 18) lor (cont 1 lsl 12) lor (cont 2 lsl 6) lor cont 3) :: acc)
  in go 0 []
let encode_utf8 (cs : int list) : string =
  let b = Buffer.create 64 in
  Stdlib.List.iter (fun c ->
    if c < 0x80 then Buffer.add_char b (Char.chr c)
    else if c < 0x800 then begin
      Buffer.add_char b (Char.chr (0xC0 lor (c lsr 6))); Buffer.add_char b (Char.chr (0x80 lor (c land 0x3F))) end
    else if c < 0x10000 then begin
      Buffer.add_char b (Char.chr (0xE0 lor (c lsr 12))); Buffer.add_char b (Char.chr (0x80 lor ((c lsr 6) land 0x3F)));
      Buffer.add_char b (Char.chr (0x80 lor (c land 0x3F))) end
    else begin
      Buffer.add_char b (Char.chr (0xF0 lor (c lsr 18))); Buffer.add_char b (Char.chr (0x80 lor ((c lsr 12) land 0x3F)));
      Buffer.add_char b (Char.chr (0x80 lor ((c lsr 6) land 0x3F))); Buffer.add_char b (Char.chr (0x80 lor (c land 0x3F))) end) cs;
  Buffer.contents b

let str_of_field (v : string) : str = Stdlib.List.map n_of_int (decode_utf8 (unescape v))
let text_of_str (s : str) : string = encode_utf8 (Stdlib.List.map int_of_n s)

(* ---- decision description (same format as harness/src/bin/c20.rs) ---- *)
let base_name = function BZ -> "Z" | BQ -> "Q" | BF2 -> "F2" | BF3 -> "F3"
let ring_name (Ring (b, v)) =
  base_name b ^ (match v with PV_None -> "" | PV_H -> "[H]" | PV_T -> "[T]" | PV_HT -> "[HT]")
let cval_name = function
  | VInt z -> "i." ^ string_of_z z
  | VRat (n, d) -> "r." ^ string_of_z n ^ "/" ^ string_of_z d
  | VMono (a, b) -> "m." ^ string_of_n a ^ "." ^ string_of_n b
let err_name = function
  | EClap -> "clap" | EUnsupported -> "unsupported" | EFeature -> "feature" | EParse -> "parse"
  | EGuardReduced -> "guard-reduced" | ELink -> "link" | EPanic -> "panic"
let disp_name = function DBigraded -> "B" | DSeq -> "S" | DGrid -> "G"
let decision_name = function
  | DError e -> "err:" ^ err_name e
  | DCompute p ->
      Printf.sprintf "run:%s:%s:%s:%s:%s" (ring_name p.p_ring) (cval_name p.p_h) (cval_name p.p_t)
        (if p.p_reduced then "1" else "0") (disp_name p.p_display)

(* ---- the library result carried by the case line ---- *)
type lib = LNone | LPanic | LB of grid2 | LS of grid1 | LG of grid2
let split_nonempty c s = Stdlib.List.filter (fun t -> t <> "") (String.split_on_char c s)
let summand_of rank tors = { s_rank = n_of_string rank; s_tors = Stdlib.List.map str_of_field tors }
let entry2 (e : string) =
  match String.split_on_char ',' e with
  | i :: j :: rank :: tors -> ((z_of_string i, z_of_string j), summand_of rank tors)
  | _ -> failwith ("bad grid entry " ^ e)
let entry1 (e : string) =
  match String.split_on_char ',' e with
  | i :: rank :: tors -> (z_of_string i, summand_of rank tors)
  | _ -> failwith ("bad seq entry " ^ e)
let parse_lib (v : string) : lib =
  if v = "-" then LNone else if v = "P" then LPanic
  else match String.split_on_char ';' v with
    | "B" :: es -> LB (Stdlib.List.map entry2 (Stdlib.List.filter (fun t -> t <> "") es))
    | "G" :: es -> LG (Stdlib.List.map entry2 (Stdlib.List.filter (fun t -> t <> "") es))
    | "S" :: es -> LS (Stdlib.List.map entry1 (Stdlib.List.filter (fun t -> t <> "") es))
    | _ -> failwith ("bad LIB " ^ v)

let field (fs : (string * string) list) k =
  try Stdlib.List.assoc k fs with Not_found -> failwith ("missing field " ^ k)
let opt_field v = if v = "-" then None else Some (str_of_field (String.sub v 1 (String.length v - 1)))

let handle (line : string) : string =
  let fs = Stdlib.List.map (fun t ->
      match String.index_opt t '=' with
      | Some i -> (String.sub t 0 i, String.sub t (i + 1) (String.length t - i - 1))
      | None -> failwith ("bad field " ^ t)) (split_ws line) in
  let cmd = match field fs "cmd" with "kh" -> Kh | "ckh" -> Ckh | s -> failwith ("bad cmd " ^ s) in
  let t_arg = opt_field (field fs "T") and c_arg = opt_field (field fs "C") in
  let mirror = field fs "M" = "1" and reduced = field fs "R" = "1" in
  let link = match field fs "LS" with "ok" -> LOk | "inv" -> LInvalid | s -> failwith ("bad LS " ^ s) in
  let lib = parse_lib (field fs "LIB") in
  let harness_dec = field fs "D" in
  (* the model's own decision *)
  let model_dec =
    match (match t_arg with None -> Some TZ | Some s -> parse_ctype s) with
    | None -> "err:clap"
    | Some ty -> decision_name (decide cmd ty (match c_arg with None -> s_0 | Some s -> s) reduced) in
  if model_dec <> harness_dec then Printf.sprintf "MISMATCH model=%s harness=%s" model_dec harness_dec
  else begin
    let orc = {
      lib_kh_seq = (fun _ _ -> match lib with LS g -> Some g | _ -> None);
      lib_kh_bigraded = (fun _ _ -> match lib with LB g -> Some g | _ -> None);
      lib_ckh = (fun _ _ -> match lib with LG g -> Some g | _ -> None) } in
    let o = run cmd t_arg c_arg mirror reduced link orc in
    let code = string_of_n (exit_code o) in
    let c = (match c_arg with None -> s_0 | Some s -> s) in
    let dec = (match (match t_arg with None -> Some TZ | Some s -> parse_ctype s) with
               | Some ty -> Some (decide cmd ty c reduced) | None -> None) in
    (* i64 arithmetic on constants beyond 32 bits may or may not overflow, depending on the process *)
    let ovf = (match dec with Some (DCompute p) when overflow_prone p -> " ovf=1" | _ -> "") in
    match o with
    | OError e -> Printf.sprintf "exit=%s kind=error:%s out=%s" code (err_name e) ovf
    | OTable s ->
        (* ckh only: when the exact text differs the check falls back on the certificate check *)
        let fb =
          match cmd, lib, (try Some (Stdlib.List.assoc "RAW" fs) with Not_found -> None), dec with
          | Ckh, LG g, Some raw, Some (DCompute p) ->
              let text = str_of_field (String.sub raw 1 (String.length raw - 1)) in
              let graded = ckh_graded c p in
              Printf.sprintf " cls=%s fb=%s" (if graded then "g" else "u")
                (if check_ckh_text (ring_symbol p.p_ring) graded g text then "ok" else "no")
          | _ -> "" in
        Printf.sprintf "exit=%s kind=table out=%s%s%s" code (escape_text (text_of_str s)) ovf fb
  end

let () = run_lines handle
