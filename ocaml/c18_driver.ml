(* C18 driver: runs the extracted Link / Braid model on one case per line.
   link syntax in a case:  <n> then n groups  <t> <e0> <e1> <e2> <e3>   with t in X M(=Xm) V H
   output syntax: crossings "X[1,4,2,5];M[..]" ("-" when empty), paths "C[1,2,3];A[4,5]" (C circle, A arc),
   signs "+-+" ("-" when empty), a panic of the real code is "P", a non-terminating traversal "DIVERGE". *)
let ios = string_of_int
let sn = string_of_nat
let ct_of_string = function "X" -> X | "M" -> Xm | "V" -> V | "H" -> H | s -> failwith ("ctype " ^ s)
let string_of_ct = function X -> "X" | Xm -> "M" | V -> "V" | H -> "H"

let rec take k l = if k = 0 then ([], l) else match l with x :: r -> let (a, b) = take (k - 1) r in (x :: a, b) | [] -> failwith "take"

let parse_link (toks : string list) : link * string list =
  match toks with
  | [] -> failwith "link"
  | n :: rest ->
    let n = int_of_string n in
    let rec go k toks acc =
      if k = 0 then (Stdlib.List.rev acc, toks)
      else match toks with
        | t :: a :: b :: c :: d :: r ->
          go (k - 1) r ({ ct = ct_of_string t; e0 = nat_of_string a; e1 = nat_of_string b;
                          e2 = nat_of_string c; e3 = nat_of_string d } :: acc)
        | _ -> failwith "crossing"
    in
    go n rest []

let join sep f l = String.concat sep (Stdlib.List.map f l)
let nonempty s = if s = "" then "-" else s
let str_cross c = string_of_ct c.ct ^ "[" ^ join "," sn [c.e0; c.e1; c.e2; c.e3] ^ "]"
let str_link (l : link) = nonempty (join ";" str_cross l)
let str_path p = (if p.pclosed then "C[" else "A[") ^ join "," sn p.pedges ^ "]"
let str_paths ps = nonempty (join ";" str_path ps)
let str_sign = function Pos -> "+" | Neg -> "-"
let str_signs sg = nonempty (join "" str_sign sg)
let str_bits bs = nonempty (join "" string_of_bool01 bs)
let opt f = function Some x -> f x | None -> "P"
let bits_of_str s = if s = "-" then [] else Stdlib.List.init (String.length s) (fun i -> s.[i] = '1')

(* does some traversal that components / crossing_signs may start run forever? *)
let diverges (l : link) : bool =
  Stdlib.List.exists (fun p -> traverse_edges l p = None) (comp_starts l)

let sorted_labels (l : link) : string =
  let xs = Stdlib.List.sort_uniq compare (Stdlib.List.map int_of_nat (edge_labels l)) in
  nonempty (join "," ios xs)

let obs (l : link) : string =
  if diverges l then "DIVERGE"
  else begin
    let comps = components l in
    let signs = crossing_signs l in
    let seif =
      match ori_pres_state l with
      | None -> "P"
      | Some s ->
        (match resolved_by l s with
         | None -> "P"
         | Some l' -> if diverges l' then "DIVERGE" else opt str_paths (components l'))
    in
    Printf.sprintf "cn=%s comps=%s knot=%s signs=%s pn=%s w=%s ops=%s seif=%s first=%s labels=%s valid=%s"
      (sn (crossing_num l)) (opt str_paths comps) (opt string_of_bool01 (is_knot l)) (opt str_signs signs)
      (opt (fun (p, n) -> sn p ^ "," ^ sn n) (signed_crossing_nums l)) (opt string_of_z (writhe l))
      (opt str_bits (ori_pres_state l)) seif
      (match first_edge l with Some e -> sn e | None -> "-") (sorted_labels l)
      (string_of_bool01 (valid l))
  end

(* summary used by the invariance cases *)
let comp_sets (l : link) : string =
  match components l with
  | None -> "P"
  | Some cs ->
    let one p = (if p.pclosed then "C" else "A") ^ join "," ios (Stdlib.List.sort compare (Stdlib.List.map int_of_nat p.pedges)) in
    nonempty (String.concat ";" (Stdlib.List.sort compare (Stdlib.List.map one cs)))
let comp_shape (l : link) : string =
  match components l with
  | None -> "P"
  | Some cs -> nonempty (join ";" (fun p -> (if p.pclosed then "C" else "A") ^ sn (length p.pedges)) cs)

let inv (kind : string) (l1 : link) (l2 : link) : string =
  if diverges l1 || diverges l2 then "DIVERGE"
  else if kind = "mirror" && mirror l1 <> l2 then "MIRROR-DATA-DIFFER"
  else begin
    let s1 = crossing_signs l1 and s2 = crossing_signs l2 in
    let w1 = writhe l1 and w2 = writhe l2 in
    let pn1 = signed_crossing_nums l1 and pn2 = signed_crossing_nums l2 in
    let ok =
      match kind with
      | "relab" -> s1 = s2 && comp_shape l1 = comp_shape l2
      | "reord" -> w1 = w2 && pn1 = pn2 && comp_sets l1 = comp_sets l2
      | "mirror" ->
        (match s1, s2, pn1, pn2 with
         | Some a, Some b, Some (p1, n1), Some (p2, n2) ->
           b = Stdlib.List.map neg_sign a && p1 = n2 && n1 = p2 && components l1 = components l2
         | None, None, None, None -> components l1 = components l2
         | _ -> false)
      | _ -> failwith "inv kind"
    in
    Printf.sprintf "%s w=%s/%s signs=%s/%s" (if ok then "INV-OK" else "INV-DIFF")
      (opt string_of_z w1) (opt string_of_z w2) (opt str_signs s1) (opt str_signs s2)
  end

let str_code code = nonempty (join ";" (fun (((a, b), c), d) -> "[" ^ join "," sn [a; b; c; d] ^ "]") code)

let braid (strands : nat) (w : z list) : string =
  match closure_code strands w with
  | None -> "P"
  | Some code ->
    (match closure strands w with
     | None -> "MODEL-INCONSISTENT"
     | Some l ->
       (* specification values: crossings = letters, writhe = exponent sum, components = cycles of the
          braid permutation; the model's own observers must agree with them *)
       let ncr = length w and es = exponent_sum w and cyc = count_cycles (braid_perm strands w) in
       let ok_model =
         crossing_num l = ncr && writhe l = Some es
         && (match components l with Some cs -> length cs = cyc | None -> false)
         && valid l in
       Printf.sprintf "pd=%s ncr=%s w=%s nc=%s%s" (str_code code) (sn ncr) (string_of_z es) (sn cyc)
         (if ok_model then "" else " MODEL-SPEC-MISMATCH"))

let handle (line : string) : string =
  match split_ws line with
  | "obs" :: r -> let (l, _) = parse_link r in obs l
  | "trav" :: r ->
    let (l, r) = parse_link r in
    (match r with
     | [i; j] ->
       (match traverse_edges l (nat_of_string i, nat_of_string j) with
        | None -> "DIVERGE"
        | Some ps -> join "" (fun (i, j) -> "(" ^ sn i ^ "," ^ sn j ^ ")") ps)
     | _ -> failwith "trav")
  | "next" :: r ->
    let (l, r) = parse_link r in
    (match r with
     | [i; j] ->
       (match pass_edge l (nat_of_string i, nat_of_string j) with
        | None -> "none"
        | Some (i, j) -> "(" ^ sn i ^ "," ^ sn j ^ ")")
     | _ -> failwith "next")
  | "resby" :: r ->
    let (l, r) = parse_link r in
    (match r with
     | [bits] ->
       (match resolved_by l (bits_of_str bits) with
        | None -> "P"
        | Some l' ->
          str_link l' ^ " cn=" ^ sn (crossing_num l') ^ " comps=" ^
          (if diverges l' then "DIVERGE" else opt str_paths (components l')))
     | _ -> failwith "resby")
  | "resat" :: r ->
    let (l, r) = parse_link r in
    (match r with
     | [i; b] -> opt str_link (resolved_at l (nat_of_string i) (bool_of_string01 b))
     | _ -> failwith "resat")
  | "resseq" :: r ->
    (* k successive resolved_at(i, b); after the input and after every step: the data, the number of unresolved
       crossings and crossing_at(j) for j = 0..cn (LinkAt.crossing_at; the last one is out of range) *)
    let (l, r) = parse_link r in
    let state l =
      let cn = int_of_nat (crossing_num l) in
      str_link l ^ "|cn=" ^ ios cn ^ "|lib=" ^ ios cn ^ "|at=" ^
      String.concat "/" (Stdlib.List.init (cn + 1) (fun j -> opt str_cross (crossing_at l (nat_of_int j)))) in
    (match r with
     | _k :: steps ->
       let rec go l steps acc =
         match steps with
         | [] -> Stdlib.List.rev acc
         | i :: b :: rest ->
           let (i, b) = (nat_of_string i, bool_of_string01 b) in
           let a = resolved_at l i b in
           (* the other call form (clone, crossing_at_mut(i).resolve(b)); equal by C18_resolved_at_forms *)
           if a <> resolve_via_index l i b then go l rest ("MODEL-FORMS-DIFFER" :: acc)
           else (match a with
                 | Some l' -> go l' rest (state l' :: acc)
                 | None -> go l rest ("P" :: acc))
         | _ -> failwith "resseq steps"
       in
       String.concat " " (go l steps [state l])
     | [] -> failwith "resseq")
  | "mirror" :: r -> let (l, _) = parse_link r in str_link (mirror l)
  | "inv" :: kind :: r ->
    let (l1, r) = parse_link r in
    let (l2, _) = parse_link r in
    inv kind l1 l2
  | "braid" :: s :: w -> braid (nat_of_string s) (Stdlib.List.map z_of_string w)
  | "bgrp" :: s1 :: n1 :: r ->
    (* inverse, product (None = the assert_eq! on the strand counts) and the closure of w1 * w1^-1 *)
    let s1 = nat_of_string s1 and n1 = int_of_string n1 in
    let rec take k l acc = if k = 0 then (Stdlib.List.rev acc, l) else (match l with x :: t -> take (k - 1) t (x :: acc) | [] -> failwith "bgrp") in
    let (w1s, r) = take n1 r [] in
    (match r with
     | s2 :: w2s ->
       let s2 = nat_of_string s2 in
       let w1 = Stdlib.List.map z_of_string w1s and w2 = Stdlib.List.map z_of_string w2s in
       let word w = if w = [] then "-" else String.concat "," (Stdlib.List.map string_of_z w) in
       let inv = braid_inv w1 in
       let prod = (match braid_mul s1 w1 s2 w2 with Some (s, w) -> sn s ^ ":" ^ word w | None -> "P") in
       let cancel = (match braid_mul s1 w1 s1 inv with Some (s, w) -> braid s w | None -> "P") in
       Printf.sprintf "inv=%s:%s len=%s triv=%d prod=%s cancel=%s" (sn s1) (word inv) (sn (braid_len inv))
         (if braid_is_triv w1 then 1 else 0) prod cancel
     | [] -> failwith "bgrp")
  | "braidfrom" :: w ->
    let w = Stdlib.List.map z_of_string w in
    braid (strands_of_word w) w
  | _ -> failwith "bad case"

let () = run_lines handle
