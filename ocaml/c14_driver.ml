(* C14 driver: runs the extracted scalar-type models (Ints, Ratio, Fp, QuadInt) on one case per line.
   Output conventions: a panic (model None) is "P"; Option::None of the real API is "N";
   a rational is "n/d"; a quadratic integer is "a,b"; an operand that does not fit the integer type of
   the case makes the whole case "UNREPRESENTABLE" (the harness prints the same). *)
let width_of = function
  | "i32" -> i32 | "i64" -> i64 | "i128" -> i128 | "big" -> Big
  | s -> failwith ("bad type " ^ s)

exception Unrep
let zin w s = let x = z_of_string s in if fitsb w x then x else raise Unrep

let sz = string_of_z
let so f = function Some x -> f x | None -> "P"
let soo f = function Some (Some x) -> f x | Some None -> "N" | None -> "P"
let sr (r : ratio) = sz r.numer ^ "/" ^ sz r.denom
let sq ((a, b) : quad) = sz a ^ "," ^ sz b
let sb b = if b then "1" else "0"

let int_bin w op a b =
  match op with
  | "add" -> iadd w a b | "sub" -> isub w a b | "mul" -> imul w a b
  | "div" -> iquot w a b | "rem" -> irem w a b | "gcd" -> igcd w a b | "lcm" -> ilcm w a b
  | _ -> failwith "bad int op"

let ratio_bin w op x y =
  match op with
  | "add" -> rt_add w x y | "sub" -> rt_sub w x y | "mul" -> rt_mul w x y | "div" -> rt_div w x y
  | _ -> failwith "bad ratio op"

(* ratio history ops *)
let rec parse_ops w (t : string list) : rt_op list =
  match t with
  | [] -> []
  | "add" :: n :: d :: r -> OAdd (zin w n, zin w d) :: parse_ops w r
  | "sub" :: n :: d :: r -> OSub (zin w n, zin w d) :: parse_ops w r
  | "mul" :: n :: d :: r -> OMul (zin w n, zin w d) :: parse_ops w r
  | "div" :: n :: d :: r -> ODiv (zin w n, zin w d) :: parse_ops w r
  | "neg" :: r -> ONeg :: parse_ops w r
  | "inv" :: r -> OInv :: parse_ops w r
  | _ -> failwith "bad history op"

let quad_d s = z_of_string s

let handle_inner (line : string) : string =
  match split_ws line with
  (* ---- integers ---- *)
  | ["int"; t; op; a; b] -> let w = width_of t in so sz (int_bin w op (zin w a) (zin w b))
  | ["int1"; t; op; a] ->
      let w = width_of t in
      let a = zin w a in
      (match op with
       | "neg" -> so sz (ineg w a)
       | "unit" -> so sb (iis_unit w a)
       | "nunit" -> sz (inormalizing_unit a)
       | "inv" -> soo sz (iinv w a)
       | "zero" -> sb (iis_zero a) ^ sb (iis_one a)
       | _ -> failwith "bad int1 op")
  (* ---- rationals ---- *)
  | ["rnew"; t; n; d] -> let w = width_of t in so sr (rt_new w (zin w n) (zin w d))
  | ["rfrom"; t; a] ->
      let w = width_of t in
      let r = rt_from_int (zin w a) in
      sr r ^ " " ^ sr rt_zero ^ " " ^ sr rt_one ^ " " ^ sb (rt_is_zero r) ^ sb (rt_is_one r)
  | ["rbin"; t; op; n1; d1; n2; d2] ->
      let w = width_of t in
      let x = rt_new w (zin w n1) (zin w d1) and y = rt_new w (zin w n2) (zin w d2) in
      (match x, y with
       | Some x', Some y' -> sr x' ^ " " ^ sr y' ^ " " ^ so sr (ratio_bin w op x' y')
       | _ -> so sr x ^ " " ^ so sr y ^ " -")
  | ["run"; t; op; n; d] ->
      let w = width_of t in
      (match rt_new w (zin w n) (zin w d) with
       | None -> "P -"
       | Some x ->
         sr x ^ " " ^
         (match op with
          | "neg" -> so sr (rt_neg w x)
          | "inv" -> soo sr (rt_inv w x)
          | "abs" -> so sr (rt_abs w x)
          | "pred" -> sb (rt_is_zero x) ^ sb (rt_is_one x) ^ sb (rt_is_int x)
          | _ -> failwith "bad run op"))
  | ["rcmp"; t; n1; d1; n2; d2] ->
      let w = width_of t in
      let x = rt_new w (zin w n1) (zin w d1) and y = rt_new w (zin w n2) (zin w d2) in
      (match x, y with
       | Some x', Some y' ->
         sr x' ^ " " ^ sr y' ^ " " ^ so string_of_cmp (rt_cmp w x' y') ^ " " ^ sb (rt_eqb x' y')
       | _ -> so sr x ^ " " ^ so sr y ^ " - -")
  | "rhist" :: t :: n :: d :: rest ->
      let w = width_of t in
      (match rt_new w (zin w n) (zin w d) with
       | None -> "P"
       | Some x0 ->
         let ops = parse_ops w rest in
         let rec go x ops acc =
           match ops with
           | [] -> Stdlib.List.rev acc
           | o :: r -> go (rt_run_step w x o) r (so sr (rt_step w x o) :: acc)
         in
         String.concat " " (sr x0 :: go x0 ops []))
  (* ---- F_p (operands are arbitrary i32 values, passed through FF::new) ---- *)
  | ["ff"; p; op; a; b] ->
      let p = z_of_string p in
      let a = zin i32 a and b = zin i32 b in
      (match ff_new p a, ff_new p b with
       | Some x, Some y ->
         sz x ^ " " ^ sz y ^ " " ^
         so sz (match op with
                | "add" -> ff_add p x y | "sub" -> ff_sub p x y | "mul" -> ff_mul p x y | "div" -> ff_div p x y
                | _ -> failwith "bad ff op")
         ^ " " ^ sb (ff_eqb x y)
       | _ -> "P")
  | ["ff1"; p; op; a] ->
      let p = z_of_string p in
      let a = zin i32 a in
      (match ff_new p a with
       | None -> "P"
       | Some x ->
         sz x ^ " " ^
         (match op with
          | "neg" -> so sz (ff_neg p x)
          | "inv" -> soo sz (ff_inv p x)
          | "pred" -> sb (ff_is_zero x) ^ sb (ff_is_one x)
          | _ -> failwith "bad ff1 op"))
  (* ---- F_2 ---- *)
  | ["f2"; op; a; b] ->
      let a = bool_of_string01 a and b = bool_of_string01 b in
      (match op with
       | "add" -> sb (f2_add a b) | "sub" -> sb (f2_sub a b) | "mul" -> sb (f2_mul a b)
       | "div" -> so sb (f2_div a b)
       | _ -> failwith "bad f2 op")
  | ["f2u"; a] ->
      let a = bool_of_string01 a in
      sb (f2_neg a) ^ " " ^ (match f2_inv a with Some x -> sb x | None -> "N")
      ^ " " ^ sb (f2_is_zero a) ^ sb (f2_is_one a)
  | ["f2from"; a] -> so sb (f2_from (z_of_string a))
  (* ---- quadratic integers ---- *)
  | ["quad"; t; d; op; a; b; c; e] ->
      let w = width_of t in
      let dd = quad_d d in
      let x = (zin w a, zin w b) and y = (zin w c, zin w e) in
      (match op with
       | "add" -> so sq (qi_add w x y)
       | "sub" -> so sq (qi_sub w x y)
       | "mul" -> so sq (qi_mul w dd x y)
       | "eq" -> sb (qi_eqb x y)
       | _ -> failwith "bad quad op")
  | ["quad1"; t; d; op; a; b] ->
      let w = width_of t in
      let dd = quad_d d in
      let x = (zin w a, zin w b) in
      (match op with
       | "neg" -> so sq (qi_neg w x)
       | "conj" -> so sq (qi_conj w dd x)
       | "norm" -> so sz (qi_norm w dd x)
       | "new" -> so sq (qi_new dd (fst x) (snd x))
       | "pred" -> sb (qi_is_zero x) ^ sb (qi_is_one x)
       | _ -> failwith "bad quad1 op")
  | _ -> failwith "bad case"

let handle line = try handle_inner line with Unrep -> "UNREPRESENTABLE"

let () = run_lines handle
