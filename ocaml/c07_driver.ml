(* C07 driver: runs the extracted homology model (Model/HomologyCalc.v, SNF parameter = Model/Snf.v).
   One case per line:
     hc <ring> <wt> <valid> <r1> <r2> <nt> <nt planted torsion tokens> <c1> <c2> <c3> <d1: c2*c1 entries> <d2: c3*c2 entries>
          HomologyCalc::calculate(d1, d2, wt)            ->  R=<rank> T=<tors> F=<forward mat> B=<backward mat>
          (the tokens valid .. planted torsion are the generator's expectations; the model ignores them)
     cx <ring> <ddeg> <L> <c_0 .. c_(L-1)> <rows_0 .. rows_(L-1)> <mat_0> .. <mat_(L-1)>
          GenericChainComplex::generate(0..L, ddeg, i -> mat_i (rows_i x c_i)).homology()
          ->  per degree  i:R=.. T=.. F=.. B=.. G=<generators> E=<vectorize_euc of the boundaries>   joined by " ; "
     mg <ring> <ddeg> <valid> <L> <c_i> <rows_i> <mat_i> <sd_0> .. <sd_(L-1)>
          a complex whose summands carry coordinate maps (Model/HomologyMerge.v); sd = 0 | 1 r F B | 2 r1 F1 B1 r2 F2 B2
          (merged, reduced) | 3 r1 F1 B1 r2 F2 B2 (merged, two factors); per degree the three routes
          b_homology_merge (R T F B G E D), b_homology_at (LF LB), b_homology_merge_twice (TF TB)
     rd <ring> <ddeg> <L> ...   (as cx)  ->  per degree  i:R=<rank> N=<number of torsion summands>  of the raw complex
   A panic / None is "P".  Entries: integers, `a:b` quadratic integers, `n/d` rationals.
   Matrices are printed as `mxn:row;row;..` with rows `e,e,..`; vectors as `[e,e,..]`. *)
let sl = Stdlib.List.map
let rec take k l = if k = 0 then [] else match l with [] -> failwith "too few tokens" | x :: r -> x :: take (k - 1) r
let rec drop k l = if k = 0 then l else match l with [] -> failwith "too few tokens" | _ :: r -> drop (k - 1) r
let rec chunks k l = match l with [] -> [] | _ -> take k l :: chunks k (drop k l)

let split2 c s = match String.index_opt s c with
  | Some k -> (String.sub s 0 k, String.sub s (k + 1) (String.length s - k - 1))
  | None -> failwith ("bad entry " ^ s)

type 'r rio = { dict : 'r euc_dict; parse : string -> 'r; show : 'r -> string }

let z_io d = { dict = d; parse = z_of_string; show = string_of_z }
let quad_io d =
  { dict = d;
    parse = (fun s -> let (a, b) = split2 ':' s in (z_of_string a, z_of_string b));
    show = (fun (a, b) -> string_of_z a ^ ":" ^ string_of_z b) }
let q_io =
  { dict = q_dict;
    parse = (fun s -> let (a, b) = split2 '/' s in
              let den = match z_of_string b with Zpos p -> p | _ -> failwith "denominator" in
              q2Qc { qnum = z_of_string a; qden = den });
    show = (fun x -> let q = this x in string_of_z q.qnum ^ "/" ^ string_of_z (Zpos q.qden)) }
let fp_io p =
  let pz = z_of_string (string_of_int p) in
  { dict = fp_dict pz;
    parse = (fun s -> fp_mk pz (z_of_string s));
    show = (fun x -> string_of_z (fp_val pz x)) }
let f2_io =
  { dict = f2_dict;
    parse = (fun s -> ZA.testbit (ZA.of_string s) 0);
    show = (fun b -> if b then "1" else "0") }

(* LLL-HNF preprocessing of the rings snf.rs preprocesses; fuel = calls of `iterate` *)
let lll_fuel = nat_of_int 1000000
let z_pre : z preproc option = Some (lll_pre z_lll lll_fuel)
let gauss_pre : quad preproc option = Some (lll_pre g_lll lll_fuel)
let eisen_pre : quad preproc option = Some (lll_pre e_lll lll_fuel)

let str_mat io (a : 'r dmat) =
  string_of_nat a.nr ^ "x" ^ string_of_nat a.nc ^ ":" ^
  String.concat ";" (sl (fun r -> String.concat "," (sl io.show r)) a.ent)
let str_omat io = function None -> "P" | Some a -> str_mat io a
let str_vec io v = "[" ^ String.concat "," (sl io.show v) ^ "]"
let str_ovec io = function None -> "P" | Some v -> str_vec io v
let str_tors io ts = if ts = [] then "-" else String.concat "," (sl io.show ts)

let mat_of io m n toks : 'r dmat =
  if Stdlib.List.length toks <> m * n then failwith "entry count";
  let rows = if n = 0 then Stdlib.List.init m (fun _ -> []) else if m = 0 then [] else chunks n (sl io.parse toks) in
  { nr = nat_of_int m; nc = nat_of_int n; ent = rows }

let o = fun io -> io.dict.ed_ring

let run_hc io wt toks =
  match toks with
  | _valid :: _r1 :: _r2 :: nt :: rest ->
    let rest = drop (int_of_string nt) rest in
    (match rest with
     | c1 :: c2 :: c3 :: ents ->
       let c1 = int_of_string c1 and c2 = int_of_string c2 and c3 = int_of_string c3 in
       let d1 = mat_of io c2 c1 (take (c2 * c1) ents) in
       let ents = drop (c2 * c1) ents in
       let d2 = mat_of io c3 c2 (take (c3 * c2) ents) in
       if drop (c3 * c2) ents <> [] then failwith "too many tokens";
       (match hc_calculate io.dict d1 d2 wt with
        | None -> "P"
        | Some ((rank, tors), tr) ->
          let f, b = (match tr with
              | None -> "-", "-"
              | Some t -> str_omat io (forward_mat (o io) t), str_omat io (backward_mat (o io) t)) in
          Printf.sprintf "R=%s T=%s F=%s B=%s" (string_of_nat rank) (str_tors io tors) f b)
     | _ -> failwith "bad hc case")
  | _ -> failwith "bad hc case"

let z_of_int i = z_of_string (string_of_int i)
let int_of_z x = int_of_string (string_of_z x)

let run_cx io ddeg toks =
  match toks with
  | l :: rest ->
    let l = int_of_string l in
    let dims = sl int_of_string (take l rest) in
    let rest = drop l rest in
    let rows = sl int_of_string (take l rest) in
    let rest = ref (drop l rest) in
    let mats = Stdlib.List.map2 (fun c r ->
        let m = mat_of io r c (take (r * c) !rest) in
        rest := drop (r * c) !rest; m) dims rows in
    if !rest <> [] then failwith "too many tokens";
    let arr = Array.of_list mats in
    let zero00 = { nr = nat_of_int 0; nc = nat_of_int 0; ent = [] } in
    let dm (i : z) = let k = int_of_z i in if k >= 0 && k < l then arr.(k) else zero00 in
    let support = Stdlib.List.init l z_of_int in
    let cplx = { c_support = support; c_ddeg = z_of_int ddeg; c_dmat = dm } in
    (match hc_homology io.dict cplx with
     | None -> "P"
     | Some hs ->
       String.concat " ; " (sl (fun (i, h) ->
           let k = int_of_z i in
           let t = h.s_trans in
           let dim = int_of_nat h.s_rank + Stdlib.List.length h.s_tors in
           let gens = Stdlib.List.init dim (fun j -> str_ovec io (gen (o io) h (nat_of_int j))) in
           (* boundaries: columns of the incoming differential d_(k - ddeg), as chains of degree k *)
           let kin = k - ddeg in
           let bnds =
             if kin >= 0 && kin < l then
               (match d_matrix (o io) cplx (z_of_int kin) with
                | None -> ["P"]
                | Some d ->
                  Stdlib.List.init (int_of_nat d.nc) (fun j ->
                      let col = Stdlib.List.init (int_of_nat d.nr) (fun r -> mget (o io) d (nat_of_int r) (nat_of_int j)) in
                      str_ovec io (vectorize_euc (o io) (hc_rem io.dict) h col)))
             else [] in
           Printf.sprintf "%d:R=%s T=%s F=%s B=%s G=%s E=%s" k (string_of_nat h.s_rank) (str_tors io h.s_tors)
             (str_omat io (forward_mat (o io) t)) (str_omat io (backward_mat (o io) t))
             (String.concat "" gens) (String.concat "" bnds)) hs))
  | _ -> failwith "bad cx case"


(* ---------- complexes whose summands carry coordinate maps ---------- *)
exception Pan
let some = function Some x -> x | None -> raise Pan
let ( >>= ) x f = match x with Some a -> f a | None -> None

let parse_complex io ddeg toks =
  match toks with
  | l :: rest ->
    let l = int_of_string l in
    let dims = sl int_of_string (take l rest) in
    let rest = drop l rest in
    let rows = sl int_of_string (take l rest) in
    let rest = ref (drop l rest) in
    let mats = Stdlib.List.map2 (fun c r ->
        let m = mat_of io r c (take (r * c) !rest) in
        rest := drop (r * c) !rest; m) dims rows in
    let arr = Array.of_list mats in
    let zero00 = { nr = nat_of_int 0; nc = nat_of_int 0; ent = [] } in
    let dm (i : z) = let k = int_of_z i in if k >= 0 && k < l then arr.(k) else zero00 in
    let support = Stdlib.List.init l z_of_int in
    (l, dims, { c_support = support; c_ddeg = z_of_int ddeg; c_dmat = dm }, !rest)
  | _ -> failwith "bad complex"

let parse_desc io c rest : 'r summand option =
  let num () = match !rest with x :: r -> rest := r; int_of_string x | [] -> failwith "too few tokens" in
  let mat m n = let e = take (m * n) !rest in rest := drop (m * n) !rest; mat_of io m n e in
  let n = nat_of_int in
  let v = num () in
  match v with
  | 0 -> Some (summand_free (n c))
  | 1 ->
    let r1 = num () in let f1 = mat r1 c in let b1 = mat c r1 in
    trans_new f1 b1 >>= fun t -> summand_new (n c) (n r1) [] t
  | 2 | 3 ->
    let r1 = num () in let f1 = mat r1 c in let b1 = mat c r1 in
    let r2 = num () in let f2 = mat r2 r1 in let b2 = mat r1 r2 in
    if v = 2 then
      (trans_new f1 b1 >>= fun t -> summand_new (n c) (n r1) [] t) >>= fun s ->
      (trans_new f2 b2 >>= fun t -> summand_new (n r1) (n r2) [] t) >>= fun mid ->
      summand_merge (o io) s mid
    else
      trans_new f1 b1 >>= fun t1 -> trans_new f2 b2 >>= fun t2 ->
      trans_merged t1 t2 >>= fun tm -> summand_new (n c) (n r2) [] tm
  | _ -> failwith "bad summand descriptor"

let run_mg io ddeg toks =
  match toks with
  | _valid :: toks ->
    let (l, dims, raw, rest) = parse_complex io ddeg toks in
    let rest = ref rest in
    let descs = Array.of_list (sl (fun c -> parse_desc io c rest) dims) in
    if !rest <> [] then failwith "too many tokens";
    (try
       let sums = Array.map some descs in
       let bc = { b_raw = raw; b_summand = (fun i -> let k = int_of_z i in if k >= 0 && k < l then sums.(k) else summand_zero) } in
       let fm t = str_mat io (some (forward_mat (o io) t)) and bm t = str_mat io (some (backward_mat (o io) t)) in
       String.concat " ; " (Stdlib.List.init l (fun k ->
           let i = z_of_int k in
           let sm = some (hm_homology_merge io.dict bc i) in
           let slib = some (hm_homology_at io.dict bc i) in
           let st = some (hm_homology_merge_twice io.dict bc i) in
           let dim = int_of_nat sm.s_rank + Stdlib.List.length sm.s_tors in
           let gens = Stdlib.List.init dim (fun j -> str_vec io (some (gen (o io) sm (nat_of_int j)))) in
           let kin = k - ddeg in
           let bnds =
             if kin >= 0 && kin < l then begin
               let d = some (d_matrix (o io) raw (z_of_int kin)) in
               Stdlib.List.init (int_of_nat d.nc) (fun j ->
                   let col = Stdlib.List.init (int_of_nat d.nr) (fun r -> mget (o io) d (nat_of_int r) (nat_of_int j)) in
                   str_vec io (some (vectorize_euc (o io) (hc_rem io.dict) sm col)))
             end else [] in
           let ones = Stdlib.List.init dim (fun _ -> (o io).rone) in
           let dv = str_vec io (some (devectorize (o io) sm ones)) in
           Printf.sprintf "%d:R=%s T=%s F=%s B=%s G=%s E=%s D=%s LF=%s LB=%s TF=%s TB=%s" k
             (string_of_nat sm.s_rank) (str_tors io sm.s_tors) (fm sm.s_trans) (bm sm.s_trans)
             (String.concat "" gens) (String.concat "" bnds) dv
             (fm slib.s_trans) (bm slib.s_trans) (fm st.s_trans) (bm st.s_trans)))
     with Pan -> "P")
  | _ -> failwith "bad mg case"

let run_rd io ddeg toks =
  let (_, _, raw, rest) = parse_complex io ddeg toks in
  if rest <> [] then failwith "too many tokens";
  match hc_homology io.dict raw with
  | None -> "P"
  | Some hs ->
    String.concat " ; " (sl (fun (i, h) ->
        Printf.sprintf "%d:R=%s N=%d" (int_of_z i) (string_of_nat h.s_rank) (Stdlib.List.length h.s_tors)) hs)

let handle (line : string) : string =
  match split_ws line with
  | kind :: ring :: x :: toks ->
    let go : 'r. 'r rio -> string = fun io ->
      (match kind with
       | "hc" -> run_hc io (x = "1") toks
       | "cx" -> run_cx io (int_of_string x) toks
       | "mg" -> run_mg io (int_of_string x) toks
       | "rd" -> run_rd io (int_of_string x) toks
       | _ -> failwith "bad case") in
    (match ring with
     | "i32" -> go (z_io z_dict)
     | "i64" | "i128" | "big" -> go (z_io (zpre_dict z_pre))
     | "gi32" -> go (quad_io gauss_dict)
     | "gi64" | "gbig" -> go (quad_io (gausspre_dict gauss_pre))
     | "ei32" -> go (quad_io eisen_dict)
     | "ei64" | "ebig" -> go (quad_io (eisenpre_dict eisen_pre))
     | "q64" | "qbig" -> go q_io
     | "f2" -> go f2_io
     | "f3" -> go (fp_io 3)
     | "f5" -> go (fp_io 5)
     | "f7" -> go (fp_io 7)
     | "qx" | "f3x" -> "SKIP"           (* Q[x], F_3[x]: no model dictionary; the property clauses are evaluated on the implementation's output only *)
     | _ -> failwith "bad ring")
  | _ -> failwith "bad case"

let () = run_lines handle
