(* C02 driver: oracle tables of both diagrams of a pair. *)
(*INCLUDE kh_common.ml*)
(* X / Xm crossings pass straight in [arcs], so the circles of the unresolved diagram are its components *)
let n_components (l : link) : int = Stdlib.List.length (circles l)

let tables (l : link) (np0 : int) (nn0 : int) : string =
  match model_signs l np0 nn0 with Error e -> e | Ok (np, nn) ->
  (* crossings of type X/Xm pass straight: arcs pairs (0,2),(1,3), which [circles] uses for unresolved types *)
  let knot = (n_components l = 1) in
  let seg red =
    if red && (not knot || l = []) then [] else
    let rede = if red then first_edge l else None in
    let c = build_cube l rede Z0 Z0 in
    (match kh_groups_bigraded c with
     | None -> ["MODEL-NONE"]
     | Some qs ->
        let qs' = np - 2 * nn + (if red then 1 else 0) in
        Stdlib.List.map (fun w -> Printf.sprintf "%s%d[%s]" w (if red then 1 else 0) (bitable_of qs (- nn) qs' w))
          ["Z"; "Q"; "F2"; "F3"]) in
  String.concat " " (seg false @ seg true)

let handle (line : string) : string =
  match String.split_on_char ';' line with
  | [head; l1; l2] ->
    (match split_ws head with
     | ["rel"; _; np1; nn1; np2; nn2; "1"] ->
        tables (parse_link l1) (int_of_string np1) (int_of_string nn1) ^ " || " ^
        tables (parse_link l2) (int_of_string np2) (int_of_string nn2)
     | "rel" :: _ -> "SKIP"
     | _ -> failwith "bad case head")
  | _ -> failwith "bad case"

let () = run_lines handle
