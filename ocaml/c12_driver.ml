(* C12 driver: runs the extracted sparse-kernel models (Triang, Schur, Decomp) on one case per line.
   Case lines (written by harness/src/bin/c12.rs):
     solve  <ring> <U|L> <mat A> <mat Y>        solve_triangular            -> <mat X>
     solvel <ring> <U|L> <mat A> <mat Y>        solve_triangular_left       -> <mat X>
     solvev <ring> <U|L> <mat A> <vec y>        solve_triangular_vec        -> <vec x>
     inv    <ring> <U|L> <mat A>                inv_triangular              -> <mat>
     schur  <ring> <U|L> <r> <mat M>            Schur::from_partial_triangular(.., true)
                                                -> <S> | <F_src> | <B_src> | <F_tgt> | <B_tgt>
     decomp <ring> <mat M>                      dir_sum_decomp              -> p | q | k <blocks>
   <mat> = m n nnz (i j v)*  in CSC order (explicit zeros are entries like any other);
   <vec> = dim nnz (i v)*;   a panic / None is "P".
   Values: Z "5", Q "n/d" (reduced, d > 0), F7 "0".."6", Zi "re,im". *)
let ios = int_of_string

(* token cursor *)
type cur = { mutable toks : string list }
let next c = match c.toks with t :: r -> c.toks <- r; t | [] -> failwith "unexpected end of case"
let next_int c = ios (next c)

let parse_mat (pv : string -> 'r) (c : cur) : 'r spmat =
  let m = next_int c in
  let n = next_int c in
  let nnz = next_int c in
  let cols = Array.make n [] in
  for _ = 1 to nnz do
    let i = next_int c in
    let j = next_int c in
    let v = pv (next c) in
    cols.(j) <- (nat_of_int i, v) :: cols.(j)
  done;
  { nrows = nat_of_int m; ncols = nat_of_int n;
    cols = Stdlib.List.map Stdlib.List.rev (Array.to_list cols) }

let parse_vec (pv : string -> 'r) (c : cur) : 'r svec =
  let d = next_int c in
  let nnz = next_int c in
  let es = ref [] in
  for _ = 1 to nnz do
    let i = next_int c in
    let v = pv (next c) in
    es := (nat_of_int i, v) :: !es
  done;
  (nat_of_int d, Stdlib.List.rev !es)

let str_mat (sv : 'r -> string) (a : 'r spmat) : string =
  let b = Buffer.create 64 in
  let nnz = Stdlib.List.fold_left (fun s c -> s + Stdlib.List.length c) 0 a.cols in
  Buffer.add_string b (Printf.sprintf "%d %d %d" (int_of_nat a.nrows) (int_of_nat a.ncols) nnz);
  Stdlib.List.iteri (fun j c ->
    Stdlib.List.iter (fun (i, v) ->
      Buffer.add_string b (Printf.sprintf " %d %d %s" (int_of_nat i) j (sv v))) c) a.cols;
  Buffer.contents b

let str_vec (sv : 'r -> string) ((d, es) : 'r svec) : string =
  let b = Buffer.create 64 in
  Buffer.add_string b (Printf.sprintf "%d %d" (int_of_nat d) (Stdlib.List.length es));
  Stdlib.List.iter (fun (i, v) -> Buffer.add_string b (Printf.sprintf " %d %s" (int_of_nat i) (sv v))) es;
  Buffer.contents b

let str_nats (l : nat list) = String.concat "," (Stdlib.List.map string_of_nat l)

let upper_of = function "U" -> true | "L" -> false | s -> failwith ("bad triangular type " ^ s)

(* a fixed non-trivial schedule for k columns: three workers, interleaved and partly reversed *)
let some_schedule (k : int) : nat list list =
  let idx = Stdlib.List.init k (fun j -> j) in
  let pick r = Stdlib.List.filter (fun j -> j mod 3 = r) idx in
  Stdlib.List.map (Stdlib.List.map nat_of_int) [Stdlib.List.rev (pick 0); pick 2; pick 1]

(* a different visiting order of the pairs for the union-find loop: reversed *)
let rev_pairs (l : nat) = Stdlib.List.rev (all_pairs l)

let run (type r) (o : r ring_ops) (u : r unit_ops) (pv : string -> r) (sv : r -> string)
    (op : string) (c : cur) : string =
  let omat = function Some a -> str_mat sv a | None -> "P" in
  match op with
  | "solve" ->
      let up = upper_of (next c) in
      let a = parse_mat pv c in
      let y = parse_mat pv c in
      let seqr = omat (solve_triangular o u up a y) in
      (* the same call under another schedule of the worker threads (model side) *)
      let sch = omat (solve_triangular_sched o u up a y (some_schedule (int_of_nat y.ncols))) in
      (* invalid inputs with several columns may legitimately depend on the schedule; the harness
         only generates those with at most one column, so the two must agree on every case *)
      if seqr = sch then seqr else "MODEL-SCHED-DIFFER " ^ seqr ^ " // " ^ sch
  | "solvel" ->
      let up = upper_of (next c) in
      let a = parse_mat pv c in
      let y = parse_mat pv c in
      omat (solve_triangular_left o u up a y)
  | "solvev" ->
      let up = upper_of (next c) in
      let a = parse_mat pv c in
      let y = parse_vec pv c in
      (match solve_triangular_vec o u up a y with Some x -> str_vec sv x | None -> "P")
  | "inv" ->
      let up = upper_of (next c) in
      let a = parse_mat pv c in
      omat (inv_triangular o u up a)
  | "schur" ->
      let up = upper_of (next c) in
      let r = nat_of_int (next_int c) in
      let m = parse_mat pv c in
      let full = from_partial_triangular o u up m r in
      let only = schur_complement_only o u up m r in
      (match full, only with
       | Some s, Some s0 ->
           if str_mat sv s.sch_s <> str_mat sv s0 then "MODEL-FORMS-DIFFER"
           else String.concat " | " (Stdlib.List.map (str_mat sv) [s.sch_s; s.src_f; s.src_b; s.tgt_f; s.tgt_b])
       | None, None -> "P"
       | None, Some s0 -> "P | " ^ str_mat sv s0
       | Some _, None -> "MODEL-FORMS-DIFFER")
  | "decomp" ->
      let m = parse_mat pv c in
      let out = function
        | Some ((p, q), bs) ->
            Printf.sprintf "%s | %s | %d%s" (str_nats p) (str_nats q) (Stdlib.List.length bs)
              (String.concat "" (Stdlib.List.map (fun b -> " ; " ^ str_mat sv b) bs))
        | None -> "P" in
      let a = out (dir_sum_decomp o m) in
      let b = out (dir_sum_decomp_sched o m rev_pairs) in
      if a = b then a else "MODEL-SCHED-DIFFER " ^ a ^ " // " ^ b
  | _ -> failwith ("bad op " ^ op)

(* decompw <stars> <leaves> <len> <hubpos>: the summary the parameters determine (see harness/src/bin/c12.rs):
   `stars` blocks, each with len+leaves rows, leaves+1 columns and len+2*leaves non-zero entries *)
let decomp_wide_expected (toks : string list) : string =
  match Stdlib.List.map int_of_string toks with
  | [stars; leaves; len; _] ->
      let one = Printf.sprintf "%dx%d:%d" (len + leaves) (leaves + 1) (len + 2 * leaves) in
      Printf.sprintf "blocks=%d perm=1 shapes=%s" stars (String.concat "," (Stdlib.List.init stars (fun _ -> one)))
  | _ -> failwith "decompw"

(* ---- value syntax per ring ---- *)
let q_of_string (s : string) : q =
  match String.split_on_char '/' s with
  | [n; d] ->
      (match z_of_string d with
       | Zpos p -> qred { qnum = z_of_string n; qden = p }
       | _ -> failwith "bad denominator")
  | [n] -> { qnum = z_of_string n; qden = XH }
  | _ -> failwith ("bad rational " ^ s)
let string_of_q (x : q) : string = string_of_z x.qnum ^ "/" ^ ZA.to_string (zarith_of_pos x.qden)
let gi_of_string (s : string) : gi =
  match String.split_on_char ',' s with
  | [a; b] -> (z_of_string a, z_of_string b)
  | _ -> failwith ("bad gaussian integer " ^ s)
let string_of_gi ((a, b) : gi) : string = string_of_z a ^ "," ^ string_of_z b

let handle (line : string) : string =
  match split_ws line with
  | "decompw" :: rest -> decomp_wide_expected rest
  | op :: ring :: rest ->
      let c = { toks = rest } in
      let res =
        (match ring with
         | "Z" -> run z_ring z_units z_of_string string_of_z op c
         | "Q" -> run q_ring q_units q_of_string string_of_q op c
         | "F7" -> run f7_ring f7_units z_of_string string_of_z op c
         | "Zi" -> run gi_ring gi_units gi_of_string string_of_gi op c
         | _ -> failwith ("bad ring " ^ ring)) in
      if c.toks <> [] then failwith "trailing tokens" else res
  | _ -> failwith "bad case"

let () = run_lines handle
