(* C15 driver: runs the extracted Euclidean-domain model on one case per line:
     <type> <op> <operand> [<operand>]
   Output: the canonical value, "P" for a panic (None), "N" for inv = None.
   Machine integer types (i32/i64/i128) use the width-checked operations w_*; every other type uses
   the unbounded model (the harness keeps machine-based quadratic / rational operands small enough
   for every intermediate result to fit). *)
let sz = string_of_z

(* a type under test: how to read an operand from the token list, print a value, and its operations *)
type 'a ty = {
  parse : string list -> 'a * string list;
  show : 'a -> string;
  dict : 'a euc_dict;
  gcd_ : 'a -> 'a -> 'a option;
  gcdx_ : 'a -> 'a -> (('a * 'a) * 'a) option;
  lcm_ : 'a -> 'a -> 'a option;
  dround : ('a -> 'a -> 'a option) option;
}

let opt show = function Some v -> show v | None -> "P"
let b01 b = if b then "1" else "0"

let run (t : 'a ty) (op : string) (toks : string list) : string =
  let (a, rest) = t.parse toks in
  let second () = fst (t.parse rest) in
  match op with
  | "div" -> opt t.show (t.dict.d_div a (second ()))
  | "rem" -> opt t.show (t.dict.d_rem a (second ()))
  | "div_round" ->
      (match t.dround with Some f -> opt t.show (f a (second ())) | None -> failwith "no div_round")
  | "divides" -> opt b01 (divides t.dict a (second ()))
  | "gcd" -> opt t.show (t.gcd_ a (second ()))
  | "lcm" -> opt t.show (t.lcm_ a (second ()))
  | "gcdx" ->
      (match t.gcdx_ a (second ()) with
       | Some ((d, s), u) -> t.show d ^ ";" ^ t.show s ^ ";" ^ t.show u
       | None -> "P")
  | "is_unit" -> b01 (t.dict.d_is_unit a)
  | "inv" -> (match t.dict.d_inv a with Some i -> t.show i | None -> "N")
  | "nunit" -> t.show (t.dict.d_nunit a)
  | "normalized" -> t.show (normalized t.dict a)
  | _ -> failwith "bad op"

(* ---- integers ---- *)
let parse_z = function x :: r -> (z_of_string x, r) | [] -> failwith "operand"
let big_ty : z ty = {
  parse = parse_z; show = sz; dict = int_dict;
  gcd_ = (fun a b -> Some (int_gcd a b));
  gcdx_ = int_gcdx;
  lcm_ = (fun a b -> Some (int_lcm a b));
  dround = Some int_div_round }

(* machine integers: width-checked *)
let run_w (k : int) (op : string) (toks : string list) : string =
  let w = Some (z_of_string (string_of_int k)) in
  let a, b = match toks with
    | [x] -> (z_of_string x, Z0)
    | [x; y] -> (z_of_string x, z_of_string y)
    | _ -> failwith "operands" in
  match op with
  | "div" -> opt sz (w_div w a b)
  | "rem" -> opt sz (w_rem w a b)
  | "div_round" -> opt sz (w_div_round w a b)
  | "divides" -> opt b01 (w_divides w a b)
  | "gcd" -> opt sz (w_gcd w a b)
  | "lcm" -> opt sz (w_lcm w a b)
  | "gcdx" -> (match w_gcdx w a b with Some ((d, s), t) -> sz d ^ ";" ^ sz s ^ ";" ^ sz t | None -> "P")
  | "is_unit" -> opt b01 (w_is_unit w a)
  | "inv" -> (match w_inv w a with Some (Some i) -> sz i | Some None -> "N" | None -> "P")
  | "nunit" -> sz (int_nunit a)
  | "normalized" -> opt sz (w_normalized w a)
  | _ -> failwith "bad op"

(* ---- Gaussian / Eisenstein ---- *)
let parse_q = function x :: y :: r -> ((z_of_string x, z_of_string y), r) | _ -> failwith "operand"
let show_q (a, b) = sz a ^ "," ^ sz b
let gauss_ty : qint ty = {
  parse = parse_q; show = show_q; dict = gauss_dict;
  gcd_ = g_gcd; gcdx_ = g_gcdx; lcm_ = g_lcm; dround = Some g_div_round }
let eisen_ty : qint ty = {
  parse = parse_q; show = show_q; dict = eisen_dict;
  gcd_ = e_gcd; gcdx_ = e_gcdx; lcm_ = e_lcm; dround = Some e_div_round }

(* ---- fields ---- *)
let nat_fuel = nat_of_int 3   (* a field never enters the Euclid loop *)
let field_ty (d : 'a euc_dict) parse show : 'a ty = {
  parse; show; dict = d;
  gcd_ = gcd0 d nat_fuel; gcdx_ = gcdx d nat_fuel; lcm_ = lcm0 d nat_fuel; dround = None }
let parse_ratio = function
  | x :: y :: r ->
      (match r_new (z_of_string x) (z_of_string y) with Some q -> (q, r) | None -> failwith "zero denominator")
  | _ -> failwith "operand"
let show_ratio (n, d) = sz n ^ "/" ^ sz d
let ratio_ty : ratio ty = field_ty ratio_dict parse_ratio show_ratio
let ff_ty (p : int) : z ty =
  let pz = z_of_string (string_of_int p) in
  field_ty (ff_dict pz) (function x :: r -> (ff_new pz (z_of_string x), r) | [] -> failwith "operand") sz

(* ---- polynomials over a field type ---- *)
let poly_ty (k : 'a ty) : 'a list ty =
  let parse = function
    | n :: r ->
        let n = int_of_string n in
        let rec go i acc r = if i = 0 then (Stdlib.List.rev acc, r) else
            let (c, r') = k.parse r in go (i - 1) (c :: acc) r' in
        let (cs, r') = go n [] r in
        (p_norm k.dict cs, r')
    | [] -> failwith "operand" in
  let show f = "[" ^ String.concat " " (Stdlib.List.map k.show f) ^ "]" in
  { parse; show; dict = poly_dict k.dict;
    gcd_ = p_gcd k.dict; gcdx_ = p_gcdx k.dict; lcm_ = p_lcm k.dict; dround = None }

let hpoly_ty (k : 'a ty) : (nat * 'a) ty =
  let parse = function
    | d :: r -> let (c, r') = k.parse r in ((nat_of_string d, c), r')
    | [] -> failwith "operand" in
  let show (d, c) = if kzero k.dict c then "0" else string_of_nat d ^ ":" ^ k.show c in
  { parse; show; dict = hpoly_dict k.dict;
    gcd_ = h_gcd k.dict; gcdx_ = h_gcdx k.dict; lcm_ = h_lcm k.dict; dround = None }

let handle (line : string) : string =
  match split_ws line with
  | ty :: op :: toks ->
      (match ty with
       | "i32" -> run_w 32 op toks
       | "i64" -> run_w 64 op toks
       | "i128" -> run_w 128 op toks
       | "big" -> run big_ty op toks
       | "gi64" | "gi128" | "gbig" -> run gauss_ty op toks
       | "ei64" | "ei128" | "ebig" -> run eisen_ty op toks
       | "q64" | "qbig" -> run ratio_ty op toks
       | "f2" -> run (ff_ty 2) op toks
       | "f3" -> run (ff_ty 3) op toks
       | "f5" -> run (ff_ty 5) op toks
       | "f7" -> run (ff_ty 7) op toks
       | "f46337" -> run (ff_ty 46337) op toks
       | "pq" -> run (poly_ty ratio_ty) op toks
       | "pf3" -> run (poly_ty (ff_ty 3)) op toks
       | "pf5" -> run (poly_ty (ff_ty 5)) op toks
       | "hq" -> run (hpoly_ty ratio_ty) op toks
       | "hf3" -> run (hpoly_ty (ff_ty 3)) op toks
       | _ -> failwith "bad type")
  | _ -> failwith "bad case"

let () = run_lines handle
