#!/bin/bash
# Offline set-up after a fresh restore: compile the whole Coq development (full .vo build), the OCaml
# model runners and the Rust harness.  Individual failures do not stop the others; every check rebuilds
# what it needs anyway (incrementally).
cd "$(dirname "$0")"
export CARGO_NET_OFFLINE=true
mkdir -p .cache ocaml/gen evidence replays
echo "== coq"; python3 coq/build.py -j 16 --timeout 900 -k 2>&1 | tail -n 40
echo "== harness"
for b in harness/src/bin/*.rs; do
  n=$(basename "$b" .rs)
  ( cd harness && CARGO_TARGET_DIR=../.cache/target RUSTFLAGS="--cfg yui_verif" cargo build --release --offline --bin "$n" 2>&1 | tail -n 2 )
done
echo "== runners"
python3 - <<'PY'
import sys, os, glob
sys.path.insert(0, os.getcwd())
from vlib import common as C
for d in sorted(glob.glob("ocaml/*_driver.ml")):
    pid = os.path.basename(d).split("_")[0].upper()
    exe, msg = C.build_runner(pid)
    print(pid, "runner", "ok" if exe else "FAILED: " + msg[-500:])
PY
exit 0
