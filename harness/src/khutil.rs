//! Utilities shared by the Khovanov-family harness binaries: diagram generators (independent of
//! yui-link's own constructions), serialisation of diagrams for the Coq model, and canonical
//! renderings of the library's homology tables.
use crate::Rng;
use std::collections::BTreeMap;
use yui::{EucRing, EucRingOps, Ring, FF2, FF, Ratio};
use yui_homology::{GridTrait, SummandTrait};
use yui_kh::kh::{KhComplexBigraded, KhHomology, KhHomologyBigraded};
use yui_link::{CrossingType, Link};

pub type PD = Vec<[usize; 4]>;

/// PD code of the closure of a braid word (letters +-i, 1 <= i < strands); all strands oriented
/// downwards.  Returns None if some strand meets no crossing (free loop - not representable).
pub fn braid_closure(strands: usize, word: &[i32]) -> Option<PD> {
    for p in 1..=strands {
        let touched = word.iter().any(|&w| {
            let i = w.unsigned_abs() as usize;
            i == p || i + 1 == p
        });
        if !touched {
            return None;
        }
    }
    let mut cur: Vec<usize> = (1..=strands).collect(); // label of the edge currently at position p
    let mut next = strands + 1;
    let mut pd: PD = vec![];
    for &w in word {
        let i = w.unsigned_abs() as usize; // crossing between positions i, i+1 (1-based)
        let (tl, tr) = (cur[i - 1], cur[i]);
        let (bl, br) = (next, next + 1);
        next += 2;
        if w > 0 {
            pd.push([tl, bl, br, tr]); // under strand: top-left -> bottom-right
        } else {
            pd.push([tr, tl, bl, br]); // under strand: top-right -> bottom-left
        }
        cur[i - 1] = bl;
        cur[i] = br;
    }
    // identify the bottom labels with the top labels
    let mut ren: BTreeMap<usize, usize> = BTreeMap::new();
    for p in 0..strands {
        if cur[p] != p + 1 {
            ren.insert(cur[p], p + 1);
        }
    }
    for x in pd.iter_mut() {
        for e in x.iter_mut() {
            if let Some(&f) = ren.get(e) {
                *e = f;
            }
        }
    }
    Some(pd)
}

pub fn random_braid(r: &mut Rng, strands: usize, len: usize) -> PD {
    loop {
        let word: Vec<i32> = (0..len)
            .map(|_| {
                let i = 1 + r.below(strands as u64 - 1) as i32;
                if r.bool() { i } else { -i }
            })
            .collect();
        if let Some(pd) = braid_closure(strands, &word) {
            return pd;
        }
    }
}

pub fn max_edge(pd: &PD) -> usize {
    pd.iter().flat_map(|x| x.iter()).cloned().max().unwrap_or(0)
}

/// disjoint union (split diagram)
pub fn split_union(a: &PD, b: &PD) -> PD {
    let off = max_edge(a) + 1;
    let mut res = a.clone();
    res.extend(b.iter().map(|x| [x[0] + off, x[1] + off, x[2] + off, x[3] + off]));
    res
}

/// insert a kink (Reidemeister I) into the strand that enters crossing `c` as its under strand (edge
/// e = pd[c][0]): that incoming end is renamed to a new label f and a crossing through which the
/// strand runs e -> g -> f is added, so the code stays consistently oriented.  `kind` selects one of
/// the four kinks.
pub fn add_kink(pd: &PD, c: usize, kind: u64) -> PD {
    let f = max_edge(pd) + 1;
    let g = f + 1;
    let mut res = pd.clone();
    let c = c % res.len();
    let e = res[c][0];
    res[c][0] = f;
    let x = match kind % 4 {
        0 => [e, g, g, f],
        1 => [e, f, g, g],
        2 => [g, e, f, g],
        _ => [g, g, f, e],
    };
    res.push(x);
    res
}

pub fn relabel(pd: &PD, r: &mut Rng) -> PD {
    let mut labels: Vec<usize> = pd.iter().flat_map(|x| x.iter().cloned()).collect();
    labels.sort();
    labels.dedup();
    let mut perm: Vec<usize> = (0..labels.len()).map(|i| i + r.below(5) as usize * labels.len()).collect();
    // shuffle
    for i in (1..perm.len()).rev() {
        let j = r.below(i as u64 + 1) as usize;
        perm.swap(i, j);
    }
    let map: BTreeMap<usize, usize> = labels.iter().cloned().zip(perm.into_iter()).collect();
    pd.iter().map(|x| [map[&x[0]], map[&x[1]], map[&x[2]], map[&x[3]]]).collect()
}

pub fn shuffle_crossings(pd: &PD, r: &mut Rng) -> PD {
    let mut res = pd.clone();
    for i in (1..res.len()).rev() {
        let j = r.below(i as u64 + 1) as usize;
        res.swap(i, j);
    }
    res
}

/// every edge label occurs exactly twice
pub fn is_valid(pd: &PD) -> bool {
    let mut cnt: BTreeMap<usize, usize> = BTreeMap::new();
    for x in pd {
        for &e in x {
            *cnt.entry(e).or_insert(0) += 1;
        }
    }
    cnt.values().all(|&c| c == 2)
}

/// serialisation of a Link for the model: "X a b c d" / "M ..." (Xm) / "V ..." / "H ..." joined by " , "
pub fn link_str(l: &Link) -> String {
    l.data()
        .iter()
        .map(|x| {
            let t = match x.ctype() {
                CrossingType::X => "X",
                CrossingType::Xm => "M",
                CrossingType::V => "V",
                CrossingType::H => "H",
            };
            let e = x.edges();
            format!("{} {} {} {} {}", t, e[0], e[1], e[2], e[3])
        })
        .collect::<Vec<_>>()
        .join(" , ")
}

pub fn parse_link(s: &str) -> Link {
    let s = s.trim();
    if s.is_empty() {
        return Link::empty();
    }
    let data = s
        .split(',')
        .map(|c| {
            let t: Vec<&str> = c.split_whitespace().collect();
            let ty = match t[0] {
                "X" => CrossingType::X,
                "M" => CrossingType::Xm,
                "V" => CrossingType::V,
                "H" => CrossingType::H,
                _ => panic!("bad crossing type"),
            };
            let e: Vec<usize> = t[1..5].iter().map(|x| x.parse().unwrap()).collect();
            yui_link::Crossing::new(ty, [e[0], e[1], e[2], e[3]])
        })
        .collect();
    Link::new(data)
}

/// built-in small diagrams (name, PD)
pub fn table_knots() -> Vec<(&'static str, PD)> {
    vec![
        ("3_1", vec![[1, 4, 2, 5], [3, 6, 4, 1], [5, 2, 6, 3]]),
        ("4_1", vec![[4, 2, 5, 1], [8, 6, 1, 5], [6, 3, 7, 4], [2, 7, 3, 8]]),
        ("5_1", vec![[1, 6, 2, 7], [3, 8, 4, 9], [5, 10, 6, 1], [7, 2, 8, 3], [9, 4, 10, 5]]),
        ("5_2", vec![[1, 4, 2, 5], [3, 8, 4, 9], [5, 10, 6, 1], [9, 6, 10, 7], [7, 2, 8, 3]]),
        ("6_1", vec![[1, 4, 2, 5], [7, 10, 8, 11], [3, 9, 4, 8], [9, 3, 10, 2], [5, 12, 6, 1], [11, 6, 12, 7]]),
        ("hopf", vec![[4, 1, 3, 2], [2, 3, 1, 4]]),
        ("unknot-kink", vec![[1, 2, 2, 1]]),
        ("unknot-kink2", vec![[1, 1, 2, 2]]),
    ]
}

// ---------- canonical renderings of the library's tables ----------

pub fn summand_str<S: SummandTrait>(s: &S, with_tors: bool) -> String
where
    S::R: yui::Ring + std::fmt::Display,
    for<'x> &'x S::R: yui::RingOps<S::R>,
{
    if with_tors {
        let mut t: Vec<String> = s.tors().iter().map(|a| a.normalized().to_string()).collect();
        t.sort_by(|a, b| (a.len(), a.clone()).cmp(&(b.len(), b.clone())));
        format!("{}/{}", s.rank(), t.join("."))
    } else {
        format!("{}", s.rank())
    }
}

/// "i=rank/t1.t2 i=..." for the non-zero groups, sorted by i
pub fn kh_table<R>(l: &Link, h: &R, t: &R, red: bool, with_tors: bool) -> String
where
    R: EucRing + std::fmt::Display,
    for<'x> &'x R: EucRingOps<R>,
{
    let kh = KhHomology::new(l, h, t, red);
    let mut v: Vec<(isize, String)> = vec![];
    for i in kh.support() {
        let s = &kh[i];
        if !s.is_zero() {
            v.push((i, summand_str(s, with_tors)));
        }
    }
    v.sort();
    v.iter().map(|(i, s)| format!("{}={}", i, s)).collect::<Vec<_>>().join(" ")
}

/// "(i,j)=rank/tors ..." through the bigraded complex (route A) or through into_bigraded (route B)
pub fn kh_table_bigraded<R>(l: &Link, red: bool, with_tors: bool, via_total: bool) -> String
where
    R: EucRing + std::fmt::Display,
    for<'x> &'x R: EucRingOps<R>,
{
    let z = R::zero();
    let kh: KhHomologyBigraded<R> = if via_total {
        KhHomologyBigraded::new(l, &z, &z, red)
    } else {
        KhComplexBigraded::new(l, &z, &z, red).homology()
    };
    let mut v: Vec<((isize, isize), String)> = vec![];
    for idx in kh.support() {
        let s = &kh[(idx.0, idx.1)];
        if !s.is_zero() {
            v.push(((idx.0, idx.1), summand_str(s, with_tors)));
        }
    }
    v.sort();
    v.iter().map(|((i, j), s)| format!("({},{})={}", i, j, s)).collect::<Vec<_>>().join(" ")
}

pub type Q = Ratio<i64>;
pub type F2 = FF2;
pub type F3 = FF<3>;
