//! C14 correspondence harness: the scalar types of yui (i64, i128, BigInt, Ratio<T>, FF<p>, FF2,
//! QuadInt<I, D>) vs the Coq models Model/{Ints,Ratio,Fp,QuadInt}.v.
//! Case lines are the model driver's input (ocaml/c14_driver.ml); result lines are what the real
//! implementation returned ("P" = panic, "N" = Option::None, rationals "n/d", quadratic integers "a,b").
//! Every binary operator is evaluated in all six forms (a op b, &a op &b, a op &b, &a op b, a op= b,
//! a op= &b); the forms must agree (else FORMS-DIFFER).
use num_bigint::BigInt;
use num_traits::{One, Signed, Zero};
use std::cmp::Ordering;
use std::fmt::Display;
use std::str::FromStr;
use yui::{EisenInt, EucRing, EucRingOps, GaussInt, IntOps, Integer, QuadInt, Ratio, Ring, RingOps, FF, FF2};
use yui_verif_harness::*;

const P: &str = "P";

fn merge<T>(v: Vec<Option<T>>, show: &dyn Fn(&T) -> String) -> String {
    let s: Vec<String> = v.iter().map(|o| o.as_ref().map(show).unwrap_or(P.into())).collect();
    if s.iter().all(|x| *x == s[0]) {
        s[0].clone()
    } else {
        format!("FORMS-DIFFER[{}]", s.join(";"))
    }
}

/// all six call forms of a binary operator on (&a, &b)
macro_rules! forms {
    ($a:expr, $b:expr, $op:tt, $opa:tt) => {{
        let a = $a;
        let b = $b;
        vec![
            guarded(|| a.clone() $op b.clone()),
            guarded(|| a $op b),
            guarded(|| a.clone() $op b),
            guarded(|| a $op b.clone()),
            guarded(|| { let mut x = a.clone(); x $opa b.clone(); x }),
            guarded(|| { let mut x = a.clone(); x $opa b; x }),
        ]
    }};
}

fn ring_bin<T>(op: &str, a: &T, b: &T, show: &dyn Fn(&T) -> String) -> String
where T: Ring, for<'x> &'x T: RingOps<T> {
    match op {
        "add" => merge(forms!(a, b, +, +=), show),
        "sub" => merge(forms!(a, b, -, -=), show),
        "mul" => merge(forms!(a, b, *, *=), show),
        _ => panic!("bad ring op {}", op),
    }
}

fn euc_bin<T>(op: &str, a: &T, b: &T, show: &dyn Fn(&T) -> String) -> String
where T: EucRing, for<'x> &'x T: EucRingOps<T> {
    match op {
        "div" => merge(forms!(a, b, /, /=), show),
        "rem" => merge(forms!(a, b, %, %=), show),
        _ => ring_bin(op, a, b, show),
    }
}

fn ring_neg<T>(a: &T, show: &dyn Fn(&T) -> String) -> String
where T: Ring, for<'x> &'x T: RingOps<T> {
    merge(vec![guarded(|| -a.clone()), guarded(|| -a)], show)
}

fn b01(x: bool) -> &'static str {
    if x { "1" } else { "0" }
}
fn ord(c: Ordering) -> &'static str {
    match c {
        Ordering::Less => "Lt",
        Ordering::Equal => "Eq",
        Ordering::Greater => "Gt",
    }
}

// ------------------------------------------------------------------------------------------------
// integers
// ------------------------------------------------------------------------------------------------
fn run_int<T>(t: &[&str]) -> String
where T: Integer + FromStr + Display, for<'x> &'x T: IntOps<T> {
    let show = |x: &T| x.to_string();
    if t[0] == "int" {
        let (a, b) = match (t[3].parse::<T>(), t[4].parse::<T>()) {
            (Ok(a), Ok(b)) => (a, b),
            _ => return "UNREPRESENTABLE".into(),
        };
        match t[2] {
            "gcd" => guarded(|| <T as EucRing>::gcd(&a, &b)).map(|x| show(&x)).unwrap_or(P.into()),
            "lcm" => guarded(|| <T as EucRing>::lcm(&a, &b)).map(|x| show(&x)).unwrap_or(P.into()),
            op => euc_bin(op, &a, &b, &show),
        }
    } else {
        let a = match t[3].parse::<T>() {
            Ok(a) => a,
            _ => return "UNREPRESENTABLE".into(),
        };
        match t[2] {
            "neg" => ring_neg(&a, &show),
            "unit" => guarded(|| a.is_unit()).map(|x| b01(x).to_string()).unwrap_or(P.into()),
            "nunit" => guarded(|| a.normalizing_unit()).map(|x| show(&x)).unwrap_or(P.into()),
            "inv" => match guarded(|| a.inv()) {
                None => P.into(),
                Some(None) => "N".into(),
                Some(Some(x)) => show(&x),
            },
            "zero" => format!("{}{}", b01(a.is_zero()), b01(a.is_one())),
            _ => panic!("bad int1 op"),
        }
    }
}

// ------------------------------------------------------------------------------------------------
// rationals
// ------------------------------------------------------------------------------------------------
fn show_ratio<T: Display>(r: &Ratio<T>) -> String {
    format!("{}/{}", r.numer(), r.denom())
}

/// Err = operand not representable in T; Ok(None) = constructor panicked
fn mk_ratio<T>(n: &str, d: &str) -> Result<Option<Ratio<T>>, ()>
where T: Integer + FromStr + Display, for<'x> &'x T: IntOps<T> {
    let (n, d) = match (n.parse::<T>(), d.parse::<T>()) {
        (Ok(n), Ok(d)) => (n, d),
        _ => return Err(()),
    };
    let a = guarded(|| Ratio::new(n.clone(), d.clone()));
    let b = guarded(|| Ratio::from((n.clone(), d.clone())));
    // both constructors must agree
    match (&a, &b) {
        (None, None) => Ok(None),
        (Some(x), Some(y)) if show_ratio(x) == show_ratio(y) => Ok(a),
        _ => panic!("constructors differ"),
    }
}

fn ratio_step<T>(cur: &Ratio<T>, op: &str, rhs: Option<&Ratio<T>>) -> Option<Ratio<T>>
where T: Integer + FromStr + Display, for<'x> &'x T: IntOps<T> {
    let show = |x: &Ratio<T>| show_ratio(x);
    // the step is applied to a clone; a panicking call is abandoned
    let s = match op {
        "neg" => ring_neg::<Ratio<T>>(cur, &show),
        "inv" => return guarded(|| cur.inv().unwrap()),
        _ => euc_bin::<Ratio<T>>(op, cur, rhs.unwrap(), &show),
    };
    if s == P {
        return None;
    }
    if s.starts_with("FORMS") {
        panic!("forms differ in history");
    }
    // recompute the value with the assigning form (all forms agreed)
    let mut x = cur.clone();
    match op {
        "neg" => x = -&x,
        "add" => x += rhs.unwrap(),
        "sub" => x -= rhs.unwrap(),
        "mul" => x *= rhs.unwrap(),
        "div" => x /= rhs.unwrap(),
        _ => panic!("bad op"),
    }
    Some(x)
}

fn run_ratio<T>(t: &[&str]) -> String
where T: Integer + FromStr + Display, for<'x> &'x T: IntOps<T> {
    let show = |x: &Ratio<T>| show_ratio(x);
    let so = |x: &Option<Ratio<T>>| x.as_ref().map(show_ratio).unwrap_or(P.into());
    macro_rules! operand {
        ($n:expr, $d:expr) => {
            match mk_ratio::<T>($n, $d) {
                Err(()) => return "UNREPRESENTABLE".into(),
                Ok(x) => x,
            }
        };
    }
    match t[0] {
        "rnew" => so(&operand!(t[2], t[3])),
        "rfrom" => {
            let a = match t[2].parse::<T>() {
                Ok(a) => a,
                _ => return "UNREPRESENTABLE".into(),
            };
            let r = Ratio::from(a);
            format!("{} {} {} {}{}", show(&r), show(&Ratio::<T>::zero()), show(&Ratio::<T>::one()), b01(r.is_zero()), b01(r.is_one()))
        }
        "rbin" => {
            let x = operand!(t[3], t[4]);
            let y = operand!(t[5], t[6]);
            match (&x, &y) {
                (Some(a), Some(b)) => format!("{} {} {}", show(a), show(b), euc_bin::<Ratio<T>>(t[2], a, b, &show)),
                _ => format!("{} {} -", so(&x), so(&y)),
            }
        }
        "run" => {
            let x = match operand!(t[3], t[4]) {
                None => return "P -".into(),
                Some(x) => x,
            };
            let r = match t[2] {
                "neg" => ring_neg::<Ratio<T>>(&x, &show),
                "inv" => match guarded(|| x.inv()) {
                    None => P.into(),
                    Some(None) => "N".into(),
                    Some(Some(y)) => show(&y),
                },
                "abs" => guarded(|| x.abs()).map(|y| show(&y)).unwrap_or(P.into()),
                "pred" => format!("{}{}{}", b01(x.is_zero()), b01(x.is_one()), b01(x.is_int())),
                _ => panic!("bad run op"),
            };
            format!("{} {}", show(&x), r)
        }
        "rcmp" => {
            let x = operand!(t[2], t[3]);
            let y = operand!(t[4], t[5]);
            match (&x, &y) {
                (Some(a), Some(b)) => {
                    let c = guarded(|| a.cmp(b));
                    let eq = a == b;
                    let cs = match c {
                        None => P.to_string(),
                        Some(c) => {
                            // consistency of the derived comparisons with cmp and ==
                            let rev = guarded(|| b.cmp(a));
                            let ok = (c == Ordering::Equal) == eq
                                && a.partial_cmp(b) == Some(c)
                                && rev == Some(c.reverse())
                                && (a < b) == (c == Ordering::Less)
                                && (a <= b) == (c != Ordering::Greater)
                                && (a > b) == (c == Ordering::Greater)
                                && (a != b) == !eq;
                            if ok { ord(c).to_string() } else { "ORDER-INCONSISTENT".to_string() }
                        }
                    };
                    format!("{} {} {} {}", show(a), show(b), cs, b01(eq))
                }
                _ => format!("{} {} - -", so(&x), so(&y)),
            }
        }
        "rhist" => {
            let mut cur = match operand!(t[2], t[3]) {
                None => return P.into(),
                Some(x) => x,
            };
            let mut outs = vec![show(&cur)];
            let mut k = 4;
            while k < t.len() {
                let op = t[k];
                let res = if op == "neg" || op == "inv" {
                    k += 1;
                    ratio_step(&cur, op, None)
                } else {
                    let rhs = operand!(t[k + 1], t[k + 2]);
                    k += 3;
                    match rhs {
                        None => None,
                        Some(r) => ratio_step(&cur, op, Some(&r)),
                    }
                };
                match res {
                    Some(x) => {
                        outs.push(show(&x));
                        cur = x;
                    }
                    None => outs.push(P.into()),
                }
            }
            outs.join(" ")
        }
        _ => panic!("bad ratio case"),
    }
}

// ------------------------------------------------------------------------------------------------
// F_p, F_2
// ------------------------------------------------------------------------------------------------
fn run_ff<const Q: i32>(t: &[&str]) -> String {
    let show = |x: &FF<Q>| x.rep().to_string();
    let parse = |s: &str| s.parse::<i32>();
    if t[0] == "ff" {
        let (a, b) = match (parse(t[3]), parse(t[4])) {
            (Ok(a), Ok(b)) => (a, b),
            _ => return "UNREPRESENTABLE".into(),
        };
        let (x, y) = match (guarded(|| FF::<Q>::new(a)), guarded(|| FF::<Q>::from(b))) {
            (Some(x), Some(y)) => (x, y),
            _ => return P.into(),
        };
        format!("{} {} {} {}", show(&x), show(&y), euc_bin(t[2], &x, &y, &show), b01(x == y))
    } else {
        let a = match parse(t[3]) {
            Ok(a) => a,
            _ => return "UNREPRESENTABLE".into(),
        };
        let x = match guarded(|| FF::<Q>::new(a)) {
            Some(x) => x,
            None => return P.into(),
        };
        let r = match t[2] {
            "neg" => ring_neg(&x, &show),
            "inv" => match guarded(|| x.inv()) {
                None => P.into(),
                Some(None) => "N".into(),
                Some(Some(y)) => show(&y),
            },
            "pred" => format!("{}{}", b01(x.is_zero()), b01(x.is_one())),
            _ => panic!("bad ff1 op"),
        };
        format!("{} {}", show(&x), r)
    }
}

fn dispatch_ff(t: &[&str]) -> String {
    match t[1] {
        "2" => run_ff::<2>(t),
        "3" => run_ff::<3>(t),
        "5" => run_ff::<5>(t),
        "7" => run_ff::<7>(t),
        "251" => run_ff::<251>(t),
        "46337" => run_ff::<46337>(t),
        "46349" => run_ff::<46349>(t),
        "65537" => run_ff::<65537>(t),
        "2147483647" => run_ff::<2147483647>(t),
        "0" => run_ff::<0>(t),
        "-5" => run_ff::<{ -5 }>(t),
        _ => panic!("unsupported modulus"),
    }
}

fn run_f2(t: &[&str]) -> String {
    let show = |x: &FF2| x.to_string();
    let mk = |s: &str| FF2::from(if s == "1" { 1i64 } else { 0i64 });
    match t[0] {
        "f2" => euc_bin(t[1], &mk(t[2]), &mk(t[3]), &show),
        "f2u" => {
            let a = mk(t[1]);
            let inv = match a.inv() {
                Some(x) => show(&x),
                None => "N".into(),
            };
            format!("{} {} {}{}", ring_neg(&a, &show), inv, b01(a.is_zero()), b01(a.is_one()))
        }
        "f2from" => {
            let big: BigInt = t[1].parse().unwrap();
            let viabig = guarded(|| FF2::from(big.clone())).map(|x| show(&x)).unwrap_or(P.into());
            // the machine-integer conversions must agree with the BigInt one whenever they apply
            if let Ok(x) = t[1].parse::<i64>() {
                if show(&FF2::from(x)) != viabig || show(&FF2::from(x as i128)) != viabig {
                    return "FORMS-DIFFER".into();
                }
            }
            viabig
        }
        _ => panic!("bad f2 case"),
    }
}

// ------------------------------------------------------------------------------------------------
// quadratic integers
// ------------------------------------------------------------------------------------------------
fn run_quad<T, const D: i32>(t: &[&str]) -> String
where T: Integer + FromStr + Display, for<'x> &'x T: IntOps<T> {
    let show = |z: &QuadInt<T, D>| format!("{},{}", z.left(), z.right());
    let parse = |s: &str| s.parse::<T>();
    let mk = |a: T, b: T| guarded(|| QuadInt::<T, D>::new(a, b));
    if t[0] == "quad" {
        let (a, b, c, d) = match (parse(t[4]), parse(t[5]), parse(t[6]), parse(t[7])) {
            (Ok(a), Ok(b), Ok(c), Ok(d)) => (a, b, c, d),
            _ => return "UNREPRESENTABLE".into(),
        };
        let (x, y) = match (mk(a, b), mk(c, d)) {
            (Some(x), Some(y)) => (x, y),
            _ => return P.into(),
        };
        match t[3] {
            "eq" => b01(x == y).to_string(),
            op => ring_bin::<QuadInt<T, D>>(op, &x, &y, &show),
        }
    } else {
        let (a, b) = match (parse(t[4]), parse(t[5])) {
            (Ok(a), Ok(b)) => (a, b),
            _ => return "UNREPRESENTABLE".into(),
        };
        if t[3] == "new" {
            return mk(a, b).map(|z| show(&z)).unwrap_or(P.into());
        }
        let x = match mk(a, b) {
            Some(x) => x,
            None => return P.into(),
        };
        match t[3] {
            "neg" => ring_neg::<QuadInt<T, D>>(&x, &show),
            "conj" => guarded(|| x.conj()).map(|z| show(&z)).unwrap_or(P.into()),
            "norm" => guarded(|| x.norm()).map(|z| z.to_string()).unwrap_or(P.into()),
            "pred" => format!("{}{}", b01(x.is_zero()), b01(x.is_one())),
            _ => panic!("bad quad1 op"),
        }
    }
}

fn dispatch_quad<T>(t: &[&str]) -> String
where T: Integer + FromStr + Display, for<'x> &'x T: IntOps<T> {
    match t[2] {
        "-1" => {
            // the aliases are the same types
            let _: Option<GaussInt<T>> = None::<QuadInt<T, -1>>;
            run_quad::<T, -1>(t)
        }
        "-3" => {
            let _: Option<EisenInt<T>> = None::<QuadInt<T, -3>>;
            run_quad::<T, -3>(t)
        }
        "-2" => run_quad::<T, -2>(t),
        "-7" => run_quad::<T, -7>(t),
        "2" => run_quad::<T, 2>(t),
        "3" => run_quad::<T, 3>(t),
        "5" => run_quad::<T, 5>(t),
        "4" => run_quad::<T, 4>(t),
        "-4" => run_quad::<T, -4>(t),
        _ => panic!("unsupported D"),
    }
}

// ------------------------------------------------------------------------------------------------
fn run_case(line: &str) -> String {
    guarded(|| run_case_inner(line)).unwrap_or("TOP-PANIC".into())
}

fn run_case_inner(line: &str) -> String {
    let t: Vec<&str> = line.split_whitespace().collect();
    macro_rules! by_type {
        ($f:ident, $ty:expr) => {
            match $ty {
                "i32" => $f::<i32>(&t),
                "i64" => $f::<i64>(&t),
                "i128" => $f::<i128>(&t),
                "big" => $f::<BigInt>(&t),
                _ => panic!("bad type"),
            }
        };
    }
    match t[0] {
        "int" | "int1" => by_type!(run_int, t[1]),
        "rnew" | "rfrom" | "rbin" | "run" | "rcmp" | "rhist" => by_type!(run_ratio, t[1]),
        "ff" | "ff1" => dispatch_ff(&t),
        "f2" | "f2u" | "f2from" => run_f2(&t),
        "quad" | "quad1" => by_type!(dispatch_quad, t[1]),
        _ => panic!("bad case {}", line),
    }
}

// ------------------------------------------------------------------------------------------------
// generators (BigInt is used only as a decimal calculator here)
// ------------------------------------------------------------------------------------------------
#[derive(Clone, Copy, PartialEq)]
enum Ty {
    I32,
    I64,
    I128,
    Big,
}
impl Ty {
    fn name(self) -> &'static str {
        match self {
            Ty::I32 => "i32",
            Ty::I64 => "i64",
            Ty::I128 => "i128",
            Ty::Big => "big",
        }
    }
    fn bits(self) -> Option<u32> {
        match self {
            Ty::I32 => Some(32),
            Ty::I64 => Some(64),
            Ty::I128 => Some(128),
            Ty::Big => None,
        }
    }
    fn fits(self, x: &BigInt) -> bool {
        match self.bits() {
            None => true,
            Some(b) => {
                let m = BigInt::one() << (b - 1);
                *x >= -&m && *x < m
            }
        }
    }
}

fn pow2(k: u32) -> BigInt {
    BigInt::one() << k
}
fn rand_bits(r: &mut Rng, bits: u32) -> BigInt {
    // uniform in [0, 2^bits)
    let mut x = BigInt::zero();
    let mut left = bits;
    while left > 0 {
        let k = left.min(32);
        x = (x << k) + BigInt::from(r.below(1u64 << k));
        left -= k;
    }
    x
}
fn sign(r: &mut Rng, x: BigInt) -> BigInt {
    if r.bool() { x } else { -x }
}
const SMALL_PRIMES: [i64; 10] = [2, 3, 5, 7, 11, 13, 17, 19, 23, 29];

/// one boundary-biased integer that fits the type
fn gen_int(r: &mut Rng, ty: Ty) -> BigInt {
    for _ in 0..20 {
        let k = BigInt::from(r.range(-3, 3));
        let x = match r.below(16) {
            0 => BigInt::zero(),
            1 => sign(r, BigInt::one()),
            2 | 3 => BigInt::from(r.range(-20, 20)),
            4 => sign(r, pow2(31) + k),
            5 => sign(r, pow2(53) + k),
            6 => sign(r, pow2(63) - k.abs()),
            7 => match ty {
                Ty::I32 => sign(r, BigInt::from(46340) + k), // floor(sqrt(2^31))
                Ty::I64 => sign(r, BigInt::from(3037000499i64) + k), // floor(sqrt(2^63))
                _ => sign(r, pow2(64) + k),
            },
            8 => match ty {
                Ty::I32 => sign(r, pow2(31) - k.abs()),
                Ty::I64 => sign(r, pow2(32) + k),
                _ => sign(r, pow2(127) - k.abs()),
            },
            9 => match ty {
                Ty::I32 => {
                    let e = if r.bool() { 30 } else { 16 };
                    sign(r, pow2(e) + k)
                }
                Ty::I64 => sign(r, pow2(62) + k),
                Ty::I128 => sign(r, BigInt::from(13043817825332782212u64) + k), // floor(sqrt(2^127))
                Ty::Big => {
                    let digits = 100 + r.below(201) as u32;
                    let x = rand_bits(r, (digits as f64 * 3.3219) as u32);
                    sign(r, x)
                }
            },
            10 => {
                // smooth number: shares factors with other operands
                let mut x = BigInt::one();
                for _ in 0..(1 + r.below(8)) {
                    x *= BigInt::from(*r.pick(&SMALL_PRIMES));
                }
                sign(r, x)
            }
            11 | 12 => {
                let maxb = match ty {
                    Ty::I32 => 31,
                    Ty::I64 => 63,
                    Ty::I128 => 127,
                    Ty::Big => 200,
                };
                let b = 1 + r.below(maxb) as u32;
                let x = rand_bits(r, b);
                sign(r, x)
            }
            13 => {
                let x = rand_bits(r, 31);
                sign(r, x)
            }
            _ => BigInt::from(r.range(-1000, 1000)),
        };
        if ty.fits(&x) {
            return x;
        }
    }
    BigInt::from(r.range(-5, 5))
}

/// a medium-size integer (products of two or three of them fit i64)
fn gen_mid(r: &mut Rng, ty: Ty) -> BigInt {
    let x = match r.below(6) {
        0 => BigInt::from(r.range(-12, 12)),
        1 => {
            let mut x = BigInt::one();
            for _ in 0..(1 + r.below(5)) {
                x *= BigInt::from(*r.pick(&SMALL_PRIMES));
            }
            sign(r, x)
        }
        2 => BigInt::from(r.range(-100000, 100000)),
        3 => {
            let x = rand_bits(r, 20);
            sign(r, x)
        }
        _ => {
            let b = match ty {
                Ty::I32 => 14,
                Ty::I64 => 30,
                Ty::I128 => 60,
                Ty::Big => 90,
            };
            let nb = 1 + r.below(b) as u32;
            let x = rand_bits(r, nb);
            sign(r, x)
        }
    };
    x
}

fn nz(x: BigInt) -> BigInt {
    if x.is_zero() { BigInt::one() } else { x }
}

/// a pair of rationals (n1, d1, n2, d2), structured
fn gen_ratio_pair(r: &mut Rng, ty: Ty) -> [BigInt; 4] {
    let fit = |x: BigInt, ty: Ty| if ty.fits(&x) { x } else { BigInt::from(7) };
    match r.below(14) {
        0 => [gen_int(r, ty), nz(gen_int(r, ty)), gen_int(r, ty), nz(gen_int(r, ty))],
        1 => [gen_mid(r, ty), nz(gen_mid(r, ty)), gen_mid(r, ty), nz(gen_mid(r, ty))],
        2 => {
            // shared denominator
            let d = nz(gen_mid(r, ty));
            [gen_mid(r, ty), d.clone(), gen_mid(r, ty), d]
        }
        3 => {
            // denominators with a common factor
            let g = nz(gen_mid(r, ty));
            let (x, y) = (nz(BigInt::from(r.range(-50, 50))), nz(BigInt::from(r.range(-50, 50))));
            [gen_mid(r, ty), fit(&g * x, ty), gen_mid(r, ty), fit(&g * y, ty)]
        }
        4 => {
            // the sum is an integer: a/d + (k d - a)/d
            let d = nz(gen_mid(r, ty));
            let a = gen_mid(r, ty);
            let k = BigInt::from(r.range(-5, 5));
            [a.clone(), d.clone(), fit(k * &d - a, ty), d]
        }
        5 => {
            // equal values in different representations: difference 0, quotient 1
            let (n, d) = (gen_mid(r, ty), nz(gen_mid(r, ty)));
            let k = nz(BigInt::from(r.range(-9, 9)));
            [n.clone(), d.clone(), fit(&n * &k, ty), fit(&d * &k, ty)]
        }
        6 => {
            // opposite values: sum 0
            let (n, d) = (gen_mid(r, ty), nz(gen_mid(r, ty)));
            [n.clone(), d.clone(), -n, d]
        }
        7 => {
            // reciprocal values: product 1
            let (n, d) = (nz(gen_mid(r, ty)), nz(gen_mid(r, ty)));
            [n.clone(), d.clone(), d, n]
        }
        8 => {
            // the product is an integer: (n / d) * (d k / m) with m | n
            let (m, q, d) = (nz(gen_mid(r, ty)), gen_mid(r, ty), nz(gen_mid(r, ty)));
            let k = BigInt::from(r.range(-9, 9));
            [fit(&m * q, ty), d.clone(), fit(d * k, ty), m]
        }
        9 => {
            // integers and unit fractions
            let a = gen_int(r, ty);
            let b = gen_int(r, ty);
            match r.below(3) {
                0 => [a, BigInt::one(), b, BigInt::one()],
                1 => [a, BigInt::one(), BigInt::one(), nz(b)],
                _ => [BigInt::one(), nz(a), b, BigInt::one()],
            }
        }
        10 => {
            // near-equal: p/q and (p k +- 1)/(q k)
            let (p, q) = (gen_int(r, ty), nz(gen_mid(r, ty)));
            let k = nz(BigInt::from(r.range(1, 1000)));
            let e = BigInt::from(r.range(-1, 1));
            [p.clone(), q.clone(), fit(&p * &k + e, ty), fit(q * k, ty)]
        }
        11 => {
            // consecutive integers beyond 2^53 (the old f64 comparison could not tell them apart)
            let e0 = if ty == Ty::I32 { 22 + r.below(8) as u32 } else { 53 + r.below(9) as u32 };
            let k0 = BigInt::from(r.range(-2, 2));
            let p = sign(r, pow2(e0) + k0);
            let e = BigInt::from(r.range(-1, 1));
            let q = nz(BigInt::from(r.range(1, 3)));
            [p.clone(), q.clone(), &p + e, q]
        }
        12 => {
            // large numerators over small denominators (machine limits)
            let d1 = nz(BigInt::from(r.range(-6, 6)));
            let d2 = nz(BigInt::from(r.range(-6, 6)));
            [gen_int(r, ty), d1, gen_int(r, ty), d2]
        }
        _ => {
            // zero and one
            let z = [BigInt::zero(), nz(gen_mid(r, ty))];
            let o = {
                let d = nz(gen_mid(r, ty));
                [d.clone(), d]
            };
            let x = [gen_int(r, ty), nz(gen_mid(r, ty))];
            match r.below(4) {
                0 => [z[0].clone(), z[1].clone(), x[0].clone(), x[1].clone()],
                1 => [x[0].clone(), x[1].clone(), z[0].clone(), z[1].clone()],
                2 => [o[0].clone(), o[1].clone(), x[0].clone(), x[1].clone()],
                _ => [x[0].clone(), x[1].clone(), o[0].clone(), o[1].clone()],
            }
        }
    }
}

fn gen_hist(r: &mut Rng, ty: Ty) -> String {
    // operand sizes are kept small so that a 30-step history stays within reach of the machine types
    let small = |r: &mut Rng| -> (BigInt, BigInt) {
        match r.below(8) {
            0 => (BigInt::from(r.range(-3, 3)), BigInt::one()),
            1 => (BigInt::one(), nz(BigInt::from(r.range(-9, 9)))),
            2 => (gen_mid(r, ty), nz(gen_mid(r, ty))),
            3 => (BigInt::from(r.range(-30, 30)), BigInt::from(r.range(-3, 12))), // sometimes a zero denominator
            _ => {
                let mut d = BigInt::one();
                for _ in 0..(r.below(3)) {
                    d *= BigInt::from(*r.pick(&SMALL_PRIMES[..5]));
                }
                (BigInt::from(r.range(-40, 40)), sign(r, d))
            }
        }
    };
    let (n0, d0) = small(r);
    let mut line = format!("rhist {} {} {}", ty.name(), n0, nz(d0));
    let maxops = if r.chance(1, 3) { 40 } else { 16 };
    let nops = 1 + r.below(maxops);
    for _ in 0..nops {
        match r.below(12) {
            0 => line.push_str(" neg"),
            1 => line.push_str(" inv"),
            k => {
                let (n, d) = small(r);
                let op = match k {
                    2 | 3 | 4 => "add",
                    5 | 6 | 7 => "sub",
                    8 | 9 | 10 => "mul",
                    _ => "div",
                };
                line.push_str(&format!(" {} {} {}", op, n, d));
            }
        }
    }
    line
}

const FF_MODULI: [i64; 9] = [2, 3, 5, 7, 251, 46337, 46349, 65537, 2147483647];

fn gen_i32(r: &mut Rng, p: i64) -> i64 {
    let x = match r.below(10) {
        0 => 0,
        1 => r.range(-2, 2),
        2 => p + r.range(-2, 2),
        3 => -p + r.range(-2, 2),
        4 => i32::MAX as i64 - r.range(0, 2),
        5 => i32::MIN as i64 + r.range(0, 2),
        6 => p * r.range(-3, 3) + r.range(-1, 1),
        7 => r.range(0, p - 1),
        8 => p - 1 - r.range(0, 3.min(p - 1)),
        _ => r.range(i32::MIN as i64, i32::MAX as i64),
    };
    x.clamp(i32::MIN as i64, i32::MAX as i64)
}

const QUAD_DS: [i32; 7] = [-1, -3, -1, -3, 2, 5, -7];

fn main() {
    quiet_panics();
    match parse_args() {
        Mode::Replay { file, out } => {
            let mut o = Out::new(&out);
            for l in read_lines(&file) {
                let res = run_case(&l);
                o.case(&l, &res);
            }
            o.finish();
        }
        Mode::Gen { seed, thorough, out } => {
            let mut o = Out::new(&out);
            let mut r = Rng::new(seed);
            let emit = |o: &mut Out, c: String| {
                let res = run_case(&c);
                o.case(&c, &res);
            };
            let scale = |q: usize, t: usize| if thorough { t } else { q };
            let tys = [Ty::I32, Ty::I64, Ty::I128, Ty::Big];

            // 0. fixed boundary cases (corpus)
            for c in [
                "rnew i32 -2147483648 3",
                "rnew i32 -2147483648 -1",
                "rnew i32 7 -2147483648",
                "rbin i32 add 1 46341 1 46342",
                "rbin i32 mul 46340 1 46341 1",
                "rcmp i32 2147483647 2 2147483646 2",
                "int i32 gcd -2147483648 0",
                "int i32 div -2147483648 -1",
                "int1 i32 unit -2147483648",
                "quad i32 -1 mul 32768 1 32768 1",
                "rnew i64 -9223372036854775808 3",
                "rnew i64 -9223372036854775808 1",
                "rnew i64 -9223372036854775808 -1",
                "rnew i64 5 -9223372036854775808",
                "rnew i64 -9223372036854775808 -9223372036854775808",
                "rnew i64 0 -9223372036854775808",
                "rnew i64 0 0",
                "rnew big 0 0",
                "rbin i64 sub -9223372036854775807 3 1 3",
                "rbin i64 add 9223372036854775807 1 1 1",
                "rbin i64 add 4611686018427387904 1 4611686018427387903 1",
                "rbin i64 mul 3037000499 1 3037000499 1",
                "rbin i64 mul 3037000500 1 3037000500 1",
                "rbin i64 add 1 3037000500 1 3037000501",
                "rbin i64 add 1 4294967296 1 4294967297",
                "rcmp i64 9007199254740993 1 9007199254740992 1",
                "rcmp big 9007199254740993 1 9007199254740992 1",
                "rcmp i64 9223372036854775807 2 9223372036854775806 2",
                "rcmp i64 9223372036854775807 2 9223372036854775805 3",
                "rcmp i128 170141183460469231731687303715884105727 1 170141183460469231731687303715884105726 1",
                "int i64 gcd -9223372036854775808 0",
                "int i64 gcd -9223372036854775808 -9223372036854775808",
                "int i64 gcd -9223372036854775808 6",
                "int i64 lcm -9223372036854775808 1",
                "int i64 div -9223372036854775808 -1",
                "int i64 rem -9223372036854775808 -1",
                "int i128 rem -170141183460469231731687303715884105728 -1",
                "int1 i64 unit -9223372036854775808",
                "int1 i64 neg -9223372036854775808",
                "quad i64 -3 mul 1 3 2 -1",
                "quad i64 -1 mul 1 3 2 -1",
                "quad i64 -1 mul 3037000500 1 3037000500 1",
                "quad1 i64 4 new 1 2",
                "quad1 big -4 new 1 2",
                "ff 0 add 1 2",
                "ff -5 add 1 2",
                "ff 2147483647 add 2147483646 2147483646",
                "ff 46349 mul 46348 46348",
                "ff 46337 mul 46336 46336",
                "f2from 9223372036854775808",
                "f2from -9223372036854775809",
                "f2from -9223372036854775808",
            ] {
                emit(&mut o, c.to_string());
            }

            // 1. integers: every operator in all forms
            for &ty in &tys {
                let n = match ty {
                    Ty::Big => scale(3000, 20000),
                    _ => scale(8000, 80000),
                };
                for _ in 0..n {
                    let (a, b) = match r.below(4) {
                        0 => {
                            // sums / products that land next to the machine limit
                            let a = gen_int(&mut r, ty);
                            let lim = match ty {
                                Ty::I32 => pow2(31),
                                Ty::I64 => pow2(63),
                                Ty::I128 => pow2(127),
                                Ty::Big => pow2(200),
                            };
                            let b = sign(&mut r, lim) - &a + BigInt::from(r.range(-2, 2));
                            (a.clone(), if ty.fits(&b) { b } else { a })
                        }
                        1 => {
                            // a multiple pair (exact division, gcd = |b|)
                            let b = gen_mid(&mut r, ty);
                            let a = &b * gen_mid(&mut r, ty);
                            (if ty.fits(&a) { a } else { b.clone() }, b)
                        }
                        _ => (gen_int(&mut r, ty), gen_int(&mut r, ty)),
                    };
                    let op = *r.pick(&["add", "sub", "mul", "add", "sub", "mul", "div", "rem", "gcd", "lcm"]);
                    emit(&mut o, format!("int {} {} {} {}", ty.name(), op, a, b));
                }
                for _ in 0..scale(600, 4000) {
                    let a = gen_int(&mut r, ty);
                    let op = *r.pick(&["neg", "neg", "unit", "nunit", "inv", "zero"]);
                    emit(&mut o, format!("int1 {} {} {}", ty.name(), op, a));
                }
                // the extreme values themselves
                if let Some(b) = ty.bits() {
                    let (mn, mx) = (-pow2(b - 1), pow2(b - 1) - 1);
                    for a in [&mn, &mx, &(&mn + 1), &BigInt::zero(), &BigInt::one(), &-BigInt::one()] {
                        for op in ["neg", "unit", "nunit", "inv", "zero"] {
                            emit(&mut o, format!("int1 {} {} {}", ty.name(), op, a));
                        }
                        for c in [&mn, &mx, &BigInt::zero(), &BigInt::one(), &-BigInt::one(), &BigInt::from(2)] {
                            for op in ["add", "sub", "mul", "div", "rem", "gcd", "lcm"] {
                                emit(&mut o, format!("int {} {} {} {}", ty.name(), op, a, c));
                            }
                        }
                    }
                }
            }

            // 2. rationals
            for &ty in &tys {
                let n = match ty {
                    Ty::Big => scale(6000, 40000),
                    _ => scale(20000, 160000),
                };
                for _ in 0..n {
                    let [n1, d1, n2, d2] = gen_ratio_pair(&mut r, ty);
                    let c = match r.below(20) {
                        0 => format!("rnew {} {} {}", ty.name(), n1, if r.chance(1, 10) { BigInt::zero() } else { d1 }),
                        1 => format!("rfrom {} {}", ty.name(), n1),
                        2 => format!("run {} {} {} {}", ty.name(), r.pick(&["neg", "inv", "abs", "pred"]), n1, d1),
                        3 | 4 | 5 | 6 => format!("rcmp {} {} {} {} {}", ty.name(), n1, d1, n2, d2),
                        k => {
                            let op = match k % 4 {
                                0 => "add",
                                1 => "sub",
                                2 => "mul",
                                _ => "div",
                            };
                            format!("rbin {} {} {} {} {} {}", ty.name(), op, n1, d1, n2, d2)
                        }
                    };
                    emit(&mut o, c);
                }
                // histories
                let nh = match ty {
                    Ty::Big => scale(1000, 8000),
                    _ => scale(4000, 30000),
                };
                for _ in 0..nh {
                    let c = gen_hist(&mut r, ty);
                    emit(&mut o, c);
                }
                // small exhaustive sweep: all operators on all pairs of small fractions
                if ty == Ty::I64 || thorough {
                    let rng: Vec<i64> = (-3..=3).collect();
                    for &n1 in &rng {
                        for d1 in [1i64, 2, 3, -2] {
                            for &n2 in &rng {
                                for d2 in [1i64, 2, 3, 6, -1] {
                                    for op in ["add", "sub", "mul", "div"] {
                                        emit(&mut o, format!("rbin {} {} {} {} {} {}", ty.name(), op, n1, d1, n2, d2));
                                    }
                                    emit(&mut o, format!("rcmp {} {} {} {} {}", ty.name(), n1, d1, n2, d2));
                                }
                            }
                        }
                    }
                }
            }

            // 3. F_p: exhaustive for the small moduli, sampled for the large ones
            for p in [2i64, 3, 5, 7] {
                for a in -p - 1..=2 * p + 1 {
                    for op in ["neg", "inv", "pred"] {
                        emit(&mut o, format!("ff1 {} {} {}", p, op, a));
                    }
                    for b in -p - 1..=2 * p + 1 {
                        for op in ["add", "sub", "mul", "div"] {
                            emit(&mut o, format!("ff {} {} {} {}", p, op, a, b));
                        }
                    }
                }
            }
            for &p in &FF_MODULI {
                for _ in 0..scale(2000, 15000) {
                    let (a, b) = (gen_i32(&mut r, p), gen_i32(&mut r, p));
                    let c = match r.below(8) {
                        0 => format!("ff1 {} neg {}", p, a),
                        1 | 2 => format!("ff1 {} inv {}", p, a),
                        3 => format!("ff1 {} pred {}", p, a),
                        k => format!("ff {} {} {} {}", p, ["add", "sub", "mul", "div"][(k % 4) as usize], a, b),
                    };
                    emit(&mut o, c);
                }
            }
            if thorough {
                // every residue of the largest supported prime has the inverse the model computes
                for a in 0..46337i64 {
                    emit(&mut o, format!("ff1 46337 inv {}", a));
                }
            } else {
                for a in 0..251i64 {
                    emit(&mut o, format!("ff1 251 inv {}", a));
                }
            }
            for p in ["0", "-5"] {
                for op in ["add", "mul"] {
                    emit(&mut o, format!("ff {} {} 1 2", p, op));
                }
                emit(&mut o, format!("ff1 {} neg 1", p));
            }

            // 4. F_2
            for a in ["0", "1"] {
                emit(&mut o, format!("f2u {}", a));
                for b in ["0", "1"] {
                    for op in ["add", "sub", "mul", "div", "rem"] {
                        if op != "rem" {
                            emit(&mut o, format!("f2 {} {} {}", op, a, b));
                        }
                    }
                }
            }
            for _ in 0..scale(300, 2000) {
                let ty = *r.pick(&tys);
                let a = gen_int(&mut r, ty);
                emit(&mut o, format!("f2from {}", a));
            }

            // 5. quadratic integers
            for &ty in &tys {
                let n = match ty {
                    Ty::Big => scale(4000, 25000),
                    _ => scale(10000, 80000),
                };
                for _ in 0..n {
                    let d = *r.pick(&QUAD_DS);
                    let mut v: Vec<BigInt> = (0..4)
                        .map(|_| match r.below(5) {
                            0 => BigInt::zero(),
                            1 | 2 => gen_mid(&mut r, ty),
                            _ => gen_int(&mut r, ty),
                        })
                        .collect();
                    if r.chance(1, 6) {
                        // products next to the machine limit: components around sqrt(limit / 2)
                        let b = match ty {
                            Ty::I32 => 15,
                            Ty::I64 => 31,
                            Ty::I128 => 63,
                            Ty::Big => 100,
                        };
                        for x in v.iter_mut() {
                            let k0 = BigInt::from(r.range(-1000, 1000));
                            *x = sign(&mut r, pow2(b) + k0);
                            if r.chance(1, 4) {
                                *x = BigInt::from(r.range(-3, 3));
                            }
                        }
                    }
                    let c = match r.below(12) {
                        0 => format!("quad1 {} {} neg {} {}", ty.name(), d, v[0], v[1]),
                        1 => format!("quad1 {} {} conj {} {}", ty.name(), d, v[0], v[1]),
                        2 => format!("quad1 {} {} norm {} {}", ty.name(), d, v[0], v[1]),
                        3 => format!("quad1 {} {} pred {} {}", ty.name(), d, r.range(-1, 1), r.range(-1, 1)),
                        4 => format!("quad {} {} add {} {} {} {}", ty.name(), d, v[0], v[1], v[2], v[3]),
                        5 => format!("quad {} {} sub {} {} {} {}", ty.name(), d, v[0], v[1], v[2], v[3]),
                        6 => {
                            if r.bool() {
                                format!("quad {} {} eq {} {} {} {}", ty.name(), d, v[0], v[1], v[0], v[1])
                            } else {
                                format!("quad {} {} eq {} {} {} {}", ty.name(), d, v[0], v[1], v[2], v[1])
                            }
                        }
                        _ => format!("quad {} {} mul {} {} {} {}", ty.name(), d, v[0], v[1], v[2], v[3]),
                    };
                    emit(&mut o, c);
                }
                // exhaustive small sweep of the product (all shortcut branches) for every modelled D
                if ty != Ty::I128 || thorough {
                    for d in [-1, -3, 2, 3, 5, -2, -7] {
                        for a in -2..=2 {
                            for b in -2..=2 {
                                for c in -2..=2 {
                                    for e in -2..=2 {
                                        emit(&mut o, format!("quad {} {} mul {} {} {} {}", ty.name(), d, a, b, c, e));
                                    }
                                }
                                emit(&mut o, format!("quad1 {} {} conj {} {}", ty.name(), d, a, b));
                                emit(&mut o, format!("quad1 {} {} norm {} {}", ty.name(), d, a, b));
                            }
                        }
                    }
                }
                for d in [4, -4] {
                    emit(&mut o, format!("quad1 {} {} new 1 2", ty.name(), d));
                }
            }
            o.finish();
        }
    }
}
