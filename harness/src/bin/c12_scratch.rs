//! throw-away: mutated copies of the solver / Schur code (public API only), ring Z, to test the C12 check
use std::cell::RefCell;
use std::sync::Arc;
use rayon::prelude::*;
use yui_matrix::sparse::triang::{solve_triangular, TriangularType};
use yui_matrix::sparse::{SpMat, SpVec};
use yui_matrix::MatTrait;
use yui_verif_harness::*;
type T = i64;

fn collect_diag(a: &SpMat<T>) -> Vec<T> { a.iter().filter_map(|(i, j, a)| if i == j { Some(*a) } else { None }).collect() }
fn copy_into(vec: SpVec<T>, x: &mut [T]) { vec.iter().for_each(|(i, r)| x[i] = *r) }

fn solve_core(mutant: u32, upper: bool, a: &SpMat<T>, diag: &[T], b: &mut [T]) -> SpVec<T> {
    let mut entries = vec![];
    let n = diag.len();
    let order: Vec<usize> = if upper { (0..n).rev().collect() } else { (0..n).collect() };
    for j in order {
        let u = diag[j];
        if b[j] == 0 { continue }
        let uinv = if u == 1 || u == -1 { u } else { panic!() };
        let x_j = b[j] * uinv;
        for (i, a_ij) in a.col_vec(j).iter() {
            if *a_ij == 0 { continue }
            if mutant == 1 && i == j { continue }          // leaves b[j] non-zero
            if mutant == 2 && i != j && *a_ij == u { continue } // skips stored entries equal to the diagonal
            b[i] -= a_ij * x_j;
        }
        entries.push((j, x_j));
    }
    if upper { entries.reverse() }
    SpVec::from_sorted_entries(a.ncols(), entries)
}

fn solve_m(mutant: u32, upper: bool, a: &SpMat<T>, y: &SpMat<T>) -> SpMat<T> {
    assert_eq!(a.nrows(), y.nrows());
    let (n, k) = (a.nrows(), y.ncols());
    let diag = collect_diag(a);
    let tl_b = Arc::new(thread_local_lite::TL::new());
    let cols = (0..k).into_par_iter().map(|j| {
        let cell = tl_b.get_or(|| RefCell::new(vec![0; n]));
        let mut b = cell.borrow_mut();
        copy_into(y.col_vec(j), &mut b);
        solve_core(mutant, upper, a, &diag, &mut b)
    }).collect::<Vec<_>>();
    SpMat::from_col_vecs(n, cols)
}

/// minimal per-thread storage keyed by rayon's thread index (the harness crate has no thread_local dependency)
mod thread_local_lite {
    use std::cell::RefCell;
    use std::sync::Mutex;
    pub struct TL { slots: Mutex<Vec<(usize, &'static RefCell<Vec<i64>>)>> }
    unsafe impl Sync for TL {}
    unsafe impl Send for TL {}
    impl TL {
        pub fn new() -> Self { TL { slots: Mutex::new(vec![]) } }
        pub fn get_or(&self, f: impl FnOnce() -> RefCell<Vec<i64>>) -> &'static RefCell<Vec<i64>> {
            let id = rayon::current_thread_index().unwrap_or(usize::MAX);
            let mut s = self.slots.lock().unwrap();
            if let Some(e) = s.iter().find(|e| e.0 == id) { return e.1 }
            let r: &'static RefCell<Vec<i64>> = Box::leak(Box::new(f()));
            s.push((id, r));
            r
        }
    }
}

fn schur_s(mutant: u32, upper: bool, m: &SpMat<T>, r: usize) -> SpMat<T> {
    let t = if upper { TriangularType::Upper } else { TriangularType::Lower };
    let [a, b, c, d] = m.divide4((r, r));
    let ainvb = solve_triangular(t, &a, &b);
    let (mm, n) = d.shape();
    let vecs = (0..n).into_par_iter().map(|j| {
        let x = &c * ainvb.col_vec(j);
        let y = d.col_vec(j);
        if mutant == 3 { y + x } else { y - x }
    }).collect::<Vec<_>>();
    SpMat::from_col_vecs(mm, vecs)
}

struct Cur<'a> { t: &'a [&'a str], k: usize }
impl<'a> Cur<'a> {
    fn next(&mut self) -> &'a str { let s = self.t[self.k]; self.k += 1; s }
    fn usize(&mut self) -> usize { self.next().parse().unwrap() }
}
fn parse_mat(c: &mut Cur) -> SpMat<T> {
    let (m, n, nnz) = (c.usize(), c.usize(), c.usize());
    let mut cols: Vec<Vec<(usize, T)>> = vec![vec![]; n];
    for _ in 0..nnz { let (i, j) = (c.usize(), c.usize()); let v: T = c.next().parse().unwrap(); cols[j].push((i, v)); }
    SpMat::from_col_vecs(m, cols.into_iter().map(|e| SpVec::from_sorted_entries(m, e)))
}
fn str_mat(a: &SpMat<T>) -> String {
    let mut s = format!("{} {} {}", a.nrows(), a.ncols(), a.nnz());
    for (i, j, v) in a.iter() { s.push_str(&format!(" {} {} {}", i, j, v)); }
    s
}

fn main() {
    quiet_panics();
    let a: Vec<String> = std::env::args().collect();
    let mutant: u32 = a[1].parse().unwrap();
    let threads: usize = a[2].parse().unwrap();
    let pool = rayon::ThreadPoolBuilder::new().num_threads(threads).build().unwrap();
    for l in read_lines(std::path::Path::new(&a[3])) {
        let t: Vec<&str> = l.split_whitespace().collect();
        if t[1] != "Z" || !(t[0] == "solve" || t[0] == "schur") { println!("SKIP"); continue }
        let mut c = Cur { t: &t, k: 2 };
        let upper = c.next() == "U";
        let res = if t[0] == "solve" {
            let a = parse_mat(&mut c); let y = parse_mat(&mut c);
            pool.install(|| guarded(|| str_mat(&solve_m(mutant, upper, &a, &y))))
        } else {
            let r = c.usize(); let m = parse_mat(&mut c);
            pool.install(|| guarded(|| str_mat(&schur_s(mutant, upper, &m, r))))
        };
        println!("{}", res.unwrap_or("P".into()));
    }
}
