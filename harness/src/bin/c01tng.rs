//! C01 (tangle layer) correspondence harness: the REAL `TngComp` / `Tng` of
//! yui-khovanov/src/kh/internal/v2/tng.rs (and the `Path` of yui-link they wrap) against the Coq model
//! Model/Tng.v.  Every component is printed RAW (the Vec of labels in the stored orientation / rotation, not a
//! canonical form): the model mirrors the representation exactly.
//!
//! case lines (first token = kind, only used for statistics; `pc` is parsed differently from the rest):
//!   pc <comp> , <comp>                 path level: is_connectable, connect (both ways), ==, cmp, per-path observers
//!   kc|kp|kt|wf|cn|mf <op> ; <op> ...  a script run on two registers (state, saved), both initially Tng::empty()
//! comp = `a e1 e2 ..` (TngComp::arc) | `c e1 e2 ..` (TngComp::circ) ; comps = comp , comp , ...
//! ops (a panic of a mutating op prints P and ends the script):
//!   A e..            state.append_arc(TngComp::arc(e..))                     -> state
//!   N comps          state = Tng::new(comps)                                 -> state
//!   K comps          state.connect(Tng::new(comps)) (and `connected`)        -> state
//!   R t a b c d      state.connect(Tng::from_resolved(Crossing t[a,b,c,d]))  -> state        (t in X M V H)
//!   r t a b c d      state = Tng::from_resolved(..)                          -> state
//!   S                swap(state, saved)                                      -> state
//!   J                state.connect(saved.clone()) (and `connected`)          -> state
//!   D i              state.remove_at(i)                                      -> rm=<comp> state
//!   E a b m          state = state.convert_edges(|e| (a*e+b) % m)            -> state
//!   Q comp           contains / index_of                                     -> q=<0|1>/<index|->
//!   F e              find_comp(|c| c.contains(e))                            -> f=<index|->
//!   G i              comp(i): raw, len, is_arc, is_circle, endpts, min_edge  -> g=.. | g=P
//!   = comps          state == Tng::new(comps), state.cmp(..)                 -> eq=<0|1> cmp=<Lt|Eq|Gt|P>
//!   Y                state == saved, state.cmp(&saved)                       -> same=<0|1> cmp=..
//!   Z link           the resolved diagram `link` (khutil::link_str format): the components of `state` are all
//!                    circles and their label sets are those of Link::components()   (model: KhCube.circles)
//!                                                                            -> circ=<ok|FAIL|P>
//! state = `[comp comp ..] n= em= cl= cc= chi= ep=<sorted endpts> d=<Display>`, comp = a1.2.3 | c4.5
//!
//! cobordisms (the REAL cob.rs; model Model/TngCob.v):
//!   cb <term> ; <term> ; ...   acc = Cob::empty(); for every term: b = the term's Cob, print b, acc.connect(b) (and
//!                              `connected`), print acc; at the end is_invertible / inv of acc
//!   cx <term> ; <term>         CobComp::connect of the first components of the two terms, called directly
//!   term = s T a b c d g x y   the saddle of the crossing T[a,b,c,d] (T in X M): CobComp::new(from_resolved(x.resolved(0)),
//!                              from_resolved(x.resolved(1)), g, (x,y))   (= CobComp::sdl_from when g = x = y = 0)
//!        | i T a b c d g x y   one cylinder CobComp::new(Tng::from(c), Tng::from(c), g, (x,y)) per component c of
//!                              from_resolved(T[a,b,c,d]) (T in V H)      (= Cob::id when g = x = y = 0)
//!        | c g x y             the closed component of genus g with dots (x,y)
//!   cob  = `{comp | comp ..} n= chi= deg= nb= inv= cl=` ; comp = `[src]>[tgt] g= d=x,y nb= chi= deg=`
//!
//! vertical composition (Cob::stack and what is built on it; model Model/TngStack.v):
//!   sk <op> // <op> // ...     a script over the registers acc (Cob, initially empty), cur (Cob), the history of the
//!                              stacked layers, acclc / curlc (LcCob<i64>)
//!   layer = `K term ; term ..` (the terms joined by Cob::connect as in `cb`) | `N term ; term ..` (Cob::new of the
//!           components of all terms);  further terms (explicit components through the public constructors):
//!        n comps > comps @ g x y   CobComp::new(Tng::new(src), Tng::new(tgt), g, (x, y))
//!        cup comp | cap comp | id comp | mg comp , comp > comp | sp comp > comp , comp | sd comp , comp > comp , comp
//!   ops:
//!     L layer          cur = layer                                                   -> L=<cob>
//!     ST               acc.stack(cur) (also cur * acc, must agree), history += cur   -> st=<is_stackable> acc=<cob>
//!     ID               Cob::id(cur.src()).stack(cur), cur.stack(Cob::id(cur.tgt()))  -> idl=<raw> eql= idr=<raw> eqr=
//!     INV              cur.inv(); cur.stack(inv) == id(src), inv.stack(cur) == id(tgt) -> inv=<raw|-> ci=<raw> eq= ic= eq=
//!     CO S|T comp N|X|Y   acc.cap_off(bottom, comp, dot)                             -> co=<cob>
//!     SRC              acc.src(), acc.tgt()                                          -> src=[..] tgt=[..]
//!     AS               the history stacked from the top down (right nested)          -> as=<raw> eq=<== acc>
//!     PE h t           acc.part_eval(h, t) as LcCob<i64>                             -> pe=<lc>
//!     LC r : layer | r : layer ..    curlc = LcCob::from_iter                        -> lc=<lc> inv=<is_invertible>
//!     MUL              acclc = curlc * acclc (first: acclc = curlc)                  -> mul=<lc>
//!     LPE h t          acclc = acclc.part_eval(h, t)                                 -> lpe=<lc>
//!     LINV             curlc.inv() (at most one term)                                -> linv=<lc|->
//!   raw = `{[src]>[tgt] g= d=x,y | ..}` ; lc = the terms `r*<raw with canonically oriented paths>^deg` sorted
use std::collections::BTreeSet;
use yui_kh::kh::internal::v2::cob::{Bottom, Cob, CobComp, Dot, LcCob, LcCobTrait};
use num_traits::Zero;
use yui_kh::kh::internal::v2::tng::{Tng, TngComp};
use yui::bitseq::Bit;
use yui_link::{Crossing, CrossingType};
use yui_verif_harness::khutil::*;
use yui_verif_harness::*;

// ---------------------------------------------------------------------------------------------------
// rendering
// ---------------------------------------------------------------------------------------------------
fn comp_str(c: &TngComp) -> String {
    let es: Vec<String> = c.path().edges().iter().map(|e| e.to_string()).collect();
    format!("{}{}", if c.is_circle() { "c" } else { "a" }, es.join("."))
}

fn state_str(t: &Tng) -> String {
    let comps: Vec<String> = t.comps().map(comp_str).collect();
    let mut ep: Vec<usize> = t.endpts().into_iter().collect();
    ep.sort();
    let ep: Vec<String> = ep.iter().map(|e| e.to_string()).collect();
    format!("[{}] n={} em={} cl={} cc={} chi={} ep={} d={}", comps.join(" "), t.ncomps(), t.is_empty() as u8,
        t.is_closed() as u8, t.contains_circle() as u8, t.euler_num(), ep.join("."), t)
}

fn ord_str(o: std::cmp::Ordering) -> &'static str {
    match o { std::cmp::Ordering::Less => "Lt", std::cmp::Ordering::Equal => "Eq", std::cmp::Ordering::Greater => "Gt" }
}

// ---------------------------------------------------------------------------------------------------
// parsing
// ---------------------------------------------------------------------------------------------------
fn nums(ws: &[&str]) -> Option<Vec<usize>> {
    ws.iter().map(|w| w.parse::<usize>().ok()).collect()
}

/// None = malformed text ; Some(None) = the constructor panicked
fn parse_comp(s: &str) -> Option<Option<TngComp>> {
    let w: Vec<&str> = s.split_whitespace().collect();
    if w.is_empty() { return None; }
    let es = nums(&w[1..])?;
    match w[0] {
        "a" => Some(guarded(|| TngComp::arc(es))),
        "c" => Some(guarded(|| TngComp::circ(es))),
        _ => None,
    }
}

fn parse_comps(s: &str) -> Option<Option<Vec<TngComp>>> {
    let mut v = vec![];
    for part in s.split(',') {
        if part.trim().is_empty() { continue; }
        match parse_comp(part)? {
            Some(c) => v.push(c),
            None => return Some(None),
        }
    }
    Some(Some(v))
}

fn parse_crossing(w: &[&str]) -> Option<Crossing> {
    if w.len() != 5 { return None; }
    let ty = match w[0] { "X" => CrossingType::X, "M" => CrossingType::Xm, "V" => CrossingType::V, "H" => CrossingType::H, _ => return None };
    let e = nums(&w[1..])?;
    Some(Crossing::new(ty, [e[0], e[1], e[2], e[3]]))
}

// ---------------------------------------------------------------------------------------------------
// the script machine
// ---------------------------------------------------------------------------------------------------
fn connect_both(state: &mut Tng, other: Tng) -> Option<String> {
    let r1 = guarded(|| state.connected(&other));
    let ok = guarded(|| state.connect(other)).is_some();
    if !ok { return None; }
    let s = state_str(state);
    match r1 {
        Some(t) if state_str(&t) == s => Some(s),
        _ => Some(s + " ?connected"),
    }
}

/// result of one op; None = stop (P already pushed)
fn run_op(op: &str, state: &mut Tng, saved: &mut Tng, out: &mut Vec<String>) -> bool {
    let w: Vec<&str> = op.split_whitespace().collect();
    if w.is_empty() { out.push("BAD-OP".into()); return false; }
    let body = op.trim_start()[w[0].len()..].trim();
    macro_rules! stop { () => {{ out.push("P".into()); return false; }} }
    macro_rules! bad { () => {{ out.push("BAD-OP".into()); return false; }} }
    match w[0] {
        "A" => {
            let Some(es) = nums(&w[1..]) else { bad!() };
            let Some(arc) = guarded(|| TngComp::arc(es)) else { stop!() };
            if guarded(|| state.append_arc(arc)).is_none() { stop!() }
            out.push(state_str(state));
        }
        "N" => {
            let Some(cs) = parse_comps(body) else { bad!() };
            let Some(cs) = cs else { stop!() };
            let Some(t) = guarded(|| Tng::new(cs)) else { stop!() };
            *state = t;
            out.push(state_str(state));
        }
        "K" => {
            let Some(cs) = parse_comps(body) else { bad!() };
            let Some(cs) = cs else { stop!() };
            let Some(t) = guarded(|| Tng::new(cs)) else { stop!() };
            match connect_both(state, t) { Some(s) => out.push(s), None => stop!() }
        }
        "R" | "r" => {
            let Some(x) = parse_crossing(&w[1..]) else { bad!() };
            let Some(t) = guarded(|| Tng::from_resolved(&x)) else { stop!() };
            if w[0] == "r" {
                *state = t;
                out.push(state_str(state));
            } else {
                match connect_both(state, t) { Some(s) => out.push(s), None => stop!() }
            }
        }
        "S" => {
            std::mem::swap(state, saved);
            out.push(state_str(state));
        }
        "J" => {
            let o = saved.clone();
            match connect_both(state, o) { Some(s) => out.push(s), None => stop!() }
        }
        "D" => {
            let Some(i) = w.get(1).and_then(|x| x.parse::<usize>().ok()) else { bad!() };
            let Some(c) = guarded(|| state.remove_at(i)) else { stop!() };
            out.push(format!("rm={} {}", comp_str(&c), state_str(state)));
        }
        "E" => {
            let Some(p) = nums(&w[1..]) else { bad!() };
            if p.len() != 3 || p[2] == 0 { bad!() }
            let (a, b, m) = (p[0], p[1], p[2]);
            let Some(t) = guarded(|| state.convert_edges(|e| (a * e + b) % m)) else { stop!() };
            *state = t;
            out.push(state_str(state));
        }
        "Q" => {
            let Some(c) = parse_comp(body) else { bad!() };
            let Some(c) = c else { out.push("q=P".into()); return true; };
            let r = guarded(|| (state.contains(&c), state.index_of(&c)));
            out.push(match r {
                Some((b, i)) => format!("q={}/{}", b as u8, i.map(|i| i.to_string()).unwrap_or("-".into())),
                None => "q=P".into(),
            });
        }
        "F" => {
            let Some(e) = w.get(1).and_then(|x| x.parse::<usize>().ok()) else { bad!() };
            let r = guarded(|| state.find_comp(|c| c.contains(e)));
            out.push(match r { Some(i) => format!("f={}", i.map(|i| i.to_string()).unwrap_or("-".into())), None => "f=P".into() });
        }
        "G" => {
            let Some(i) = w.get(1).and_then(|x| x.parse::<usize>().ok()) else { bad!() };
            let r = guarded(|| {
                let c = state.comp(i);
                let ends = c.endpts().map(|(a, b)| format!("{}.{}", a, b)).unwrap_or("-".into());
                let min = guarded(|| c.min_edge()).map(|m| m.to_string()).unwrap_or("P".into());
                format!("g={},{},{},{},{},{},{}", comp_str(c), c.len(), c.is_arc() as u8, c.is_circle() as u8, ends, min, c)
            });
            out.push(r.unwrap_or("g=P".into()));
        }
        "=" => {
            let Some(cs) = parse_comps(body) else { bad!() };
            let Some(cs) = cs else { out.push("eq=P".into()); return true; };
            let Some(t) = guarded(|| Tng::new(cs)) else { out.push("eq=P".into()); return true; };
            let eq = guarded(|| *state == t).map(|b| (b as u8).to_string()).unwrap_or("P".into());
            let cmp = guarded(|| (&*state).cmp(&t)).map(|o| ord_str(o).to_string()).unwrap_or("P".into());
            let pc = guarded(|| (&*state).partial_cmp(&t)).flatten().map(|o| ord_str(o).to_string()).unwrap_or("P".into());
            out.push(format!("eq={} cmp={}{}", eq, cmp, if pc == cmp { "" } else { " ?partial_cmp" }));
        }
        "Y" => {
            let eq = guarded(|| *state == *saved).map(|b| (b as u8).to_string()).unwrap_or("P".into());
            let cmp = guarded(|| (&*state).cmp(&*saved)).map(|o| ord_str(o).to_string()).unwrap_or("P".into());
            out.push(format!("same={} cmp={}", eq, cmp));
        }
        "Z" => {
            let r = guarded(|| {
                let l = parse_link(body);
                let mut want: Vec<Vec<usize>> = l.components().iter().map(|p| {
                    let s: BTreeSet<usize> = p.edges().iter().cloned().collect();
                    s.into_iter().collect()
                }).collect();
                want.sort();
                let mut got: Vec<Vec<usize>> = state.comps().map(|c| {
                    let s: BTreeSet<usize> = c.path().edges().iter().cloned().collect();
                    s.into_iter().collect()
                }).collect();
                let in_order = got.windows(2).all(|w| w[0].first() < w[1].first());
                got.sort();
                state.is_closed() && in_order && want == got
            });
            out.push(match r { Some(true) => "circ=ok".into(), Some(false) => "circ=FAIL".into(), None => "circ=P".into() });
        }
        _ => bad!(),
    }
    true
}

fn run_script(body: &str) -> String {
    let mut state = Tng::empty();
    let mut saved = Tng::empty();
    let mut out = vec![];
    for op in body.split(';') {
        if op.trim().is_empty() { continue; }
        if !run_op(op, &mut state, &mut saved, &mut out) { break; }
    }
    out.join(" | ")
}

fn run_pc(body: &str) -> String {
    let parts: Vec<&str> = body.split(',').collect();
    if parts.len() != 2 { return "BAD-CASE".into(); }
    let (Some(p), Some(q)) = (parse_comp(parts[0]), parse_comp(parts[1])) else { return "BAD-CASE".into() };
    let (Some(p), Some(q)) = (p, q) else { return "P".into() };
    let one = |c: &TngComp| {
        let ends = c.endpts().map(|(a, b)| format!("{}.{}", a, b)).unwrap_or("-".into());
        let min = guarded(|| c.min_edge()).map(|m| m.to_string()).unwrap_or("P".into());
        format!("{},{},{},{},{},{}", comp_str(c), c.len(), c.is_arc() as u8, c.is_circle() as u8, ends, min)
    };
    let conn = |a: &TngComp, b: &TngComp| {
        let mut a = a.clone();
        match guarded(|| { a.connect(b.clone()); a }) { Some(r) => one(&r), None => "P".into() }
    };
    let b = |x: Option<bool>| x.map(|b| (b as u8).to_string()).unwrap_or("P".into());
    let cmp = guarded(|| p.cmp(&q)).map(|o| ord_str(o).to_string()).unwrap_or("P".into());
    let cont: Vec<String> = (0..6usize).map(|e| format!("{}{}", p.contains(e) as u8, q.contains(e) as u8)).collect();
    format!("p={} q={} able={}{} pq={} qp={} eq={}{} ne={} cmp={} has={}", one(&p), one(&q),
        b(guarded(|| p.is_connectable(&q))), b(guarded(|| q.is_connectable(&p))), conn(&p, &q), conn(&q, &p),
        b(guarded(|| p == q)), b(guarded(|| q == p)), b(guarded(|| p != q)), cmp, cont.join(""))
}


// ---------------------------------------------------------------------------------------------------
// cobordisms
// ---------------------------------------------------------------------------------------------------
fn tng_raw(t: &Tng) -> String {
    t.comps().map(comp_str).collect::<Vec<_>>().join(" ")
}

fn opt<T: ToString>(x: Option<T>) -> String {
    x.map(|v| v.to_string()).unwrap_or("P".into())
}

/// the dots of a component are private: recover them by comparing with CobComp::new(.., (x, n - x))
fn dots_of(c: &CobComp) -> String {
    let n = c.ndots();
    for x in 0..=n {
        if *c == CobComp::new(c.src().clone(), c.tgt().clone(), c.genus(), (x, n - x)) {
            return format!("{},{}", x, n - x);
        }
    }
    "?dots".into()
}

fn cc_str(c: &CobComp) -> String {
    format!("[{}]>[{}] g={} d={} nb={} chi={} deg={}", tng_raw(c.src()), tng_raw(c.tgt()), c.genus(), dots_of(c),
        opt(guarded(|| c.nbdr_comps())), opt(guarded(|| c.euler_num())), opt(guarded(|| c.deg())))
}

fn cob_str(c: &Cob) -> String {
    let comps: Vec<String> = c.comps().map(cc_str).collect();
    format!("{{{}}} n={} chi={} deg={} nb={} inv={} cl={}", comps.join(" | "), c.ncomps(), opt(guarded(|| c.euler_num())),
        opt(guarded(|| c.deg())), opt(guarded(|| c.nbdr_comps())), c.is_invertible() as u8, c.is_closed() as u8)
}

/// None = malformed text; Some(None) = a constructor panicked; the String is a self-check marker
fn parse_term(t: &str) -> Option<Option<(Cob, &'static str)>> {
    let w: Vec<&str> = t.split_whitespace().collect();
    match w.first().copied() {
        Some("c") => {
            let p = nums(&w[1..])?;
            if p.len() != 3 { return None; }
            Some(guarded(|| (Cob::from(CobComp::new(Tng::empty(), Tng::empty(), p[0], (p[1], p[2]))), "")))
        }
        Some(k @ ("s" | "i")) => {
            if w.len() != 9 { return None; }
            let x = parse_crossing(&w[1..6])?;
            let p = nums(&w[6..])?;
            let (g, dx, dy) = (p[0], p[1], p[2]);
            let plain = g == 0 && dx == 0 && dy == 0;
            if k == "s" {
                Some(guarded(|| {
                    assert!(!x.is_resolved());
                    let src = Tng::from_resolved(&x.resolved(Bit::Bit0));
                    let tgt = Tng::from_resolved(&x.resolved(Bit::Bit1));
                    let c = CobComp::new(src, tgt, g, (dx, dy));
                    let ok = !plain || c == CobComp::sdl_from(&x);
                    (Cob::from(c), if ok { "" } else { " ?ctor" })
                }))
            } else {
                Some(guarded(|| {
                    let t = Tng::from_resolved(&x);
                    let comps: Vec<CobComp> = t.comps().map(|c| CobComp::new(Tng::from(c.clone()), Tng::from(c.clone()), g, (dx, dy))).collect();
                    let cob = Cob::new(comps);
                    let ok = !plain || cob == Cob::id(&t);
                    (cob, if ok { "" } else { " ?ctor" })
                }))
            }
        }
        _ => None,
    }
}

fn run_cb(body: &str) -> String {
    let mut acc = Cob::empty();
    let mut out = vec![];
    for t in body.split(';') {
        if t.trim().is_empty() { continue; }
        let Some(r) = parse_term(t) else { out.push("BAD-TERM".into()); break; };
        let Some((b, mark)) = r else { out.push("P".into()); return out.join(" | "); };
        out.push(format!("b={}{}", cob_str(&b), mark));
        let r1 = guarded(|| acc.connected(&b));
        if guarded(|| acc.connect(b)).is_none() { out.push("P".into()); return out.join(" | "); }
        let s = cob_str(&acc);
        let same = matches!(r1, Some(ref t) if cob_str(t) == s);
        out.push(format!("acc={}{}", s, if same { "" } else { " ?connected" }));
    }
    let inv = match guarded(|| acc.inv()) {
        Some(Some(i)) => cob_str(&i),
        Some(None) => "-".into(),
        None => "P".into(),
    };
    out.push(format!("inv={}", inv));
    out.join(" | ")
}

fn run_cx(body: &str) -> String {
    let ts: Vec<&str> = body.split(';').filter(|t| !t.trim().is_empty()).collect();
    if ts.len() != 2 { return "BAD-CASE".into(); }
    let (Some(a), Some(b)) = (parse_term(ts[0]), parse_term(ts[1])) else { return "BAD-TERM".into() };
    let (Some((a, _)), Some((b, _))) = (a, b) else { return "P".into() };
    let (Some(mut ca), Some(cb)) = (guarded(|| a.comp(0).clone()), guarded(|| b.comp(0).clone())) else { return "P".into() };
    let able = ca.is_connectable(&cb);
    let r = guarded(|| { ca.connect(cb); ca });
    format!("able={} r={}", able as u8, r.map(|c| cc_str(&c)).unwrap_or("P".into()))
}


// ---------------------------------------------------------------------------------------------------
// vertical composition: Cob::stack, cap_off, LcCob
// ---------------------------------------------------------------------------------------------------
type LcC = LcCob<i64>;

fn cc_raw(c: &CobComp) -> String {
    format!("[{}]>[{}] g={} d={}", tng_raw(c.src()), tng_raw(c.tgt()), c.genus(), dots_of(c))
}

fn cob_raw(c: &Cob) -> String {
    format!("{{{}}}", c.comps().map(cc_raw).collect::<Vec<_>>().join(" | "))
}

fn canon_path(c: &TngComp) -> String {
    let es: Vec<usize> = c.path().edges().iter().cloned().collect();
    let mut best = es.clone();
    let mut rv = es.clone();
    rv.reverse();
    if c.is_circle() {
        for base in [&es, &rv] {
            for k in 0..base.len() {
                let mut x = base.clone();
                x.rotate_left(k);
                if x < best { best = x; }
            }
        }
    } else if rv < best {
        best = rv;
    }
    format!("{}{}", if c.is_circle() { "c" } else { "a" }, best.iter().map(|e| e.to_string()).collect::<Vec<_>>().join("."))
}

fn canon_cob(c: &Cob) -> String {
    let comps: Vec<String> = c.comps().map(|cc| format!("[{}]>[{}] g={} d={}",
        cc.src().comps().map(canon_path).collect::<Vec<_>>().join(" "),
        cc.tgt().comps().map(canon_path).collect::<Vec<_>>().join(" "), cc.genus(), dots_of(cc))).collect();
    format!("{{{}}}", comps.join(" | "))
}

fn lc_str(l: &LcC) -> String {
    let mut ts: Vec<String> = l.iter().map(|(c, r)| format!("{}*{}^{}", r, canon_cob(c), opt(guarded(|| c.deg())))).collect();
    ts.sort();
    format!("({}){}", ts.len(), ts.join(" + "))
}

/// explicit component terms; None = malformed, Some(None) = a constructor panicked
fn parse_cc_term(t: &str) -> Option<Option<CobComp>> {
    let t = t.trim();
    let (head, body) = t.split_once(' ').unwrap_or((t, ""));
    let sides = |s: &str| -> Option<Option<(Vec<TngComp>, Vec<TngComp>)>> {
        let (a, b) = s.split_once('>')?;
        let (Some(a), Some(b)) = (parse_comps(a)?, parse_comps(b)?) else { return Some(None) };
        Some(Some((a, b)))
    };
    match head {
        "n" => {
            let (st, gxy) = body.split_once('@')?;
            let p = nums(&gxy.split_whitespace().collect::<Vec<_>>())?;
            if p.len() != 3 { return None; }
            let Some((a, b)) = sides(st)? else { return Some(None) };
            Some(guarded(|| CobComp::new(Tng::new(a), Tng::new(b), p[0], (p[1], p[2]))))
        }
        "cup" | "cap" | "id" => {
            let Some(c) = parse_comp(body)? else { return Some(None) };
            Some(guarded(|| match head { "cup" => CobComp::cup(c), "cap" => CobComp::cap(c), _ => CobComp::id(c) }))
        }
        "mg" => {
            let Some((a, b)) = sides(body)? else { return Some(None) };
            if a.len() != 2 || b.len() != 1 { return None; }
            Some(guarded(|| CobComp::merge((a[0].clone(), a[1].clone()), b[0].clone())))
        }
        "sp" => {
            let Some((a, b)) = sides(body)? else { return Some(None) };
            if a.len() != 1 || b.len() != 2 { return None; }
            Some(guarded(|| CobComp::split(a[0].clone(), (b[0].clone(), b[1].clone()))))
        }
        "sd" => {
            let Some((a, b)) = sides(body)? else { return Some(None) };
            if a.len() != 2 || b.len() != 2 { return None; }
            Some(guarded(|| CobComp::sdl((a[0].clone(), a[1].clone()), (b[0].clone(), b[1].clone()))))
        }
        _ => None,
    }
}

fn parse_any_term(t: &str) -> Option<Option<(Cob, &'static str)>> {
    match t.split_whitespace().next() {
        Some("s") | Some("i") | Some("c") => parse_term(t),
        _ => match parse_cc_term(t)? {
            Some(c) => Some(guarded(|| (Cob::from(c), ""))),
            None => Some(None),
        },
    }
}

/// `K term ; ..` | `N term ; ..` ; None = malformed, Some(None) = panic
fn parse_layer(s: &str) -> Option<Option<(Cob, &'static str)>> {
    let s = s.trim();
    let (mode, body) = s.split_once(' ').unwrap_or((s, ""));
    let mut mark = "";
    let mut cobs = vec![];
    for t in body.split(';') {
        if t.trim().is_empty() { continue; }
        match parse_any_term(t)? {
            Some((c, m)) => { if !m.is_empty() { mark = m; } cobs.push(c); }
            None => return Some(None),
        }
    }
    match mode {
        "K" => Some(guarded(|| {
            let mut acc = Cob::empty();
            for c in cobs { acc.connect(c); }
            (acc, mark)
        })),
        "N" => Some(guarded(|| {
            let comps: Vec<CobComp> = cobs.iter().flat_map(|c| c.comps().cloned().collect::<Vec<_>>()).collect();
            (Cob::new(comps), mark)
        })),
        _ => None,
    }
}

fn stacked(a: &Cob, b: &Cob) -> Option<Cob> {
    guarded(|| { let mut r = a.clone(); r.stack(b.clone()); r })
}

fn b01(b: bool) -> &'static str { if b { "1" } else { "0" } }

fn run_sk(body: &str) -> String {
    let mut acc = Cob::empty();
    let mut cur = Cob::empty();
    let mut hist: Vec<Cob> = vec![];
    let mut acclc: Option<LcC> = None;
    let mut curlc: LcC = LcC::zero();
    let mut out: Vec<String> = vec![];
    macro_rules! stop { () => {{ out.push("P".into()); return out.join(" | "); }} }
    macro_rules! bad { () => {{ out.push("BAD-OP".into()); return out.join(" | "); }} }
    for op in body.split("//") {
        let op = op.trim();
        if op.is_empty() { continue; }
        let (name, rest) = op.split_once(' ').unwrap_or((op, ""));
        match name {
            "L" => {
                let Some(r) = parse_layer(rest) else { bad!() };
                let Some((c, mark)) = r else { stop!() };
                cur = c;
                out.push(format!("L={}{}", cob_str(&cur), mark));
            }
            "ST" => {
                let st = guarded(|| acc.is_stackable(&cur));
                let m = guarded(|| cur.clone() * acc.clone());
                let Some(r) = stacked(&acc, &cur) else { stop!() };
                acc = r;
                hist.push(cur.clone());
                let s = cob_str(&acc);
                let same = matches!(m, Some(ref t) if cob_str(t) == s);
                out.push(format!("st={} acc={}{}", opt(st.map(|b| b01(b))), s, if same { "" } else { " ?mul" }));
            }
            "ID" => {
                let r = guarded(|| (Cob::id(&cur.src()), Cob::id(&cur.tgt())));
                let Some((ids, idt)) = r else { stop!() };
                let e1 = stacked(&ids, &cur);
                let e2 = stacked(&cur, &idt);
                let f = |e: &Option<Cob>| match e { Some(c) => (cob_raw(c), b01(*c == cur)), None => ("P".to_string(), "P") };
                let (s1, q1) = f(&e1);
                let (s2, q2) = f(&e2);
                out.push(format!("idl={} eql={} idr={} eqr={}", s1, q1, s2, q2));
            }
            "INV" => {
                match guarded(|| cur.inv()) {
                    None => stop!(),
                    Some(None) => out.push("inv=-".into()),
                    Some(Some(inv)) => {
                        let ci = stacked(&cur, &inv);
                        let ic = stacked(&inv, &cur);
                        let ids = guarded(|| Cob::id(&cur.src()));
                        let idt = guarded(|| Cob::id(&cur.tgt()));
                        let f = |e: &Option<Cob>, i: &Option<Cob>| match (e, i) {
                            (Some(c), Some(i)) => (cob_raw(c), b01(c == i)),
                            (Some(c), None) => (cob_raw(c), "P"),
                            _ => ("P".to_string(), "P") };
                        let (s1, q1) = f(&ci, &ids);
                        let (s2, q2) = f(&ic, &idt);
                        out.push(format!("inv={} ci={} eq={} ic={} eq={}", cob_raw(&inv), s1, q1, s2, q2));
                    }
                }
            }
            "CO" => {
                let w: Vec<&str> = rest.split_whitespace().collect();
                if w.len() < 3 { bad!() }
                let b = match w[0] { "S" => Bottom::Src, "T" => Bottom::Tgt, _ => bad!() };
                let d = match w[w.len() - 1] { "N" => Dot::None, "X" => Dot::X, "Y" => Dot::Y, _ => bad!() };
                let Some(c) = parse_comp(&w[1..w.len() - 1].join(" ")) else { bad!() };
                let Some(c) = c else { stop!() };
                let r = guarded(|| { let mut a = acc.clone(); a.cap_off(b, &c, d); a });
                let Some(r) = r else { stop!() };
                acc = r;
                out.push(format!("co={}", cob_str(&acc)));
            }
            "SRC" => {
                let s = guarded(|| acc.src()).map(|t| tng_raw(&t)).unwrap_or("P".into());
                let t = guarded(|| acc.tgt()).map(|t| tng_raw(&t)).unwrap_or("P".into());
                out.push(format!("src=[{}] tgt=[{}]", s, t));
            }
            "AS" => {
                if hist.is_empty() { out.push("as=-".into()); continue; }
                let mut r = Some(hist[hist.len() - 1].clone());
                for k in (0..hist.len() - 1).rev() {
                    r = match r { Some(x) => stacked(&hist[k], &x), None => None };
                }
                match r {
                    Some(x) => out.push(format!("as={} eq={}", cob_raw(&x), b01(x == acc))),
                    None => out.push("as=P".into()),
                }
            }
            "PE" => {
                let Some(p) = rest.split_whitespace().map(|w| w.parse::<i64>().ok()).collect::<Option<Vec<i64>>>() else { bad!() };
                if p.len() != 2 { bad!() }
                let r = guarded(|| { let l: LcC = acc.clone().part_eval(&p[0], &p[1]); l });
                out.push(format!("pe={}", r.map(|l| lc_str(&l)).unwrap_or("P".into())));
            }
            "LC" => {
                let mut terms: Vec<(Cob, i64)> = vec![];
                for t in rest.split('|') {
                    if t.trim().is_empty() { continue; }
                    let Some((r, l)) = t.split_once(':') else { bad!() };
                    let Some(r) = r.trim().parse::<i64>().ok() else { bad!() };
                    let Some(c) = parse_layer(l) else { bad!() };
                    let Some((c, _)) = c else { stop!() };
                    terms.push((c, r));
                }
                let Some(l) = guarded(|| LcC::from_iter(terms)) else { stop!() };
                curlc = l;
                out.push(format!("lc={} inv={}", lc_str(&curlc), b01(curlc.is_invertible())));
            }
            "MUL" => {
                let r = match &acclc {
                    None => Some(curlc.clone()),
                    Some(a) => guarded(|| &curlc * a),
                };
                let Some(r) = r else { stop!() };
                out.push(format!("mul={}", lc_str(&r)));
                acclc = Some(r);
            }
            "LPE" => {
                let Some(p) = rest.split_whitespace().map(|w| w.parse::<i64>().ok()).collect::<Option<Vec<i64>>>() else { bad!() };
                if p.len() != 2 { bad!() }
                let Some(a) = acclc.clone() else { bad!() };
                let Some(r) = guarded(|| a.part_eval(&p[0], &p[1])) else { stop!() };
                out.push(format!("lpe={}", lc_str(&r)));
                acclc = Some(r);
            }
            "LINV" => {
                if curlc.nterms() > 1 { out.push("linv=?".into()); continue; }
                match guarded(|| curlc.inv()) {
                    None => stop!(),
                    Some(None) => out.push("linv=-".into()),
                    Some(Some(i)) => out.push(format!("linv={}", lc_str(&i))),
                }
            }
            _ => bad!(),
        }
    }
    out.join(" | ")
}

// ---------------------------------------------------------------------------------------------------
// the tangle complex: TngComplex<i64> driven through its public API (model Model/TngComplex.v)
// ---------------------------------------------------------------------------------------------------
//   tc|tm <op> // <op> // ...  a script over two registers cur / other (Option<TngComplex<i64>>, initially None); tm = malformed
//     I h t i0 j0 bp     cur = TngComplex::init(&h, &t, (i0, j0), bp)   (bp = `-` | edge)       -> I=<cpx>
//     X T a b c d        cur.append(&Crossing T[a,b,c,d])  (T in X M V H)                        -> x=<cpx>
//     SW                 swap(cur, other)                                                         -> sw=<cpx|->
//     CO                 cur.connect(other.take())                                                -> co=<cpx>
//     DL b               deloop the first loop: the least key (sorted as strings) whose tangle has a circle c with
//                        (b = 1 || !contains_base_pt(c)), r = find_comp of that predicate      -> dl=<key>,<r> upd=<keys> <cpx> | dl=-
//     DLA b              DL b until there is none                                                 -> dla=<key>,<r>;.. <cpx>
//     DX key r           cur.deloop(key, r)                                                       -> dl=.. as DL
//     EL n               eliminate the (n mod #)-th edge with is_invertible(), edges sorted by (key, key) -> el=<k>><l> <cpx> | el=-
//     ELA s              EL (s + step) until there is none                                        -> ela=<k>><l>;.. <cpx>
//     EX k l             cur.eliminate(k, l)                                                      -> el=.. as EL
//     RV key             cur.remove_vertex(key)                                                   -> rv=<cpx>
//     SH i j             cur.set_deg_shift((i, j))                                                -> sh=<cpx>
//     EV                 edge(k, l).eval(h, t) of every edge                                      -> ev=<k>><l>=<r|P>;..
//     RAW                cur.convert_edges(|e| e).into_raw_complex(): d of every generator         -> raw=<i>:<key>-><key>=<r>,..;.. | raw=P
//   key = <state bits 0/1>/<label X/I> ; cpx = `dim= sh= bp= nv= cd=<is_completely_delooped> val=<validate() returns> dd=<d d = 0, computed> rk=<rank(i) over h_range>
//         :: <key>:[tangle raw] in=<keys> out=<key>><lc> ~ <key>><lc> ; ...` with vertices, in-edges, out-edges sorted by key string
use yui_kh::kh::internal::v2::tng_complex::{TngComplex, TngKey};
use yui_kh::kh::{KhAlgGen, KhLabel, KhGen};
use yui_link::State;
use yui_homology::{ChainComplexTrait, GridTrait};
use yui::lc::Lc;

type TC = TngComplex<i64>;

fn key_str(k: &TngKey) -> String {
    let s: String = k.state.iter().map(|b| if b.is_zero() { '0' } else { '1' }).collect();
    let l: String = k.label.iter().map(|x| if x.is_X() { 'X' } else { 'I' }).collect();
    format!("{}/{}", s, l)
}

fn parse_key(s: &str) -> Option<Option<TngKey>> {
    let (a, b) = s.split_once('/')?;
    if !a.chars().all(|c| c == '0' || c == '1') || !b.chars().all(|c| c == 'X' || c == 'I') { return None; }
    Some(guarded(|| {
        let mut state = State::empty();
        for c in a.chars() { if c == '1' { state.push_1() } else { state.push_0() } }
        let mut label = KhLabel::empty();
        for c in b.chars() { label.push(if c == 'X' { KhAlgGen::X } else { KhAlgGen::I }) }
        TngKey { state, label }
    }))
}

fn sorted_keys(c: &TC) -> Vec<TngKey> {
    let mut keys: Vec<TngKey> = c.keys().cloned().collect();
    keys.sort_by_key(key_str);
    keys
}

fn tc_str(c: &TC) -> String {
    let keys = sorted_keys(c);
    let (i0, j0) = c.deg_shift();
    let ranks: Vec<String> = c.h_range().map(|i| c.rank(i).to_string()).collect();
    let val = guarded(|| c.validate()).is_some();
    let verts: Vec<String> = keys.iter().map(|k| {
        let v = c.vertex(k);
        let mut ins: Vec<String> = v.in_edges().map(key_str).collect();
        ins.sort();
        let mut outs: Vec<(String, String)> = v.out_edges().map(|l| (key_str(l), lc_str(c.edge(k, l)))).collect();
        outs.sort();
        let outs: Vec<String> = outs.iter().map(|(l, f)| format!("{}>{}", l, f)).collect();
        format!("{}:[{}] in={} out={}", key_str(k), tng_raw(v.tng()), ins.join(","), outs.join(" ~ "))
    }).collect();
    let dd = if !c.is_completely_delooped() { "-" } else { match guarded(|| dd_zero(c)) { Some(true) => "1", Some(false) => "0", None => "P" } };
    format!("dim={} sh={},{} bp={} nv={} cd={} val={} dd={} rk={} :: {}", c.dim(), i0, j0,
        c.base_pt().map(|e| e.to_string()).unwrap_or("-".into()), c.nverts(), b01(c.is_completely_delooped()), b01(val), dd,
        ranks.join(","), verts.join(" ; "))
}

/// d d = 0 computed from the public API: for all x, y the sum over m of (edge(m, y) * edge(x, m)).part_eval(h, t) is zero.
/// Only meaningful (and only printed) for completely delooped complexes: LcCob is not a normal form of the morphisms
/// modulo the local relations (neck cutting on open components is never applied), the sums cancel syntactically only
/// when every cobordism is closed.
fn dd_zero(c: &TC) -> bool {
    let (h, t) = c.ht().clone();
    let mut ok = true;
    for x in c.keys() {
        let mut sums: Vec<(TngKey, LcC)> = vec![];
        for m in c.keys_out_from(x) {
            let f = c.edge(x, m);
            for y in c.keys_out_from(m) {
                let g = c.edge(m, y);
                let p = (g * f).part_eval(&h, &t);
                match sums.iter_mut().find(|(k, _)| k == y) {
                    Some((_, s)) => { *s += &p; }
                    None => sums.push((*y, p)),
                }
            }
        }
        if sums.iter().any(|(_, s)| !s.is_zero()) { ok = false; }
    }
    ok
}

fn choose_loop(c: &TC, allow_based: bool) -> Option<(TngKey, usize)> {
    for k in sorted_keys(c) {
        if let Some(r) = c.vertex(&k).tng().find_comp(|m| m.is_circle() && (allow_based || !c.contains_base_pt(m))) {
            return Some((k, r));
        }
    }
    None
}

fn inv_edges(c: &TC) -> Vec<(TngKey, TngKey)> {
    let mut v: Vec<(String, String, TngKey, TngKey)> = vec![];
    for k in sorted_keys(c) {
        for l in c.keys_out_from(&k) {
            if c.edge(&k, l).is_invertible() { v.push((key_str(&k), key_str(l), k, *l)); }
        }
    }
    v.sort_by(|a, b| (&a.0, &a.1).cmp(&(&b.0, &b.1)));
    v.into_iter().map(|(_, _, k, l)| (k, l)).collect()
}

fn raw_str(c: &TC) -> Option<String> {
    guarded(|| {
        let copy = c.convert_edges(|e| e);
        let range = copy.h_range();
        let raw = copy.into_raw_complex();
        let mut parts: Vec<String> = vec![];
        for i in range {
            let mut gens: Vec<KhGen> = raw.get(i).raw_gens().iter().cloned().collect();
            gens.sort_by_key(|x| key_str(&TngKey::from(x)));
            for x in gens {
                let dx = raw.d(i, &Lc::from(x));
                let mut ts: Vec<String> = dx.iter().map(|(y, r)| format!("{}={}", key_str(&TngKey::from(y)), r)).collect();
                ts.sort();
                parts.push(format!("{}:{}->{}", i, key_str(&TngKey::from(&x)), ts.join(",")));
            }
        }
        parts.join(";")
    })
}

fn run_tc(body: &str) -> String {
    let mut cur: Option<TC> = None;
    let mut other: Option<TC> = None;
    let mut out: Vec<String> = vec![];
    macro_rules! stop { () => {{ out.push("P".into()); return out.join(" | "); }} }
    macro_rules! bad { () => {{ out.push("BAD-OP".into()); return out.join(" | "); }} }
    for op in body.split("//") {
        let op = op.trim();
        if op.is_empty() { continue; }
        let (name, rest) = op.split_once(' ').unwrap_or((op, ""));
        let w: Vec<&str> = rest.split_whitespace().collect();
        if name == "I" {
            if w.len() != 5 { bad!() }
            let Some(p) = w[..4].iter().map(|x| x.parse::<i64>().ok()).collect::<Option<Vec<i64>>>() else { bad!() };
            let bp = if w[4] == "-" { None } else { match w[4].parse::<usize>() { Ok(e) => Some(e), Err(_) => bad!() } };
            let c = TC::init(&p[0], &p[1], (p[2] as isize, p[3] as isize), bp);
            out.push(format!("I={}", tc_str(&c)));
            cur = Some(c);
            continue;
        }
        if name == "SW" {
            std::mem::swap(&mut cur, &mut other);
            out.push(format!("sw={}", cur.as_ref().map(tc_str).unwrap_or("-".into())));
            continue;
        }
        if name == "CO" {
            let (Some(c), Some(o)) = (cur.as_mut(), other.take()) else { bad!() };
            if guarded(|| c.connect(o)).is_none() { stop!() }
            out.push(format!("co={}", tc_str(c)));
            continue;
        }
        let Some(c) = cur.as_mut() else { bad!() };
        match name {
            "X" => {
                let Some(x) = parse_crossing(&w) else { bad!() };
                if guarded(|| c.append(&x)).is_none() { stop!() }
                out.push(format!("x={}", tc_str(c)));
            }
            "DL" | "DX" => {
                let choice = if name == "DL" {
                    match guarded(|| choose_loop(c, rest.trim() == "1")) { Some(ch) => ch, None => stop!() }
                } else {
                    if w.len() != 2 { bad!() }
                    let Some(k) = parse_key(w[0]) else { bad!() };
                    let Some(k) = k else { stop!() };
                    let Some(r) = w[1].parse::<usize>().ok() else { bad!() };
                    Some((k, r))
                };
                match choice {
                    None => out.push("dl=-".into()),
                    Some((k, r)) => {
                        let Some(u) = guarded(|| c.deloop(&k, r)) else { stop!() };
                        out.push(format!("dl={},{} upd={} {}", key_str(&k), r, u.iter().map(key_str).collect::<Vec<_>>().join(","), tc_str(c)));
                    }
                }
            }
            "DLA" => {
                let b = rest.trim() == "1";
                let mut steps = vec![];
                for _ in 0..500 {
                    let Some(ch) = guarded(|| choose_loop(c, b)) else { stop!() };
                    let Some((k, r)) = ch else { break };
                    if guarded(|| c.deloop(&k, r)).is_none() { out.push(format!("dla={}", steps.join(";"))); stop!() }
                    steps.push(format!("{},{}", key_str(&k), r));
                }
                out.push(format!("dla={} {}", steps.join(";"), tc_str(c)));
            }
            "EL" | "EX" => {
                let choice = if name == "EL" {
                    let Some(n) = rest.trim().parse::<usize>().ok() else { bad!() };
                    let Some(es) = guarded(|| inv_edges(c)) else { stop!() };
                    if es.is_empty() { None } else { Some(es[n % es.len()]) }
                } else {
                    if w.len() != 2 { bad!() }
                    let (Some(k), Some(l)) = (parse_key(w[0]), parse_key(w[1])) else { bad!() };
                    let (Some(k), Some(l)) = (k, l) else { stop!() };
                    Some((k, l))
                };
                match choice {
                    None => out.push("el=-".into()),
                    Some((k, l)) => {
                        if guarded(|| c.eliminate(&k, &l)).is_none() { stop!() }
                        out.push(format!("el={}>{} {}", key_str(&k), key_str(&l), tc_str(c)));
                    }
                }
            }
            "ELA" => {
                let Some(s) = rest.trim().parse::<usize>().ok() else { bad!() };
                let mut steps = vec![];
                for i in 0..500 {
                    let Some(es) = guarded(|| inv_edges(c)) else { stop!() };
                    if es.is_empty() { break; }
                    let (k, l) = es[(s + i) % es.len()];
                    if guarded(|| c.eliminate(&k, &l)).is_none() { out.push(format!("ela={}", steps.join(";"))); stop!() }
                    steps.push(format!("{}>{}", key_str(&k), key_str(&l)));
                }
                out.push(format!("ela={} {}", steps.join(";"), tc_str(c)));
            }
            "RV" => {
                if w.len() != 1 { bad!() }
                let Some(k) = parse_key(w[0]) else { bad!() };
                let Some(k) = k else { stop!() };
                if guarded(|| { c.remove_vertex(&k); }).is_none() { stop!() }
                out.push(format!("rv={}", tc_str(c)));
            }
            "SH" => {
                let Some(p) = w.iter().map(|x| x.parse::<isize>().ok()).collect::<Option<Vec<isize>>>() else { bad!() };
                if p.len() != 2 { bad!() }
                c.set_deg_shift((p[0], p[1]));
                out.push(format!("sh={}", tc_str(c)));
            }
            "EV" => {
                let (h, t) = c.ht().clone();
                let mut parts = vec![];
                for k in sorted_keys(c) {
                    let mut ls: Vec<TngKey> = c.keys_out_from(&k).cloned().collect();
                    ls.sort_by_key(key_str);
                    for l in ls {
                        let r = guarded(|| c.edge(&k, &l).eval(&h, &t));
                        parts.push(format!("{}>{}={}", key_str(&k), key_str(&l), opt(r)));
                    }
                }
                out.push(format!("ev={}", parts.join(";")));
            }
            "RAW" => out.push(format!("raw={}", raw_str(c).unwrap_or("P".into()))),
            _ => bad!(),
        }
    }
    out.join(" | ")
}

fn run_case(line: &str) -> String {
    let line = line.trim();
    let (kind, body) = line.split_once(' ').unwrap_or((line, ""));
    let r = guarded(|| match kind { "pc" => run_pc(body), "cb" => run_cb(body), "cx" => run_cx(body), "sk" => run_sk(body), "tc" | "tm" => run_tc(body), _ => run_script(body) });
    r.unwrap_or("P-CASE".into())
}

// ---------------------------------------------------------------------------------------------------
// generators (never call the implementation)
// ---------------------------------------------------------------------------------------------------
fn shuffle<T>(v: &mut Vec<T>, r: &mut Rng) {
    for i in (1..v.len()).rev() {
        let j = r.below(i as u64 + 1) as usize;
        v.swap(i, j);
    }
}

fn random_pd(r: &mut Rng, maxc: usize) -> PD {
    let mut pd = match r.below(4) {
        0 => { let t = table_knots(); r.pick(&t).1.clone() }
        _ => {
            let strands = 2 + r.below(3) as usize;
            let len = (strands - 1) + r.below((maxc - strands + 2) as u64) as usize;
            random_braid(r, strands, len.max(strands - 1))
        }
    };
    if r.chance(1, 4) { let c = r.below(97) as usize; let k = r.below(4); pd = add_kink(&pd, c, k); }
    if r.chance(1, 6) && pd.len() <= maxc / 2 + 1 { let t = table_knots(); let o = r.pick(&t).1.clone(); pd = split_union(&pd, &o); }
    if r.chance(1, 2) { pd = relabel(&pd, r); }
    if r.chance(1, 2) { pd = shuffle_crossings(&pd, r); }
    pd
}

/// a random complete resolution: every crossing becomes V or H
fn resolve_randomly(pd: &PD, r: &mut Rng) -> Vec<(char, [usize; 4])> {
    pd.iter().map(|x| (if r.bool() { 'V' } else { 'H' }, *x)).collect()
}

fn xs_str(xs: &[(char, [usize; 4])]) -> String {
    xs.iter().map(|(t, e)| format!("{} {} {} {} {}", t, e[0], e[1], e[2], e[3])).collect::<Vec<_>>().join(" , ")
}

/// the two strands of a resolved crossing as the generator sees them (pairs of labels)
fn strands(t: char, e: &[usize; 4]) -> [(usize, usize); 2] {
    match t { 'V' => [(e[0], e[3]), (e[1], e[2])], 'H' => [(e[0], e[1]), (e[2], e[3])], _ => [(e[0], e[2]), (e[1], e[3])] }
}

fn observers(r: &mut Rng, maxlabel: usize, ops: &mut Vec<String>) {
    match r.below(6) {
        0 => ops.push(format!("F {}", r.below(maxlabel as u64 + 2))),
        1 => ops.push(format!("G {}", r.below(4))),
        2 => ops.push(format!("Q a {} {}", r.below(maxlabel as u64 + 1), r.below(maxlabel as u64 + 1))),
        3 => ops.push(format!("Q c {}", r.below(maxlabel as u64 + 1))),
        _ => {}
    }
}

fn gen_kc(r: &mut Rng, maxc: usize) -> String {
    let pd = random_pd(r, maxc);
    let xs = resolve_randomly(&pd, r);
    let mut ops: Vec<String> = xs.iter().map(|(t, e)| format!("R {} {} {} {} {}", t, e[0], e[1], e[2], e[3])).collect();
    ops.push(format!("Z {}", xs_str(&xs)));
    for i in 0..3 { ops.push(format!("G {}", i)); }
    format!("kc {}", ops.join(" ; "))
}

/// the same resolved crossings glued in two different orders: the tangles must be == (Y)
fn gen_kp(r: &mut Rng, maxc: usize) -> String {
    let pd = random_pd(r, maxc);
    let mut xs = resolve_randomly(&pd, r);
    if r.chance(1, 3) { let k = 1 + r.below(xs.len() as u64) as usize; xs.truncate(k); }    // an open tangle
    let mut ops: Vec<String> = xs.iter().map(|(t, e)| format!("R {} {} {} {} {}", t, e[0], e[1], e[2], e[3])).collect();
    ops.push("S".into());
    let mut ys = xs.clone();
    shuffle(&mut ys, r);
    if r.bool() {
        ops.extend(ys.iter().map(|(t, e)| format!("R {} {} {} {} {}", t, e[0], e[1], e[2], e[3])));
    } else {
        // arc by arc, every arc in a random orientation
        let mut arcs: Vec<(usize, usize)> = ys.iter().flat_map(|(t, e)| strands(*t, e)).collect();
        shuffle(&mut arcs, r);
        for (a, b) in arcs {
            if a == b { ops.push(format!("K c {}", a)); }
            else if r.bool() { ops.push(format!("A {} {}", a, b)); } else { ops.push(format!("A {} {}", b, a)); }
        }
    }
    ops.push("Y".into());
    format!("kp {}", ops.join(" ; "))
}

/// an open tangle from a random subset of the resolved crossings, with observers in between
fn gen_kt(r: &mut Rng, maxc: usize) -> String {
    let pd = random_pd(r, maxc);
    let mut xs = resolve_randomly(&pd, r);
    shuffle(&mut xs, r);
    let k = 1 + r.below(xs.len() as u64) as usize;
    xs.truncate(k);
    let ml = max_edge(&pd);
    let mut ops = vec![];
    for (t, e) in xs.iter() {
        if r.chance(1, 5) { ops.push(format!("r {} {} {} {} {}", t, e[0], e[1], e[2], e[3])); }
        else { ops.push(format!("R {} {} {} {} {}", t, e[0], e[1], e[2], e[3])); }
        observers(r, ml, &mut ops);
    }
    if r.chance(1, 3) { ops.push(format!("E {} {} {}", 1 + r.below(3), r.below(5), 50 + r.below(200))); }
    if r.chance(1, 3) { ops.push(format!("D {}", r.below(3))); }
    format!("kt {}", ops.join(" ; "))
}

/// two tangles built separately and connected (Tng::connect of two glued tangles, as TngComplex::connect does)
fn gen_cn(r: &mut Rng, maxc: usize) -> String {
    let pd = random_pd(r, maxc);
    let mut xs = resolve_randomly(&pd, r);
    shuffle(&mut xs, r);
    let k = r.below(xs.len() as u64 + 1) as usize;
    let mut ops = vec![];
    for (t, e) in xs[..k].iter() { ops.push(format!("R {} {} {} {} {}", t, e[0], e[1], e[2], e[3])); }
    ops.push("S".into());
    for (t, e) in xs[k..].iter() { ops.push(format!("R {} {} {} {} {}", t, e[0], e[1], e[2], e[3])); }
    ops.push("J".into());
    if xs.len() == pd.len() { ops.push(format!("Z {}", xs_str(&xs))); }
    // and everything again in one go, must be ==
    ops.push("S".into());
    ops.push("N".into());
    for (t, e) in xs.iter() { ops.push(format!("R {} {} {} {} {}", t, e[0], e[1], e[2], e[3])); }
    ops.push("Y".into());
    format!("cn {}", ops.join(" ; "))
}

/// well-formed streams of longer arcs: a few disjoint simple paths / cycles cut into pieces
fn gen_wf(r: &mut Rng) -> String {
    let ncomp = 1 + r.below(4) as usize;
    let mut next = r.below(3) as usize;
    let mut pieces: Vec<Vec<usize>> = vec![];
    let mut lits: Vec<String> = vec![];
    for _ in 0..ncomp {
        let n = 2 + r.below(7) as usize;
        let mut labels: Vec<usize> = (0..n).map(|i| next + i).collect();
        next += n + r.below(2) as usize;
        shuffle(&mut labels, r);
        let closed = r.chance(2, 5);
        let walk: Vec<usize> = if closed { let mut w = labels.clone(); w.push(labels[0]); w } else { labels.clone() };
        lits.push(format!("{} {}", if closed { "c" } else { "a" }, labels.iter().map(|e| e.to_string()).collect::<Vec<_>>().join(" ")));
        // cut the walk into pieces of 2..4 labels overlapping in one label
        let mut i = 0;
        while i + 1 < walk.len() {
            let k = (1 + r.below(3) as usize).min(walk.len() - 1 - i);
            let mut p: Vec<usize> = walk[i..=i + k].to_vec();
            if p.first() == p.last() { // a full loop in one piece is not an arc: split it
                let mid = p.len() / 2;
                if mid == 0 { i += k; continue; }
                let q: Vec<usize> = p[mid..].to_vec();
                p.truncate(mid + 1);
                pieces.push(q);
            }
            if r.bool() { p.reverse(); }
            pieces.push(p);
            i += k;
        }
    }
    pieces.retain(|p| p.len() >= 2);
    shuffle(&mut pieces, r);
    let mut ops = vec![];
    let split = if r.bool() { pieces.len() } else { r.below(pieces.len() as u64 + 1) as usize };
    for (k, p) in pieces.iter().enumerate() {
        if k == split { ops.push("S".into()); }
        ops.push(format!("A {}", p.iter().map(|e| e.to_string()).collect::<Vec<_>>().join(" ")));
        observers(r, next, &mut ops);
    }
    if split < pieces.len() { ops.push("J".into()); }
    ops.push(format!("= {}", lits.join(" , ")));
    format!("wf {}", ops.join(" ; "))
}

fn rand_comp_lit(r: &mut Rng, range: u64) -> String {
    let n = match r.below(8) { 0 => 0, 1 | 2 => 1, 3 | 4 | 5 => 2, 6 => 3, _ => 4 };
    let es: Vec<String> = (0..n).map(|_| r.below(range).to_string()).collect();
    format!("{} {}", if r.chance(1, 4) { "c" } else { "a" }, es.join(" ")).trim().to_string()
}

/// malformed streams: few labels, repeated labels, one-label arcs, non-normalised Tng::new, unresolved crossings
fn gen_mf(r: &mut Rng) -> String {
    let range = 3 + r.below(5);
    let n = 2 + r.below(7) as usize;
    let mut ops = vec![];
    for _ in 0..n {
        match r.below(14) {
            0 | 1 => { let k = r.below(4) as usize; let cs: Vec<String> = (0..k).map(|_| rand_comp_lit(r, range)).collect(); ops.push(format!("N {}", cs.join(" , "))); }
            2 | 3 => { let k = r.below(3) as usize; let cs: Vec<String> = (0..k).map(|_| rand_comp_lit(r, range)).collect(); ops.push(format!("K {}", cs.join(" , "))); }
            4 => { let t = *r.pick(&['X', 'M', 'V', 'H', 'V', 'H']); ops.push(format!("{} {} {} {} {} {}", if r.bool() { "R" } else { "r" }, t, r.below(range), r.below(range), r.below(range), r.below(range))); }
            5 => ops.push("S".into()),
            6 => ops.push("J".into()),
            7 => ops.push(format!("D {}", r.below(4))),
            8 => ops.push(format!("E {} {} {}", r.below(3), r.below(4), 1 + r.below(6))),
            9 => { let k = r.below(3) as usize; let cs: Vec<String> = (0..k).map(|_| rand_comp_lit(r, range)).collect(); ops.push(format!("= {}", cs.join(" , "))); }
            10 => ops.push("Y".into()),
            _ => { let l = 1 + r.below(3) as usize; let es: Vec<String> = (0..l).map(|_| r.below(range).to_string()).collect();
                   ops.push(format!("A {}", if r.chance(1, 30) { String::new() } else { es.join(" ") }).trim().to_string()); }
        }
        observers(r, range as usize, &mut ops);
    }
    format!("mf {}", ops.join(" ; "))
}

fn gen_pc(r: &mut Rng) -> String {
    let range = 2 + r.below(6);
    let lit = |r: &mut Rng| {
        let n = match r.below(10) { 0 => 0, 1 | 2 => 1, 3 | 4 => 2, 5 | 6 => 3, 7 => 4, _ => 5 };
        let mut es: Vec<u64> = (0..n).map(|_| r.below(range)).collect();
        if r.bool() { es.sort(); es.dedup(); shuffle(&mut es, r); }
        let s: Vec<String> = es.iter().map(|e| e.to_string()).collect();
        (if r.chance(1, 3) { "c" } else { "a" }, s)
    };
    let (k1, e1) = lit(r);
    let (k2, e2) = match r.below(4) {
        // the same path reversed / rotated / as is
        0 => { let mut e = e1.clone(); e.reverse(); (k1, e) }
        1 => { let mut e = e1.clone(); if !e.is_empty() { let k = r.below(e.len() as u64) as usize; e.rotate_left(k); if r.bool() { e.reverse(); } } (k1, e) }
        _ => lit(r),
    };
    format!("pc {} {} , {} {}", k1, e1.join(" "), k2, e2.join(" "))
}


fn rand_gxy(r: &mut Rng) -> (u64, u64, u64) {
    if r.chance(3, 4) { (0, 0, 0) } else { (r.below(3), r.below(3), r.below(3)) }
}

fn cb_term(r: &mut Rng, e: &[usize; 4], saddle: bool) -> String {
    let (g, x, y) = rand_gxy(r);
    if saddle {
        format!("s {} {} {} {} {} {} {} {}", if r.bool() { 'X' } else { 'M' }, e[0], e[1], e[2], e[3], g, x, y)
    } else {
        format!("i {} {} {} {} {} {} {} {}", if r.bool() { 'V' } else { 'H' }, e[0], e[1], e[2], e[3], g, x, y)
    }
}

/// cobordisms glued from saddles and cylinders of the crossings of a diagram (as TngComplex::connect_edges does)
fn gen_cb(r: &mut Rng, maxc: usize) -> String {
    let mut pd = random_pd(r, maxc);
    shuffle(&mut pd, r);
    if r.chance(1, 3) { let k = 1 + r.below(pd.len() as u64) as usize; pd.truncate(k); }
    let nsdl = match r.below(4) { 0 => 0, 1 | 2 => 1, _ => 2 };
    let mut terms: Vec<String> = pd.iter().enumerate().map(|(k, e)| cb_term(r, e, k < nsdl)).collect();
    shuffle(&mut terms, r);
    if r.chance(1, 8) { let (g, x, y) = (r.below(3), r.below(3), r.below(3)); terms.push(format!("c {} {} {}", g, x, y)); }
    format!("cb {}", terms.join(" ; "))
}

fn gen_cx(r: &mut Rng, maxc: usize) -> String {
    let pd = random_pd(r, maxc);
    let i = r.below(pd.len() as u64) as usize;
    let j = r.below(pd.len() as u64) as usize;
    if i == j { return gen_cb(r, maxc); }
    let (sa, sb) = (r.bool(), r.bool());
    let a = cb_term(r, &pd[i], sa);
    let b = cb_term(r, &pd[j], sb);
    format!("cx {} ; {}", a, b)
}


// ---------------------------------------------------------------------------------------------------
// generators for vertical composition (abstract surfaces: every group of components of the current tangle goes to
// new components with the same end points; never call the implementation)
// ---------------------------------------------------------------------------------------------------
#[derive(Clone, Debug, PartialEq)]
struct GComp { closed: bool, es: Vec<usize> }

#[derive(Clone, Debug)]
struct GGroup { src: Vec<GComp>, tgt: Vec<GComp>, g: u64, x: u64, y: u64 }

fn gc_str(c: &GComp) -> String {
    format!("{} {}", if c.closed { "c" } else { "a" }, c.es.iter().map(|e| e.to_string()).collect::<Vec<_>>().join(" "))
}

/// the same component in another stored orientation / rotation (== for the library)
fn reorient(c: &GComp, r: &mut Rng) -> GComp {
    let mut es = c.es.clone();
    if r.bool() { es.reverse(); }
    if c.closed && !es.is_empty() { let k = r.below(es.len() as u64) as usize; es.rotate_left(k); }
    GComp { closed: c.closed, es }
}

fn fresh_labels(n: usize, fresh: &mut usize) -> Vec<usize> {
    let v: Vec<usize> = (0..n).map(|i| *fresh + i).collect();
    *fresh += n;
    v
}

fn random_gtangle(r: &mut Rng, fresh: &mut usize) -> Vec<GComp> {
    let na = r.below(4) as usize;
    let nc = r.below(3) as usize;
    let mut t = vec![];
    for _ in 0..na { let n = 2 + r.below(3) as usize; let mut es = fresh_labels(n, fresh); if r.bool() { shuffle(&mut es, r); } t.push(GComp { closed: false, es }); }
    for _ in 0..nc { let n = 1 + r.below(3) as usize; let mut es = fresh_labels(n, fresh); if r.bool() { shuffle(&mut es, r); } t.push(GComp { closed: true, es }); }
    shuffle(&mut t, r);
    t
}

fn gen_group_tgt(r: &mut Rng, src: &[GComp], fresh: &mut usize, iso: bool) -> Vec<GComp> {
    let arcs: Vec<&GComp> = src.iter().filter(|c| !c.closed).collect();
    let circs: Vec<&GComp> = src.iter().filter(|c| c.closed).collect();
    let mut tgt = vec![];
    if iso {
        for a in arcs.iter() {
            let mut es = vec![a.es[0]]; es.extend(fresh_labels(r.below(2) as usize, fresh)); es.push(*a.es.last().unwrap());
            tgt.push(if r.bool() { (*a).clone() } else { GComp { closed: false, es } });
        }
        for c in circs.iter() { tgt.push(if r.bool() { (*c).clone() } else { GComp { closed: true, es: fresh_labels(1 + r.below(2) as usize, fresh) } }); }
        return tgt;
    }
    if !arcs.is_empty() {
        if r.chance(2, 5) {
            for a in arcs.iter() { tgt.push((*a).clone()); }
        } else {
            let mut ends: Vec<usize> = arcs.iter().flat_map(|a| vec![a.es[0], *a.es.last().unwrap()]).collect();
            shuffle(&mut ends, r);
            for k in 0..ends.len() / 2 {
                let mut es = vec![ends[2 * k]]; es.extend(fresh_labels(r.below(3) as usize, fresh)); es.push(ends[2 * k + 1]);
                tgt.push(GComp { closed: false, es });
            }
        }
    }
    if !circs.is_empty() && r.chance(2, 5) {
        for c in circs.iter() { tgt.push((*c).clone()); }
    } else {
        let n = if src.is_empty() { 1 + r.below(2) } else { r.below(3) };
        for _ in 0..n { tgt.push(GComp { closed: true, es: fresh_labels(1 + r.below(3) as usize, fresh) }); }
    }
    tgt
}

/// genus and dots of a generated component: mostly plain, and a budget per case keeps part_eval small
/// (2^genus leaves; coefficients stay far below i64::MAX)
fn budget_gxy(r: &mut Rng, budget: &mut (u64, u64)) -> (u64, u64, u64) {
    if r.chance(3, 4) { return (0, 0, 0); }
    let g = r.below(3).min(budget.0);
    budget.0 -= g;
    let x = r.below(3).min(budget.1);
    budget.1 -= x;
    let y = r.below(3).min(budget.1);
    budget.1 -= y;
    (g, x, y)
}

fn gen_glayer(r: &mut Rng, cur: &[GComp], fresh: &mut usize, iso: bool, budget: &mut (u64, u64)) -> Vec<GGroup> {
    let mut comps: Vec<GComp> = cur.to_vec();
    shuffle(&mut comps, r);
    let mut groups = vec![];
    let mut i = 0;
    while i < comps.len() {
        let k = if iso { 1 } else { match r.below(6) { 0 | 1 | 2 => 1, 3 | 4 => 2, _ => 3 } }.min(comps.len() - i);
        let src: Vec<GComp> = comps[i..i + k].to_vec();
        i += k;
        let tgt = gen_group_tgt(r, &src, fresh, iso);
        let (g, x, y) = if iso { (0, 0, 0) } else { budget_gxy(r, budget) };
        groups.push(GGroup { src, tgt, g, x, y });
    }
    if !iso && r.chance(1, 3) {
        let tgt = gen_group_tgt(r, &[], fresh, false);
        let (g, x, y) = budget_gxy(r, budget);
        groups.push(GGroup { src: vec![], tgt, g, x, y });
    }
    if !iso && r.chance(1, 10) {
        let (g, x, y) = (r.below(3).min(budget.0), r.below(3).min(budget.1), 0);
        budget.0 -= g; budget.1 -= x;
        groups.push(GGroup { src: vec![], tgt: vec![], g, x, y: y + r.below(2) });
    }
    shuffle(&mut groups, r);
    groups
}

fn comps_lit(cs: &[GComp], r: &mut Rng, re: bool) -> String {
    cs.iter().map(|c| gc_str(&if re { reorient(c, r) } else { c.clone() })).collect::<Vec<_>>().join(" , ")
}

fn group_term(r: &mut Rng, g: &GGroup) -> String {
    let plain = g.g == 0 && g.x == 0 && g.y == 0;
    let (s, t) = (&g.src, &g.tgt);
    if plain && r.chance(2, 3) {
        if s.is_empty() && t.len() == 1 && t[0].closed { return format!("cup {}", gc_str(&t[0])); }
        if s.len() == 1 && t.is_empty() { return format!("cap {}", gc_str(&reorient(&s[0], r))); }
        if s.len() == 1 && t.len() == 1 && s[0] == t[0] { return format!("id {}", gc_str(&s[0])); }
        if s.len() == 2 && t.len() == 1 && (s[0].closed || s[1].closed) { return format!("mg {} > {}", comps_lit(s, r, true), comps_lit(t, r, false)); }
        if s.len() == 1 && t.len() == 2 && (t[0].closed || t[1].closed) { return format!("sp {} > {}", comps_lit(s, r, true), comps_lit(t, r, false)); }
        if s.len() == 2 && t.len() == 2 && s.iter().chain(t.iter()).all(|c| !c.closed) && s.iter().all(|a| t.iter().all(|b| a != b)) {
            return format!("sd {} > {}", comps_lit(s, r, true), comps_lit(t, r, false));
        }
    }
    format!("n {} > {} @ {} {} {}", comps_lit(s, r, true), comps_lit(t, r, false), g.g, g.x, g.y)
}

fn layer_lit(r: &mut Rng, groups: &[GGroup]) -> String {
    format!("N {}", groups.iter().map(|g| group_term(r, g)).collect::<Vec<_>>().join(" ; "))
}

fn tgt_of(groups: &[GGroup]) -> Vec<GComp> { groups.iter().flat_map(|g| g.tgt.clone()).collect() }

fn co_op(r: &mut Rng, t: &[GComp], side: &str) -> Option<String> {
    let cs: Vec<&GComp> = t.iter().filter(|c| c.closed).collect();
    if cs.is_empty() { return None; }
    let c = reorient(*r.pick(&cs), r);
    Some(format!("CO {} {} {}", side, gc_str(&c), r.pick(&["N", "X", "Y"])))
}

fn small_ht(r: &mut Rng) -> (i64, i64) { (r.range(-2, 3), r.range(-2, 2)) }

/// explicit layers over abstract tangles
fn gen_sk_n(r: &mut Rng) -> String {
    let mut fresh = r.below(4) as usize;
    let t0 = random_gtangle(r, &mut fresh);
    let mut t = t0.clone();
    let nl = 2 + r.below(3) as usize;
    let mut ops = vec![];
    let mut layers: Vec<String> = vec![];
    let mut budget = (3u64, 6u64);
    for _ in 0..nl {
        let iso = r.chance(1, 6);
        let groups = gen_glayer(r, &t, &mut fresh, iso, &mut budget);
        layers.push(layer_lit(r, &groups));
        t = tgt_of(&groups);
    }
    // malformed: drop a term, swap two layers, or replace a layer by cylinders over other labels (same number of middle
    // components, none of them contained: is_stackable must look at the components, not only at their number)
    if r.chance(1, 10) {
        match r.below(3) {
            0 if layers.len() >= 2 => { let k = layers.len(); layers.swap(0, k - 1); }
            1 => { let k = r.below(layers.len() as u64) as usize; let mut ts: Vec<&str> = layers[k][2..].split(" ; ").collect(); if ts.len() > 1 { ts.remove(0); } layers[k] = format!("N {}", ts.join(" ; ")); }
            _ => {
                let k = 1 + r.below(layers.len() as u64 - 1) as usize;
                let n = layers[k].matches(" a ").count() + layers[k].matches(" c ").count();
                let m = 1 + r.below(3) as usize;
                let ts: Vec<String> = (0..m.min(n.max(1))).map(|i| format!("id c {}", 900 + i)).collect();
                layers[k] = format!("N {}", ts.join(" ; "));
            }
        }
    }
    // an empty layer in between (the shortcuts of Cob::stack)
    if r.chance(1, 10) { let k = r.below(layers.len() as u64 + 1) as usize; layers.insert(k, "N".into()); }
    for l in layers.iter() {
        ops.push(format!("L {}", l));
        if r.chance(1, 4) { ops.push("ID".into()); }
        if r.chance(1, 4) { ops.push("INV".into()); }
        ops.push("ST".into());
    }
    ops.push("AS".into());
    ops.push("SRC".into());
    if r.chance(1, 3) { if let Some(o) = co_op(r, &t, "T") { ops.push(o); } }
    if r.chance(1, 4) { if let Some(o) = co_op(r, &t0, "S") { ops.push(o); } }
    if r.chance(1, 3) { let (h, t) = small_ht(r); ops.push(format!("PE {} {}", h, t)); }
    format!("sk {}", ops.join(" // "))
}

/// consecutive edges of the cube of resolutions: saddle at one crossing, cylinders over the resolutions of the others
fn gen_sk_k(r: &mut Rng, maxc: usize) -> String {
    let mut pd = random_pd(r, maxc);
    shuffle(&mut pd, r);
    if r.chance(1, 3) { let k = 2 + r.below(pd.len() as u64) as usize; pd.truncate(k.min(pd.len())); }
    let n = pd.len();
    let types: Vec<bool> = (0..n).map(|_| r.bool()).collect();              // true = X, false = Xm
    let mut state: Vec<bool> = (0..n).map(|_| r.chance(1, 3)).collect();
    let nflip = (1 + r.below(3) as usize).min(n);
    let mut order: Vec<usize> = (0..n).collect();
    shuffle(&mut order, r);
    for &i in order[..nflip].iter() { state[i] = false; }
    let mut ops = vec![];
    for (step, &i) in order[..nflip].iter().enumerate() {
        let mut terms = vec![];
        for q in 0..n {
            let e = &pd[q];
            let (g, x, y) = if r.chance(1, 8) { (r.below(2), r.below(2), r.below(2)) } else { (0, 0, 0) };
            if q == i {
                terms.push(format!("s {} {} {} {} {} {} {} {}", if types[q] { 'X' } else { 'M' }, e[0], e[1], e[2], e[3], g, x, y));
            } else {
                let horizontal = types[q] != state[q];                         // (X,0) | (Xm,1) -> H
                terms.push(format!("i {} {} {} {} {} {} {} {}", if horizontal { 'H' } else { 'V' }, e[0], e[1], e[2], e[3], g, x, y));
            }
        }
        shuffle(&mut terms, r);
        ops.push(format!("L K {}", terms.join(" ; ")));
        if step == 0 && r.chance(1, 4) { ops.push("ID".into()); }
        ops.push("ST".into());
        state[i] = true;
    }
    ops.push("AS".into());
    ops.push("SRC".into());
    if r.chance(1, 4) { let (h, t) = small_ht(r); ops.push(format!("PE {} {}", h, t)); }
    format!("sk {}", ops.join(" // "))
}

/// linear combinations: every stage offers 1-3 cobordisms between the same tangles (coarsenings, other genus / dots)
fn gen_sk_lc(r: &mut Rng) -> String {
    let mut fresh = r.below(4) as usize;
    let mut t = random_gtangle(r, &mut fresh);
    let stages = 2 + r.below(2) as usize;
    let mut ops = vec![];
    let mut budget = (2u64, 4u64);
    for _ in 0..stages {
        let iso = r.chance(1, 5);
        let groups = gen_glayer(r, &t, &mut fresh, iso, &mut budget);
        let nalt = if iso { 1 } else { 1 + r.below(3) as usize };
        let mut alts = vec![];
        for a in 0..nalt {
            let mut gs = groups.clone();
            if a > 0 {
                if gs.len() >= 2 && r.bool() {
                    let j = gs.remove(1 + r.below(gs.len() as u64 - 1) as usize);
                    gs[0].src.extend(j.src); gs[0].tgt.extend(j.tgt);
                    gs[0].x += j.x; gs[0].y += j.y;
                }
                for g in gs.iter_mut() { if r.chance(1, 3) { let (gg, x, y) = budget_gxy(r, &mut budget); g.g = gg; g.x = x; g.y = y; } }
            }
            let coef = if iso { *r.pick(&[1i64, -1, 1, -1, 2]) } else { r.range(-2, 2) };
            alts.push(format!("{} : {}", coef, layer_lit(r, &gs)));
        }
        ops.push(format!("LC {}", alts.join(" | ")));
        if iso || r.chance(1, 6) { ops.push("LINV".into()); }
        ops.push("MUL".into());
        t = tgt_of(&groups);
    }
    let (h, tt) = small_ht(r);
    ops.push(format!("LPE {} {}", h, tt));
    format!("sk {}", ops.join(" // "))
}

// ---------------------------------------------------------------------------------------------------
// generators for the tangle complex (never call the implementation)
// ---------------------------------------------------------------------------------------------------
fn tc_ht(r: &mut Rng) -> (i64, i64) {
    match r.below(4) { 0 | 1 => (0, 0), 2 => (r.range(-2, 3), 0), _ => small_ht(r) }
}

fn tc_x(r: &mut Rng, e: &[usize; 4]) -> String {
    let t = match r.below(16) { 0 => 'V', 1 => 'H', k if k % 2 == 0 => 'X', _ => 'M' };
    format!("X {} {} {} {} {}", t, e[0], e[1], e[2], e[3])
}

fn tc_small_pd(r: &mut Rng, maxc: usize) -> PD {
    let maxc = maxc.max(4);
    for _ in 0..50 {
        let pd = random_pd(r, maxc);
        if pd.len() <= maxc { return pd; }
    }
    table_knots()[0].1.clone()
}

/// the builder's pattern: after every crossing deloop / eliminate (all, some, or nothing), everything at the end
fn gen_tc(r: &mut Rng, maxc: usize) -> String {
    let mut pd = tc_small_pd(r, maxc);
    if r.bool() { shuffle(&mut pd, r); }
    if r.chance(1, 6) { let k = 1 + r.below(pd.len() as u64) as usize; pd.truncate(k); }       // an open tangle
    let (h, t) = tc_ht(r);
    let bp = if r.chance(1, 3) { let x = r.pick(&pd); r.pick(&x[..]).to_string() } else { "-".into() };
    // the reduced theory needs t = 0 (KhComplex::new asserts it: X^2 = hX + t must stay in the span of X)
    let t = if bp == "-" { t } else { 0 };
    let mut ops = vec![format!("I {} {} {} {} {}", h, t, r.range(-2, 2), r.range(-3, 3), bp)];
    let style = r.below(4);         // 0: greedy (deloop all, eliminate all), 1: single steps, 2: lazy (nothing until the end), 3: mixed
    let lazy_ok = pd.len() <= 4;
    for e in pd.iter() {
        ops.push(tc_x(r, e));
        let s = if style == 3 { r.below(3) } else { style };
        match s {
            0 => { ops.push("DLA 0".into()); ops.push(format!("ELA {}", r.below(5))); }
            1 => {
                for _ in 0..r.below(3) { ops.push("DL 0".into()); }
                for _ in 0..r.below(3) { ops.push(format!("EL {}", r.below(7))); }
                if !lazy_ok || r.chance(1, 3) { ops.push("DLA 0".into()); ops.push(format!("ELA {}", r.below(5))); }
            }
            _ => { if !lazy_ok { ops.push("DLA 0".into()); ops.push(format!("ELA {}", r.below(5))); } }
        }
    }
    ops.push("DLA 0".into());
    ops.push(format!("ELA {}", r.below(5)));
    if r.chance(1, 5) { ops.push("EV".into()); }
    ops.push("DLA 1".into());
    ops.push(format!("ELA {}", r.below(5)));
    ops.push("EV".into());
    ops.push("RAW".into());
    format!("tc {}", ops.join(" // "))
}

/// two complexes built separately (partly simplified) and connected
fn gen_tc_co(r: &mut Rng, maxc: usize) -> String {
    let mut pd = tc_small_pd(r, maxc.min(4));
    shuffle(&mut pd, r);
    let k = r.below(pd.len() as u64 + 1) as usize;
    let (h, t) = tc_ht(r);
    let bp = if r.chance(1, 3) { let x = r.pick(&pd); Some(*r.pick(&x[..])) } else { None };
    let t = if bp.is_none() { t } else { 0 };
    let bps = |b: Option<usize>| b.map(|e| e.to_string()).unwrap_or("-".into());
    let (b1, b2) = match r.below(4) { 0 => (bp, bp), 1 => (bp, None), 2 => (None, bp), _ => (bp, if r.chance(1, 8) { Some(999) } else { None }) };
    let mut ops = vec![format!("I {} {} {} {} {}", h, t, r.range(-1, 1), r.range(-1, 1), bps(b1))];
    for e in pd[..k].iter() { ops.push(tc_x(r, e)); if r.chance(1, 3) { ops.push("DLA 0".into()); ops.push("ELA 0".into()); } }
    ops.push("SW".into());
    let h2 = if r.chance(1, 12) { h + 1 } else { h };
    ops.push(format!("I {} {} {} {} {}", h2, t, r.range(-1, 1), r.range(-1, 1), bps(b2)));
    for e in pd[k..].iter() { ops.push(tc_x(r, e)); if r.chance(1, 3) { ops.push("DLA 0".into()); ops.push("ELA 0".into()); } }
    if r.bool() { ops.push("SW".into()); }
    ops.push("CO".into());
    ops.push("DLA 0".into());
    ops.push(format!("ELA {}", r.below(3)));
    ops.push("DLA 1".into());
    ops.push(format!("ELA {}", r.below(3)));
    ops.push("EV".into());
    ops.push("RAW".into());
    format!("tc {}", ops.join(" // "))
}

/// malformed: explicit keys that are missing / not loops / not invertible, removed vertices, repeated or degenerate crossings
fn gen_tc_mf(r: &mut Rng) -> String {
    let mut pd = tc_small_pd(r, 4);
    shuffle(&mut pd, r);
    pd.truncate(3);
    let (h, t) = tc_ht(r);
    let bp = if r.chance(1, 4) { let x = r.pick(&pd); r.pick(&x[..]).to_string() } else { "-".into() };      // also with t != 0
    let mut ops = vec![format!("I {} {} 0 0 {}", h, t, bp)];
    let n = pd.len();
    let rand_key = |r: &mut Rng, n: usize| {
        let s: String = (0..n).map(|_| if r.bool() { '1' } else { '0' }).collect();
        let l: String = (0..r.below(3)).map(|_| if r.bool() { 'X' } else { 'I' }).collect();
        format!("{}/{}", s, l)
    };
    for (i, e) in pd.iter().enumerate() {
        ops.push(tc_x(r, e));
        if r.chance(1, 10) { ops.push(tc_x(r, e)); }
        if r.chance(1, 10) { let a = r.below(4); ops.push(format!("X X {} {} {} {}", a, a, r.below(4), r.below(4))); }
        match r.below(8) {
            0 => ops.push(format!("DX {} {}", rand_key(r, i + 1), r.below(3))),
            1 => ops.push(format!("EX {} {}", rand_key(r, i + 1), rand_key(r, i + 1))),
            2 => ops.push(format!("RV {}", rand_key(r, i + 1))),
            3 => ops.push("DL 0".into()),
            4 => ops.push(format!("SH {} {}", r.range(-2, 2), r.range(-2, 2))),
            _ => {}
        }
    }
    ops.push("DLA 0".into());
    for _ in 0..3 {
        match r.below(4) {
            0 => ops.push(format!("EX {} {}", rand_key(r, n), rand_key(r, n))),
            1 => ops.push(format!("RV {}", rand_key(r, n))),
            2 => ops.push(format!("DX {} 0", rand_key(r, n))),
            _ => ops.push(format!("EL {}", r.below(5))),
        }
    }
    ops.push("EV".into());
    ops.push("RAW".into());
    format!("tm {}", ops.join(" // "))
}

fn fixed_cases() -> Vec<String> {
    let mut v: Vec<String> = vec![
        // the unit tests of tng.rs / path.rs
        "mf A 0 1 ; A 2 3 ; A 1 2 ; A 0 3".into(),
        "mf N a 0 1 , a 2 3 , c 10 ; K a 1 2 , a 3 4 , c 11 ; = a 0 1 2 3 4 , c 10 , c 11".into(),
        "mf A 0 1 ; A 2 3 ; A 2 3 ; F 2 ; D 1".into(),
        "mf N a 0 1 , a 2 3 , c 10 ; E 1 100 1000".into(),
        "mf N a 0 1 , a 2 3 ; = a 2 3 , a 0 1".into(),
        // the empty circle: arc[1] + arc[1], and its panics
        "mf A 1 ; A 1 ; G 0 ; A 2 3 ; K c 5".into(),
        "mf A 1 ; A 1 ; K c 5".into(),
        "mf A 1 ; A 1 ; E 1 0 7".into(),
        "mf N c 4 ; A 1 ; A 1".into(),
        // the index shift of append_arc when the second match precedes the first (non-normalised input)
        "mf N a 0 1 , a 1 2 , a 5 6 ; A 2 5".into(),
        "mf N a 0 9 , a 9 8 , a 1 2 ; A 2 8".into(),
        "mf N a 3 4 , a 4 6 ; A 6 7".into(),
        "mf N a 2 3 , a 3 4 ; A 4 2".into(),
        "mf A ; A 1 2".into(),
        "mf R X 1 2 3 4".into(),
        "mf r V 1 1 1 1 ; r H 1 2 2 1 ; r V 1 2 2 1 ; r V 1 1 2 2 ; r H 1 1 2 2 ; r V 1 2 1 3".into(),
        "mf N a 1 2 , a 1 2 ; Q a 2 1 ; = a 2 1 , a 2 1 ; Y".into(),
        "pc a 0 1 2 , a 2 1 0".into(),
        "pc c 0 1 2 , c 1 2 0".into(),
        "pc c 0 1 2 , c 2 1 0".into(),
        "pc c 0 1 2 , c 1 2 3".into(),
        "pc a 1 2 3 4 , a 1".into(),
        "pc a 1 2 3 4 , a 4".into(),
        "pc a 1 , a 1".into(),
        "pc a 1 2 , a 2 1".into(),
        "pc a 1 2 1 , a 1 3".into(),
        "pc c 1 1 2 , c 1 2 1".into(),
        "pc a , a 1".into(),
        // cob.rs unit tests: connect_incr_genus in the language of crossings (two parallel strands joined twice)
        "cb i H 1 2 3 4 0 0 0 ; i V 1 5 6 3 0 0 0 ; i V 2 7 8 4 0 0 0".into(),
        "cb s X 1 2 3 4 0 0 0 ; i V 2 5 6 3 0 0 0 ; i H 1 7 8 4 0 0 0".into(),
        "cb s X 1 4 2 5 0 0 0 ; i V 3 6 4 1 0 0 0 ; i H 5 2 6 3 0 0 0".into(),
        "cb s X 4 1 3 2 0 0 0 ; s M 2 3 1 4 0 0 0".into(),
        "cb i V 4 1 3 2 0 0 0 ; i H 2 3 1 4 0 0 0".into(),
        "cb c 0 0 0 ; c 1 1 0 ; i V 1 2 3 4 1 1 1".into(),
        "cb s V 1 2 3 4 0 0 0".into(),
        "cb i X 1 2 3 4 0 0 0".into(),
        "cx s X 1 2 3 4 0 0 0 ; i V 5 6 7 8 0 0 0".into(),
        "cx s X 1 2 3 4 0 0 0 ; i V 2 6 7 3 0 1 0".into(),
        "cx c 0 0 0 ; i V 2 6 7 3 0 1 0".into(),
        // cob.rs unit tests: stack_closed, stack_cup_cap, stack_cap_cup, stack_comps, stack_id, stack_torus, inv, mor_inv
        "sk L N c 0 0 0 // ST // L N c 1 0 0 // ST // AS".into(),
        "sk L N cup c 0 // ST // L N cap c 0 // ST // AS // PE 0 0".into(),
        "sk L N cap c 0 // ST // L N cup c 0 // ST // AS".into(),
        "sk L N id a 0 1 ; cup c 2 // ST // L N cap c 2 ; id a 0 1 // ST // AS // SRC".into(),
        "sk L N s X 0 1 2 3 0 0 0 ; cup c 4 ; cap c 5 // ID // ST // SRC".into(),
        "sk L N cup c 0 // ST // L N sp c 0 > c 1 , c 2 // ST // L N mg c 1 , c 2 > c 3 // ST // L N cap c 3 // ST // AS // PE 1 2 // PE 0 0".into(),
        "sk L N id a 0 1 ; n c 2 > c 3 @ 0 0 0 // INV // ID // ST".into(),
        "sk L N sd a 1 2 , a 3 4 > a 1 3 , a 2 4 // INV // ID".into(),
        "sk LC -1 : N id a 0 1 ; id a 2 3 // LINV // MUL // LC 2 : N id a 0 1 ; id a 2 3 // LINV // MUL".into(),
        // connect_incr_genus with cap_off
        "sk L N n a 1 2 , a 3 4 > a 1 2 , a 3 4 @ 0 0 0 // ST // L K n a 1 2 , a 3 4 > a 1 2 , a 3 4 @ 0 0 0 ; id a 1 3 ; id a 2 4 // SRC // ID".into(),
        "sk L N n c 1 , c 2 > c 1 , c 2 @ 1 0 0 // ST // CO S c 1 N // CO T c 2 X // CO S c 2 Y // CO T c 1 N // PE 1 1".into(),
        "sk L N id c 1 // ST // CO S c 1 X // CO T c 1 N // CO T c 1 N".into(),
        "sk L N id a 1 2 // ST // CO S a 1 2 N".into(),
        // part_eval unit test: X^2 = 2X
        "sk LC -2 : N n c 1 > c 1 @ 0 1 0 | 1 : N n c 1 > c 1 @ 0 2 0 // MUL // LPE 2 0".into(),
        // not stackable: release build goes on
        "sk L N id a 0 1 // ST // L N id a 2 3 // ST // AS".into(),
        "sk L N cup c 1 // ST // L N id c 1 ; id c 1 // ST".into(),
        "sk L N id c 1 ; id c 2 // ST // L N n c 1 , c 2 > c 3 @ 0 0 0 ; id c 1 // ST // AS".into(),
        // same number of middle components, other components: is_stackable = false
        "sk L N id c 1 ; id c 2 // ST // L N id c 1 ; id c 3 // ST // AS".into(),
        "sk L N id a 1 2 ; id c 3 // ST // L N id a 1 2 3 ; id c 3 // ST".into(),
        // the empty cobordism on either side
        "sk L N id c 1 // ST // L N // ST // L N id c 1 // ST // AS // ID // INV".into(),
        "sk L N // ST // L N // ST // AS // SRC // ID // INV // PE 1 1".into(),
    ];
    // every table diagram, every complete resolution of the small ones
    for (_, pd) in table_knots() {
        if pd.len() > 4 { continue; }
        for s in 0..(1u32 << pd.len()) {
            let xs: Vec<(char, [usize; 4])> = pd.iter().enumerate().map(|(i, x)| (if (s >> i) & 1 == 1 { 'V' } else { 'H' }, *x)).collect();
            let mut ops: Vec<String> = xs.iter().map(|(t, e)| format!("R {} {} {} {} {}", t, e[0], e[1], e[2], e[3])).collect();
            ops.push(format!("Z {}", xs_str(&xs)));
            v.push(format!("kc {}", ops.join(" ; ")));
        }
    }
    v
}

fn main() {
    quiet_panics();
    match parse_args() {
        Mode::Gen { seed, thorough, out } => {
            let mut o = Out::new(&out);
            let mut r = Rng::new(seed);
            for c in fixed_cases() { let res = run_case(&c); o.case(&c, &res); }
            let (n, maxc) = if thorough { (80000, 14) } else { (8000, 9) };
            let (ntc, tcmax) = if thorough { (5000, 6) } else { (600, 5) };
            for i in 0..n {
                let c = match i % 12 {
                    8 => match (i / 12) % 4 { 0 | 1 => gen_sk_n(&mut r), 2 => gen_sk_k(&mut r, maxc.min(6)), _ => gen_sk_lc(&mut r) },
                    10 => gen_cb(&mut r, maxc.min(8)),
                    11 => if i % 24 == 11 { gen_cx(&mut r, maxc.min(8)) } else { gen_cb(&mut r, maxc.min(8)) },
                    0 => gen_kc(&mut r, maxc),
                    1 => gen_kp(&mut r, maxc),
                    2 => gen_kt(&mut r, maxc),
                    3 => gen_cn(&mut r, maxc),
                    4 | 5 => gen_wf(&mut r),
                    6 | 7 => gen_mf(&mut r),
                    _ => gen_pc(&mut r),
                };
                let res = run_case(&c);
                o.case(&c, &res);
            }
            // the tangle complex: a stream of its own (the cases above are those of the earlier layers, unchanged)
            let mut r = Rng::new(seed ^ 0x7c01);
            for i in 0..ntc {
                let c = match i % 8 { 0..=4 => gen_tc(&mut r, tcmax), 5 | 6 => gen_tc_co(&mut r, tcmax), _ => gen_tc_mf(&mut r) };
                let res = run_case(&c);
                o.case(&c, &res);
            }
            o.finish();
        }
        Mode::Replay { file, out } => {
            let mut o = Out::new(&out);
            for c in read_lines(&file) { let res = run_case(&c); o.case(&c, &res); }
            o.finish();
        }
    }
}
