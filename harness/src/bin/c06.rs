//! C06 harness: canonical (Lee) cycles and the s-type invariant `ss_invariant`.
//! case lines / results (relations are evaluated by the check module):
//!   cyc <signs> ; <knot>                 per (h, red): "h=<h> r=<red> n=<#cycles> deg0=<0|1> cyc=<0|1> nontors=<0|1>" ...
//!   lee ; <link>                 "comps=<k> Z10=<total rank>/<#torsion> Q01=<total rank>/<#torsion>"
//!   ss <c> ; <knot> ; <moved>    "K=<u>,<r> M=<u>,<r> MIR=<u>,<r> X=[<sign>:<ss after change>,...]"   (u/r = unreduced/reduced)
//!   ssh <ring> ; <knot> ; <moved>   same with c = H over F2[H], F3[H], Q[H]
//!   sso <c> <red> <bound> ; <knot>   "<ss>" = ss_invariant(l, c, red) over i64 and BigInt (must agree: "<a>|<b>" otherwise),
//!                                    compared exactly with the definition-level oracle `ss_spec` of the Coq model
//!                                    (the model prints SKIP when a chain group around degree 0 exceeds <bound> generators)
use yui::poly::Poly;
use yui::{EucRing, EucRingOps, Ratio, FF};
use yui_homology::{GridTrait, SummandTrait};
use yui_kh::kh::{ss_invariant, KhChainExt, KhComplex, KhHomology};
use yui_link::Link;
use yui_verif_harness::khutil::*;
use yui_verif_harness::*;
use num_traits::Zero;

fn cyc_case(l: &Link) -> String {
    let mut out = vec![];
    for h in [0i64, 1, 2, 3] {
        for red in [false, true] {
            let res = guarded(|| {
                let c = KhComplex::<i64>::new(l, &h, &0, red);
                let zs = c.canon_cycles().clone();
                let deg0 = zs.iter().all(|z| z.is_zero() || z.h_deg() == 0);
                let cyc = zs.iter().all(|z| c.d(0, z).is_zero());
                // classes are non-torsion when h != 0: some coordinate in the free part is non-zero
                let nontors = if h != 0 {
                    let kh = KhHomology::from(&c);
                    let r = kh[0].rank();
                    zs.iter().all(|z| {
                        let v = kh[0].vectorize_euc(z);
                        v.subvec(0..r).iter().any(|(_, a)| !a.is_zero())
                    })
                } else { true };
                format!("h={} r={} n={} deg0={} cyc={} nontors={}", h, red as u8, zs.len(), deg0 as u8, cyc as u8, nontors as u8)
            });
            out.push(res.unwrap_or(format!("h={} r={} PANIC", h, red as u8)));
        }
    }
    out.join(" ; ")
}

fn total<R>(l: &Link, h: &R, t: &R) -> String
where R: EucRing + std::fmt::Display, for<'x> &'x R: EucRingOps<R> {
    guarded(|| {
        let kh = KhHomology::new(l, h, t, false);
        let (mut rk, mut tr) = (0, 0);
        for i in kh.support() { rk += kh[i].rank(); tr += kh[i].tors().len(); }
        format!("{}/{}", rk, tr)
    }).unwrap_or("P".into())
}

fn lee_case(l: &Link) -> String {
    let comps = l.components().len();
    format!("comps={} Z10={} Q01={}", comps, total::<i64>(l, &1, &0), total::<Q>(l, &Q::from(0), &Q::from(1)))
}

fn ss_pair<R>(l: &Link, c: &R) -> String
where R: EucRing, for<'x> &'x R: EucRingOps<R> {
    let u = guarded(|| ss_invariant(l, c, false)).map(|x| x.to_string()).unwrap_or("P".into());
    let r = guarded(|| ss_invariant(l, c, true)).map(|x| x.to_string()).unwrap_or("P".into());
    format!("{},{}", u, r)
}

fn ss_case<R>(l: &Link, moved: &Link, c: &R, with_changes: bool) -> String
where R: EucRing, for<'x> &'x R: EucRingOps<R> {
    let mut out = vec![format!("K={}", ss_pair(l, c)), format!("M={}", ss_pair(moved, c)), format!("MIR={}", ss_pair(&l.mirror(), c))];
    if with_changes {
        let signs = guarded(|| l.crossing_signs()).unwrap_or_default();
        let mut xs = vec![];
        for (i, s) in signs.iter().enumerate() {
            let mut data = l.data().clone();
            // crossing change = mirror that one crossing
            let mut k = 0;
            for x in data.iter_mut() {
                if !x.is_resolved() {
                    if k == i { *x = x.mirror(); }
                    k += 1;
                }
            }
            let l2 = Link::new(data);
            let v = guarded(|| ss_invariant(&l2, c, false)).map(|x| x.to_string()).unwrap_or("P".into());
            xs.push(format!("{}:{}", if s.is_positive() { "+" } else { "-" }, v));
        }
        out.push(format!("X=[{}]", xs.join(",")));
    }
    out.join(" ")
}

/// `sso`: the value of the invariant itself, over both integer types
fn sso_case(l: &Link, c: i64, red: bool) -> String {
    let a = guarded(|| ss_invariant::<i64>(l, &c, red)).map(|x| x.to_string()).unwrap_or("P".into());
    let cb = num_bigint::BigInt::from(c);
    let b = guarded(|| ss_invariant::<num_bigint::BigInt>(l, &cb, red)).map(|x| x.to_string()).unwrap_or("P".into());
    if a == b { a } else { format!("{}|{}", a, b) }
}

/// diagram text of a PD code (all crossings X, or all mirrored), built without the library
fn pd_str(pd: &PD, mirror: bool) -> String {
    pd.iter().map(|x| format!("{} {} {} {} {}", if mirror { "M" } else { "X" }, x[0], x[1], x[2], x[3])).collect::<Vec<_>>().join(" , ")
}

/// the closure of the braid is a knot: its permutation is a single cycle (computed here, not by the library)
fn braid_is_knot(s: usize, w: &[i32]) -> bool {
    let mut p: Vec<usize> = (0..s).collect();
    for &x in w { let i = x.unsigned_abs() as usize; p.swap(i - 1, i); }
    let (mut k, mut n) = (p[0], 1);
    while k != 0 { k = p[k]; n += 1; if n > s { return false; } }
    n == s
}

/// the `sso` cases: table knots up to 6 crossings and unknot diagrams, mirrors, kinked / relabelled / reordered
/// copies, closures of braid words with at most 6 letters; c in {2, 3}, reduced and unreduced
fn sso_cases(seed: u64, thorough: bool) -> Vec<String> {
    let mut r = Rng::new(seed ^ 0x5506_c06d_1234_9876);
    // size bound of the oracle (generators of a chain group around degree 0).  Its cost is that of the exact Smith normal
    // forms: with c = 3 the entries can explode just above 100 generators (minutes), with c = 2 150 generators take ~15 s
    let bound_for = |c: i64| if thorough && c == 2 { 150 } else { 100 };
    let table: Vec<PD> = vec![
        vec![[0, 0, 1, 1]], vec![[0, 1, 1, 0]], vec![[1, 2, 2, 1]], vec![[1, 3, 2, 2], [3, 1, 4, 4]],
        vec![[1, 4, 2, 5], [3, 6, 4, 1], [5, 2, 6, 3]],
        vec![[4, 2, 5, 1], [8, 6, 1, 5], [6, 3, 7, 4], [2, 7, 3, 8]],
        vec![[1, 6, 2, 7], [3, 8, 4, 9], [5, 10, 6, 1], [7, 2, 8, 3], [9, 4, 10, 5]],
        vec![[1, 4, 2, 5], [3, 8, 4, 9], [5, 10, 6, 1], [9, 6, 10, 7], [7, 2, 8, 3]],
        vec![[1, 4, 2, 5], [7, 10, 8, 11], [3, 9, 4, 8], [9, 3, 10, 2], [5, 12, 6, 1], [11, 6, 12, 7]],
        vec![[1, 4, 2, 5], [5, 10, 6, 11], [3, 9, 4, 8], [9, 3, 10, 2], [7, 12, 8, 1], [11, 6, 12, 7]],
        vec![[4, 2, 5, 1], [8, 4, 9, 3], [12, 9, 1, 10], [10, 5, 11, 6], [6, 11, 7, 12], [2, 8, 3, 7]],
    ];
    let mut pds: Vec<PD> = vec![];
    for pd in &table {
        pds.push(pd.clone());
        // a relabelled and reordered copy; for diagrams up to 5 crossings also a kinked one
        let pd2 = relabel(pd, &mut r);
        pds.push(shuffle_crossings(&pd2, &mut r));
        if pd.len() <= 5 && (thorough || r.bool()) {
            let c = r.below(pd.len() as u64) as usize;
            let k = add_kink(pd, c, r.below(4));
            pds.push(if r.bool() { shuffle_crossings(&k, &mut r) } else { k });
        }
    }
    // braid closures with at most 6 letters on 2-3 strands (4 strands in the thorough tier)
    let nb = if thorough { 60 } else { 10 };
    let mut k = 0;
    while k < nb {
        let s = 2 + r.below(if thorough { 3 } else { 2 }) as usize;
        let len = (s - 1) + r.below((7 - (s - 1)) as u64) as usize;
        // half of the words have letters of one sign (positive / negative braids: non-trivial values), the others random signs
        let mode = r.below(4);
        let w: Vec<i32> = (0..len).map(|_| { let i = 1 + r.below(s as u64 - 1) as i32; match mode { 0 => i, 1 => -i, _ => if r.bool() { i } else { -i } } }).collect();
        if !braid_is_knot(s, &w) { continue; }
        if let Some(pd) = braid_closure(s, &w) {
            let pd = if r.bool() { shuffle_crossings(&relabel(&pd, &mut r), &mut r) } else { pd };
            pds.push(pd);
            k += 1;
        }
    }
    let mut cases = vec![];
    let mut seen = std::collections::BTreeSet::new();
    for pd in &pds {
        for mir in [false, true] {
            let s = pd_str(pd, mir);
            if !seen.insert(s.clone()) { continue; }
            for c in [2, 3] {
                for red in [0, 1] {
                    // quick tier: every diagram with c = 2 unreduced and c = 3 reduced, the other two combinations at random
                    if !thorough && pd.len() >= 5 && ((c == 2) != (red == 0)) && !r.chance(1, 3) { continue; }
                    cases.push(format!("sso {} {} {} ; {}", c, red, bound_for(c), s));
                }
            }
        }
    }
    cases
}

fn parse_json_code(s: &str) -> Option<PD> {
    let nums: Vec<usize> = s.split(|c: char| !c.is_ascii_digit()).filter(|x| !x.is_empty()).map(|x| x.parse().ok()).collect::<Option<Vec<_>>>()?;
    if nums.is_empty() || nums.len() % 4 != 0 { return None; }
    Some(nums.chunks(4).map(|c| [c[0], c[1], c[2], c[3]]).collect())
}
fn resource(name: &str) -> Option<PD> {
    let repo = std::env::var("VERIF_REPO").unwrap_or("/repo".into());
    let s = std::fs::read_to_string(format!("{}/yui-link/resources/links/{}.json", repo, name)).ok()?;
    parse_json_code(&s)
}

fn run_case(line: &str) -> String {
    let parts: Vec<&str> = line.split(';').collect();
    let head: Vec<&str> = parts[0].split_whitespace().collect();
    match head[0] {
        "cyc" => cyc_case(&parse_link(parts[1])),
        "lee" => lee_case(&parse_link(parts[1])),
        "ss" => {
            let c: i64 = head[1].parse().unwrap();
            ss_case::<i64>(&parse_link(parts[1]), &parse_link(parts[2]), &c, true)
        }
        "sso" => {
            let c: i64 = head[1].parse().unwrap();
            sso_case(&parse_link(parts[1]), c, head[2] == "1")
        }
        "ssh" => {
            let (l, m) = (parse_link(parts[1]), parse_link(parts[2]));
            match head[1] {
                "F2" => ss_case(&l, &m, &Poly::<'H', FF<2>>::variable(), false),
                "F3" => ss_case(&l, &m, &Poly::<'H', FF<3>>::variable(), false),
                _ => ss_case(&l, &m, &Poly::<'H', Ratio<i64>>::variable(), false),
            }
        }
        _ => panic!("bad case"),
    }
}

/// a few isotopy moves on a knot diagram given as a braid word
fn moved(r: &mut Rng, s: usize, w: &Vec<i32>) -> PD {
    let (mut s2, mut w2) = (s, w.clone());
    for _ in 0..(1 + r.below(3)) {
        match r.below(4) {
            0 => { let i = 1 + r.below(s2 as u64 - 1) as i32; let e = if r.bool() { i } else { -i }; let mut v = vec![e]; v.extend(w2.clone()); v.push(-e); w2 = v; }
            1 => { let k = r.below(w2.len() as u64) as usize; w2.rotate_left(k); }
            2 => { let i = 1 + r.below(s2 as u64 - 1) as i32; let k = r.below(w2.len() as u64 + 1) as usize; w2.insert(k, -i); w2.insert(k, i); }
            _ => { w2.push(if r.bool() { s2 as i32 } else { -(s2 as i32) }); s2 += 1; }
        }
    }
    let mut pd = braid_closure(s2, &w2).unwrap();
    if r.bool() { let c = r.below(pd.len() as u64) as usize; pd = add_kink(&pd, c, r.below(4)); }
    if r.bool() { pd = relabel(&pd, r); }
    shuffle_crossings(&pd, r)
}

fn main() {
    quiet_panics();
    match parse_args() {
        Mode::Replay { file, out } => {
            let mut o = Out::new(&out);
            for l in read_lines(&file) {
                let res = guarded(|| run_case(&l)).unwrap_or("TOP-PANIC".into());
                o.case(&l, &res);
            }
            o.finish();
        }
        Mode::Gen { seed, thorough, out } => {
            let mut o = Out::new(&out);
            let mut r = Rng::new(seed);
            let mut cases: Vec<String> = vec![];
            // knots as braid closures (one component: the braid permutation is a single cycle)
            let nk = if thorough { 200 } else { 40 };
            let mut knots: Vec<(usize, Vec<i32>)> = vec![(2, vec![1, 1, 1]), (2, vec![-1, -1, -1, -1, -1]), (3, vec![1, -2, 1, -2]), (3, vec![1, 1, 2, -1, 1]), (2, vec![1])];
            knots.retain(|(s, w)| braid_closure(*s, w).map(|pd| Link::from_pd_code(pd).components().len() == 1).unwrap_or(false));
            while knots.len() < nk {
                let s = 2 + r.below(3) as usize;
                let len = s + r.below(if thorough { 7 } else { 5 }) as usize;
                let w: Vec<i32> = (0..len).map(|_| { let i = 1 + r.below(s as u64 - 1) as i32; if r.bool() { i } else { -i } }).collect();
                if let Some(pd) = braid_closure(s, &w) {
                    if Link::from_pd_code(pd).components().len() == 1 { knots.push((s, w)); }
                }
            }
            for (s, w) in &knots {
                let pd = braid_closure(*s, w).unwrap();
                let l = Link::from_pd_code(pd.clone());
                let m = Link::from_pd_code(moved(&mut r, *s, w));
                for d in [&l, &m] {
                    let signs: String = guarded(|| d.crossing_signs()).unwrap_or_default().iter().map(|s| if s.is_positive() { '+' } else { '-' }).collect();
                    cases.push(format!("cyc {} ; {}", if signs.is_empty() { "0".to_string() } else { signs }, link_str(d)));
                }
                for c in [2, 3] {
                    cases.push(format!("ss {} ; {} ; {}", c, link_str(&l), link_str(&m)));
                }
                if l.crossing_num() <= 7 {
                    let ring = *r.pick(&["F2", "F3", "Q"]);
                    cases.push(format!("ssh {} ; {} ; {}", ring, link_str(&l), link_str(&m)));
                }
            }
            // links for the Lee rank
            let nl = if thorough { 80 } else { 24 };
            for _ in 0..nl {
                let s = 2 + r.below(4) as usize;
                let len = (s - 1) + r.below(8) as usize;
                let pd = random_braid(&mut r, s, len.max(s - 1));
                cases.push(format!("lee ; {}", link_str(&Link::from_pd_code(pd))));
            }
            // table knots and links of 7-8 crossings from the repository's resources (generator-side JSON parser):
            // pivots with unit coefficients other than +-1 (2 = 2X - h after neck cutting) only occur from about
            // 7 crossings on; Lee rank over Q, ss over Q[H] / F3[H] and c = 2, 3 against a relabelled, reordered copy
            let kn: &[&str] = if thorough { &["7_3", "7_6", "7_7", "8_1", "8_5", "8_19", "8_20", "8_21", "9_42", "9_46"] }
                              else { &["7_7", "8_5", "8_20", "8_21"] };
            for n in kn {
                if let Some(pd) = resource(n) {
                    let l = Link::from_pd_code(pd.clone());
                    let pd2 = relabel(&pd, &mut r);
                    let m = Link::from_pd_code(shuffle_crossings(&pd2, &mut r));
                    cases.push(format!("lee ; {}", link_str(&l)));
                    cases.push(format!("ssh Q ; {} ; {}", link_str(&l), link_str(&m)));
                    cases.push(format!("ssh F3 ; {} ; {}", link_str(&l), link_str(&m)));
                    cases.push(format!("ss 3 ; {} ; {}", link_str(&l), link_str(&m)));
                    let signs: String = guarded(|| l.crossing_signs()).unwrap_or_default().iter().map(|s| if s.is_positive() { '+' } else { '-' }).collect();
                    cases.push(format!("cyc {} ; {}", if signs.is_empty() { "0".to_string() } else { signs }, link_str(&l)));
                }
            }
            let ln: &[&str] = if thorough { &["L7a1", "L7n1", "L8a1", "L8a8", "L8n1", "L8n3", "L6a4", "L8a20"] } else { &["L7a1", "L8a1", "L8n1", "L6a4"] };
            for n in ln {
                if let Some(pd) = resource(n) { cases.push(format!("lee ; {}", link_str(&Link::from_pd_code(pd)))); }
            }
            // knot diagrams whose crossing list contains an already resolved (orientation-compatible) entry in front
            // of unresolved crossings: two edges e, f are subdivided and H[e', e, f, f'] is inserted at every list
            // position >= 1; ss must be that of the plain diagram (canonical cycles are indexed by UNRESOLVED crossings)
            for (name, pd) in table_knots() {
                if !["3_1", "4_1", "5_2"].contains(&name) { continue; }
                for mir in [false, true] {
                    let l0 = if mir { Link::from_pd_code(pd.clone()).mirror() } else { Link::from_pd_code(pd.clone()) };
                    let mut es: Vec<usize> = l0.edges().into_iter().collect();
                    es.sort();
                    let (e, f) = (es[0], es[3]);
                    let mx = *es.last().unwrap();
                    let n = l0.data().len();
                    let positions: Vec<usize> = if thorough { (1..=n).collect() } else { vec![1, n / 2 + 1, n] };
                    for pos in positions {
                        let (e2, f2) = (mx + 1, mx + 2);
                        let (mut se, mut sf) = (0, 0);
                        let mut data: Vec<yui_link::Crossing> = l0.data().iter().map(|x| {
                            let mut ed = x.edges().clone();
                            for a in ed.iter_mut() {
                                if *a == e { se += 1; if se == 2 { *a = e2; } } else if *a == f { sf += 1; if sf == 2 { *a = f2; } }
                            }
                            yui_link::Crossing::new(x.ctype(), ed)
                        }).collect();
                        if (se, sf) != (2, 2) { continue; }
                        data.insert(pos.min(data.len()), yui_link::Crossing::new(yui_link::CrossingType::H, [e2, e, f, f2]));
                        let m = Link::new(data);
                        for c in [2, 3] {
                            cases.push(format!("ss {} ; {} ; {}", c, link_str(&l0), link_str(&m)));
                        }
                    }
                }
            }
            cases.push(format!("lee ; {}", link_str(&Link::empty())));
            cases.push(format!("lee ; {}", link_str(&Link::unknot())));
            // the value of the invariant against the definition-level oracle (own random stream: the cases above are unchanged)
            cases.extend(sso_cases(seed, thorough));
            use rayon::prelude::*;
            let results: Vec<String> = cases.par_iter().map(|c| guarded(|| run_case(c)).unwrap_or("TOP-PANIC".into())).collect();
            for (c, res) in cases.iter().zip(results.iter()) { o.case(c, res); }
            o.finish();
        }
    }
}
