//! Re-checks the witnesses of the defects listed in known_findings.txt against the current tree.
use num_bigint::BigInt;
use yui::*;
use yui_matrix::dense::*;
use yui_matrix::dense::lll::lll_hnf;

fn main() {
    let a: i64 = (1i64 << 53) + 1;
    println!("D2 (2^53+1).div_round(1) = {} (want {})", a.div_round(&1), a);
    let big = BigInt::from(10).pow(400u32);
    println!("D2 10^400 div_round 7 ok: {}", (BigInt::from(7) * &big + BigInt::from(3)).div_round(&BigInt::from(7)) == big);
    let x = Ratio::new((1i64 << 53) + 1, 1);
    let y = Ratio::new(1i64 << 53, 1);
    println!("D3 cmp = {:?} (want Greater)", x.cmp(&y));
    let g = GaussInt::<i64>::gcd(&GaussInt::new(0, 2), &GaussInt::new(4, 0));
    println!("D4 gcd(2i,4) = {} (want 2)", g);
    let (d, s, t) = GaussInt::<i64>::gcdx(&GaussInt::new(0, 2), &GaussInt::new(4, 0));
    println!("D4 gcdx(2i,4) = {} {} {}", d, s, t);
    let m = Mat::from_data((1, 1), [-2i64]);
    let (h, _, _) = lll_hnf(&m, [false, false]);
    println!("D5 hnf [[-2]] = {:?}", h);
    let m = Mat::from_data((3, 4), [0i64, 3, 10, -7, 0, 0, 0, -1, -1, 0, 1, 0]);
    let (h, p, pinv) = lll_hnf(&m, [true, true]);
    println!("D5 hnf = {:?} P*A==H {} P*Pinv==I {}", h, &(p.clone().unwrap()) * &m == h, (p.unwrap() * pinv.unwrap()).is_id());
}
