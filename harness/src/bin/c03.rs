//! C03 harness: the library's bigraded tables over Z (i64, i128, BigInt), Q, F2, F3, reduced and
//! unreduced, through both routes (A: homology of the bigraded pieces of the complex,
//! B: KhHomology::into_bigraded of the total homology).  The check module evaluates the
//! universal-coefficient relations on these tables and compares with the oracle on small diagrams.
//! case line:  tb <npos> <nneg> <oracle:0|1> ; <link>
//! result   :  segments "<ring><route><red>[cells]" e.g. ZA0[(i,j)=r/t ...] QA0[..] ... joined by spaces
use num_bigint::BigInt;
use yui_link::Link;
use yui_verif_harness::khutil::*;
use yui_verif_harness::*;

fn all_tables(l: &Link) -> String {
    let mut out = vec![];
    let knot = l.components().len() == 1;
    for red in [false, true] {
        if red && l.is_empty() { continue; }
        let r = red as u8;
        for via_total in [false, true] {
            let rt = if via_total { "B" } else { "A" };
            out.push(format!("Z{}{}[{}]", rt, r, kh_table_bigraded::<i64>(l, red, true, via_total)));
            out.push(format!("Q{}{}[{}]", rt, r, kh_table_bigraded::<Q>(l, red, false, via_total)));
            out.push(format!("F2{}{}[{}]", rt, r, kh_table_bigraded::<F2>(l, red, false, via_total)));
            out.push(format!("F3{}{}[{}]", rt, r, kh_table_bigraded::<F3>(l, red, false, via_total)));
        }
        if l.crossing_num() <= 9 {
            out.push(format!("WA{}[{}]", r, kh_table_bigraded::<i128>(l, red, true, false)));
            out.push(format!("BA{}[{}]", r, kh_table_bigraded::<BigInt>(l, red, true, false)));
        }
        let _ = knot;
    }
    out.join(" ")
}

fn run_case(line: &str) -> String {
    let (head, link) = line.split_once(';').unwrap();
    let l = parse_link(link);
    if head.starts_with("wt") {
        // witness replay: only the integral unreduced tables through both routes
        return guarded(|| format!("ZA0[{}] ZB0[{}]",
            kh_table_bigraded::<i64>(&l, false, true, false),
            kh_table_bigraded::<i64>(&l, false, true, true))).unwrap_or("P".into());
    }
    guarded(|| all_tables(&l)).unwrap_or("P".into())
}

fn case_line(l: &Link, oracle: bool) -> Option<String> {
    let (p, n) = guarded(|| l.signed_crossing_nums())?;
    Some(format!("tb {} {} {} ; {}", p, n, oracle as u8, link_str(l)))
}

/// torus link T(p,q) as the closure of (s_1 ... s_{p-1})^q
fn torus(p: usize, q: usize) -> PD {
    let mut w = vec![];
    for _ in 0..q { for i in 1..p { w.push(i as i32); } }
    braid_closure(p, &w).unwrap()
}

fn main() {
    quiet_panics();
    match parse_args() {
        Mode::Replay { file, out } => {
            let mut o = Out::new(&out);
            for l in read_lines(&file) {
                let res = run_case(&l);
                o.case(&l, &res);
            }
            o.finish();
        }
        Mode::Gen { seed, thorough, out } => {
            let mut o = Out::new(&out);
            let mut r = Rng::new(seed);
            let mut links: Vec<(Link, bool)> = vec![(Link::empty(), true), (Link::unknot(), true)];
            for (_, pd) in table_knots() {
                let l = Link::from_pd_code(pd.clone());
                links.push((l.mirror(), true));
                links.push((l, true));
            }
            // the library's own table of knots (resources), a rotating sample
            let names: Vec<String> = {
                let mut v = vec![];
                for (n, k) in [(7, 7), (8, 21), (9, 49), (10, 165)] {
                    for i in 1..=k { v.push(format!("{}_{}", n, i)); }
                }
                v
            };
            let nk = if thorough { 80 } else { 14 };
            for _ in 0..nk {
                let name = r.pick(&names).clone();
                if let Ok(l) = Link::load(&name) {
                    links.push((if r.bool() { l.mirror() } else { l }, false));
                }
            }
            // multi-component and split links, torus links (coprime torsion lives here)
            let tre: PD = vec![[1, 4, 2, 5], [3, 6, 4, 1], [5, 2, 6, 3]];
            let hopf: PD = vec![[4, 1, 3, 2], [2, 3, 1, 4]];
            links.push((Link::from_pd_code(split_union(&tre, &hopf)), true));
            links.push((Link::from_pd_code(split_union(&tre, &tre)), true));
            links.push((Link::from_pd_code(torus(3, 4)), false));
            links.push((Link::from_pd_code(torus(3, 5)), false));
            links.push((Link::from_pd_code(torus(4, 4)), false));
            if thorough {
                links.push((Link::from_pd_code(torus(4, 5)), false));
                links.push((Link::from_pd_code(torus(3, 7)), false));
                links.push((Link::from_pd_code(split_union(&torus(3, 5), &tre)), false));
            }
            let nb = if thorough { 60 } else { 12 };
            for _ in 0..nb {
                let s = 2 + r.below(4) as usize;
                let nmax = if thorough { 13 } else { 11 };
                let len = (s - 1) + r.below((nmax - (s - 1)) as u64 + 1) as usize;
                let mut pd = random_braid(&mut r, s, len.max(s - 1).min(nmax));
                if r.chance(1, 4) { let c = r.below(pd.len() as u64) as usize; pd = add_kink(&pd, c, r.below(4)); }
                if r.bool() { pd = shuffle_crossings(&pd, &mut r); }
                let l = Link::from_pd_code(pd);
                let small = l.crossing_num() <= 6;
                links.push((if r.bool() { l.mirror() } else { l }, small));
            }
            let mut cases: Vec<String> = vec![];
            for (l, oracle) in &links {
                if let Some(c) = case_line(l, *oracle && l.crossing_num() <= if thorough { 8 } else { 6 }) {
                    cases.push(c);
                }
            }
            // the recorded witness of the known finding (KhHomology::into_bigraded): T(5,6) + right-handed trefoil
            let t56 = torus(5, 6);
            let w = split_union(&t56, &vec![[4, 2, 5, 1], [2, 6, 3, 5], [6, 4, 1, 3]]);
            if let Some(c) = case_line(&Link::from_pd_code(w), false).map(|c| c.replacen("tb", "wt", 1)) {
                cases.insert(0, c);
            }
            use rayon::prelude::*;
            let results: Vec<String> = cases.par_iter().map(|c| run_case(c)).collect();
            for (c, res) in cases.iter().zip(results.iter()) {
                o.case(c, res);
            }
            o.finish();
        }
    }
}
