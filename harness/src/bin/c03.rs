//! C03 harness: the library's bigraded tables over Z (i64, i128, BigInt), Q, F2, F3, reduced and
//! unreduced, through both routes (A: homology of the bigraded pieces of the complex,
//! B: KhHomology::into_bigraded of the total homology).  The check module evaluates the
//! universal-coefficient relations on these tables and compares with the oracle on small diagrams.
//! case line:  tb <npos> <nneg> <oracle:0|1> ; <link>
//! result   :  segments "<ring><route><red>[cells]" e.g. ZA0[(i,j)=r/t ...] QA0[..] ... joined by spaces; after ZB<red> a
//!   segment NHD<red>[i ..] = the homological degrees in which the total homology that produced ZB<red> has a generator
//!   that is not q-homogeneous
//! case line:  ig <ring:Z|B> <red:0|1> ; <link> ; <dump>      (route via the total homology against Model/IntoBigraded.v)
//!   <dump> = what collect_gen_info / into_bigraded read of KhHomology::<i64|BigInt>::new(l, 0, 0, red): per
//!   homological degree of the support, in support order, "H <i> <rank> <ntors> <t_1> .. <t_n> <gen_0> .. <gen_(r+t-1)>"
//!   where <gen_k> lists the q-degrees of the terms of h[i].gen(k) as "q^count,q^count,.." ("-" = empty chain);
//!   "P" when the library panicked while the dump was taken (the model then answers SKIP-P).
//! result   :  "NH=<number of dumped generators that are not q-homogeneous> S=<cells>:<first>:<last> (i,j)=r/t1.t2 .." =
//!   support size / first / last index and the non-zero cells of h.into_bigraded() of the SAME object, in support
//!   order, torsion in the order the library lists it (not normalised, not sorted).
use num_bigint::BigInt;
use std::collections::BTreeMap;
use yui::{EucRing, EucRingOps};
use yui_homology::{ComputeHomology, GridTrait, SummandTrait};
use yui_kh::kh::KhComplexBigraded;
use yui_kh::kh::KhHomology;
use yui_link::Link;
use yui_verif_harness::khutil::*;
use yui_verif_harness::*;

/// the integral table through the total homology (KhHomology::new(..).into_bigraded(), which is what
/// KhHomologyBigraded::new does; rendered as khutil::kh_table_bigraded renders it) together with the homological degrees in
/// which that SAME total homology has a generator whose terms do not all have one q-degree
fn via_total_z(l: &Link, red: bool) -> (String, String) {
    let h = KhHomology::<i64>::new(l, &0, &0, red);
    let mut nhd: Vec<String> = vec![];
    for i in h.support() {
        let s = &h[i];
        let inhom = (0..s.rank() + s.tors().len()).any(|k| {
            let z = s.gen(k);
            let mut it = z.gens().map(|x| x.q_deg());
            match it.next() { Some(q) => it.any(|q2| q2 != q), None => false }
        });
        if inhom { nhd.push(i.to_string()); }
    }
    let kh = h.into_bigraded();
    let mut v: Vec<((isize, isize), String)> = vec![];
    for idx in kh.support() {
        let s = &kh[(idx.0, idx.1)];
        if !s.is_zero() {
            v.push(((idx.0, idx.1), summand_str(s, true)));
        }
    }
    v.sort();
    (v.iter().map(|((i, j), s)| format!("({},{})={}", i, j, s)).collect::<Vec<_>>().join(" "), nhd.join(" "))
}

/// the table of the bigraded pieces computed WITHOUT generators (`compute_homology(with_trans = false)`: the Smith
/// normalisation is then asked for a subset of its transformation matrices) - must be the route-A table
fn notrans_table<R>(l: &Link, red: bool) -> String
where
    R: yui::EucRing + std::fmt::Display,
    for<'x> &'x R: yui::EucRingOps<R>,
{
    let z = R::zero();
    let h = KhComplexBigraded::<R>::new(l, &z, &z, red).compute_homology(false);
    let mut v: Vec<((isize, isize), String)> = vec![];
    for idx in h.support() {
        let s = h.get(idx);
        if s.rank() > 0 || !s.tors().is_empty() {
            v.push(((idx.0, idx.1), summand_str(s, true)));
        }
    }
    v.sort();
    v.iter().map(|((i, j), s)| format!("({},{})={}", i, j, s)).collect::<Vec<_>>().join(" ")
}

fn all_tables(l: &Link) -> String {
    let mut out = vec![];
    let knot = l.components().len() == 1;
    for red in [false, true] {
        if red && l.is_empty() { continue; }
        let r = red as u8;
        for via_total in [false, true] {
            let rt = if via_total { "B" } else { "A" };
            if via_total {
                let (tbl, nhd) = via_total_z(l, red);
                out.push(format!("ZB{}[{}]", r, tbl));
                out.push(format!("NHD{}[{}]", r, nhd));
            } else {
                out.push(format!("Z{}{}[{}]", rt, r, kh_table_bigraded::<i64>(l, red, true, via_total)));
            }
            out.push(format!("Q{}{}[{}]", rt, r, kh_table_bigraded::<Q>(l, red, false, via_total)));
            out.push(format!("F2{}{}[{}]", rt, r, kh_table_bigraded::<F2>(l, red, false, via_total)));
            out.push(format!("F3{}{}[{}]", rt, r, kh_table_bigraded::<F3>(l, red, false, via_total)));
        }
        out.push(format!("NA{}[{}]", r, notrans_table::<i64>(l, red)));
        if l.crossing_num() <= 10 {
            out.push(format!("MA{}[{}]", r, notrans_table::<i128>(l, red)));
        }
        if l.crossing_num() <= 9 {
            out.push(format!("WA{}[{}]", r, kh_table_bigraded::<i128>(l, red, true, false)));
            out.push(format!("BA{}[{}]", r, kh_table_bigraded::<BigInt>(l, red, true, false)));
        }
        let _ = knot;
    }
    out.join(" ")
}

/// the data collect_gen_info reads of the total homology (through the public API), and the library's into_bigraded
/// table of the same object; None = panic
fn into_bigraded_dump<R>(l: &Link, red: bool) -> Option<(String, String)>
where
    R: EucRing + std::fmt::Display,
    for<'x> &'x R: EucRingOps<R>,
{
    guarded(|| {
        let z = R::zero();
        let h = KhHomology::<R>::new(l, &z, &z, red);
        let mut dump: Vec<String> = vec![];
        let mut nh = 0usize;
        for i in h.support() {
            let s = &h[i];
            let (r, t) = (s.rank(), s.tors().len());
            let mut w = vec![format!("H {} {} {}", i, r, t)];
            for a in s.tors() { w.push(a.to_string()); }
            for k in 0..r + t {
                let zk = s.gen(k);
                let mut qs: BTreeMap<isize, usize> = BTreeMap::new();
                for x in zk.gens() { *qs.entry(x.q_deg()).or_insert(0) += 1; }
                if qs.len() > 1 { nh += 1; }
                if qs.is_empty() {
                    w.push("-".into());
                } else {
                    w.push(qs.iter().map(|(q, n)| format!("{}^{}", q, n)).collect::<Vec<_>>().join(","));
                }
            }
            dump.push(w.join(" "));
        }
        let b = h.into_bigraded();
        let sup: Vec<_> = b.support().collect();
        let mut cells = vec![format!("NH={}", nh)];
        cells.push(match (sup.first(), sup.last()) {
            (Some(a), Some(z)) => format!("S={}:({},{}):({},{})", sup.len(), a.0, a.1, z.0, z.1),
            _ => "S=0".into(),
        });
        for idx in sup {
            let c = &b[(idx.0, idx.1)];
            if c.rank() > 0 || !c.tors().is_empty() {
                let t: Vec<String> = c.tors().iter().map(|a| a.to_string()).collect();
                cells.push(format!("({},{})={}/{}", idx.0, idx.1, c.rank(), t.join(".")));
            }
        }
        (dump.join(" "), cells.join(" "))
    })
}

/// (case line, result line) of an `ig` case; the dump part of the case line is produced here
fn ig_case(ring: &str, red: bool, link: &str) -> (String, String) {
    let l = parse_link(link);
    let r = if ring == "B" { into_bigraded_dump::<BigInt>(&l, red) } else { into_bigraded_dump::<i64>(&l, red) };
    let head = format!("ig {} {} ;{};", ring, red as u8, link.trim_end());
    match r {
        Some((d, t)) => (format!("{} {}", head, d), t),
        None => (format!("{} P", head), "P".into()),
    }
}

/// an `ig` line (with or without a dump) -> (ring, red, link)
fn ig_parts(line: &str) -> (String, bool, String) {
    let mut it = line.splitn(3, ';');
    let head: Vec<&str> = it.next().unwrap().split_whitespace().collect();
    let link = it.next().unwrap_or("").to_string();
    (head[1].to_string(), head[2] == "1", link)
}

fn run_case(line: &str) -> String {
    let (head, link) = line.split_once(';').unwrap();
    let l = parse_link(link);
    if head.starts_with("wt") {
        // witness replay: only the integral unreduced tables through both routes
        return guarded(|| {
            let (tbl, nhd) = via_total_z(&l, false);
            format!("ZA0[{}] ZB0[{}] NHD0[{}]", kh_table_bigraded::<i64>(&l, false, true, false), tbl, nhd)
        }).unwrap_or("P".into());
    }
    guarded(|| all_tables(&l)).unwrap_or("P".into())
}

fn case_line(l: &Link, oracle: bool) -> Option<String> {
    let (p, n) = guarded(|| l.signed_crossing_nums())?;
    Some(format!("tb {} {} {} ; {}", p, n, oracle as u8, link_str(l)))
}

/// torus link T(p,q) as the closure of (s_1 ... s_{p-1})^q
fn torus(p: usize, q: usize) -> PD {
    let mut w = vec![];
    for _ in 0..q { for i in 1..p { w.push(i as i32); } }
    braid_closure(p, &w).unwrap()
}

fn main() {
    quiet_panics();
    match parse_args() {
        Mode::Replay { file, out } => {
            let mut o = Out::new(&out);
            for l in read_lines(&file) {
                if l.starts_with("ig ") {
                    // the dump is taken again from the link (generators depend on the run's hash order)
                    let (ring, red, link) = ig_parts(&l);
                    let (c, res) = ig_case(&ring, red, &link);
                    o.case(&c, &res);
                    continue;
                }
                let res = run_case(&l);
                o.case(&l, &res);
            }
            o.finish();
        }
        Mode::Gen { seed, thorough, out } => {
            let mut o = Out::new(&out);
            let mut r = Rng::new(seed);
            let mut links: Vec<(Link, bool)> = vec![(Link::empty(), true), (Link::unknot(), true)];
            for (_, pd) in table_knots() {
                let l = Link::from_pd_code(pd.clone());
                links.push((l.mirror(), true));
                links.push((l, true));
            }
            // the library's own table of knots (resources), a rotating sample
            let names: Vec<String> = {
                let mut v = vec![];
                for (n, k) in [(7, 7), (8, 21), (9, 49), (10, 165)] {
                    for i in 1..=k { v.push(format!("{}_{}", n, i)); }
                }
                v
            };
            // 10_132: torsion in adjacent homological degrees of one q-degree
            if let Ok(l) = Link::load("10_132") { links.push((l.mirror(), false)); links.push((l, false)); }
            let nk = if thorough { 80 } else { 14 };
            for _ in 0..nk {
                let name = r.pick(&names).clone();
                if let Ok(l) = Link::load(&name) {
                    links.push((if r.bool() { l.mirror() } else { l }, false));
                }
            }
            // multi-component and split links, torus links (coprime torsion lives here)
            let tre: PD = vec![[1, 4, 2, 5], [3, 6, 4, 1], [5, 2, 6, 3]];
            let hopf: PD = vec![[4, 1, 3, 2], [2, 3, 1, 4]];
            links.push((Link::from_pd_code(split_union(&tre, &hopf)), true));
            links.push((Link::from_pd_code(split_union(&tre, &tre)), true));
            links.push((Link::from_pd_code(torus(3, 4)), false));
            links.push((Link::from_pd_code(torus(3, 5)), false));
            links.push((Link::from_pd_code(torus(4, 4)), false));
            if thorough {
                links.push((Link::from_pd_code(torus(4, 5)), false));
                links.push((Link::from_pd_code(torus(3, 7)), false));
                links.push((Link::from_pd_code(split_union(&torus(3, 5), &tre)), false));
            }
            let nb = if thorough { 60 } else { 12 };
            for _ in 0..nb {
                let s = 2 + r.below(4) as usize;
                let nmax = if thorough { 13 } else { 11 };
                let len = (s - 1) + r.below((nmax - (s - 1)) as u64 + 1) as usize;
                let mut pd = random_braid(&mut r, s, len.max(s - 1).min(nmax));
                if r.chance(1, 4) { let c = r.below(pd.len() as u64) as usize; pd = add_kink(&pd, c, r.below(4)); }
                if r.bool() { pd = shuffle_crossings(&pd, &mut r); }
                let l = Link::from_pd_code(pd);
                let small = l.crossing_num() <= 6;
                links.push((if r.bool() { l.mirror() } else { l }, small));
            }
            let mut cases: Vec<String> = vec![];
            for (l, oracle) in &links {
                if let Some(c) = case_line(l, *oracle && l.crossing_num() <= if thorough { 8 } else { 6 }) {
                    cases.push(c);
                }
            }
            // the recorded witness of the known finding (KhHomology::into_bigraded): T(5,6) + right-handed trefoil
            let t56 = torus(5, 6);
            let w = split_union(&t56, &vec![[4, 2, 5, 1], [2, 6, 3, 5], [6, 4, 1, 3]]);
            if let Some(c) = case_line(&Link::from_pd_code(w), false).map(|c| c.replacen("tb", "wt", 1)) {
                cases.insert(0, c);
            }
            // route via the total homology against the model of into_bigraded: every diagram of the corpus (i64,
            // unreduced and reduced; BigInt too for small ones) and the witness of the known finding (BigInt, unreduced)
            let mut igs: Vec<String> = vec![];
            for c in &cases {
                let (head, link) = c.split_once(';').unwrap();
                let wt = head.starts_with("wt");
                let ncross = if link.trim().is_empty() { 0 } else { link.split(',').count() };
                let empty = parse_link(link).is_empty();
                for red in [false, true] {
                    if red && (empty || wt) { continue; }
                    // the witness over BigInt only (as fast as i64 there, and no machine-width overflow in a 27-crossing run)
                    if !wt { igs.push(format!("ig Z {} ;{}", red as u8, link)); }
                    if ncross <= 7 || wt { igs.push(format!("ig B {} ;{}", red as u8, link)); }
                }
            }
            let nt = cases.len();
            cases.extend(igs);
            use rayon::prelude::*;
            let results: Vec<(String, String)> = cases.par_iter().enumerate().map(|(k, c)| {
                if k < nt { (c.clone(), run_case(c)) } else { let (ring, red, link) = ig_parts(c); ig_case(&ring, red, &link) }
            }).collect();
            for (c, res) in results.iter() {
                o.case(c, res);
            }
            o.finish();
        }
    }
}
