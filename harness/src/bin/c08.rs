//! C08 correspondence harness: ChainReducer / ChainComplexBase::reduced vs the Coq model
//! (Model/Reducer.v).  A case line holds only the INPUT (ring, thread count, complex, tracked vectors,
//! operation script); the result line is `<pivot log> # <result>`: the pivot lists the implementation
//! used in every reduction step (observed through verif_hook::install_pivots_callback; their order is
//! hash dependent, so the model cannot re-derive them) followed by the final matrices, the
//! forward_mat / backward_mat of every Trans and the tracked vectors as dense renderings.
//! Kinds: red (ChainReducer::reduce), cpx (ChainComplexBase::reduced), scr (script of public calls on a
//! hand-initialised reducer), bad (malformed stream in script form: not a complex / inconsistent shapes /
//! tracked vector of the wrong length).  Formats: see ocaml/c08_driver.ml.
use num_bigint::BigInt;
use num_traits::{One, Zero};
use std::sync::{Arc, Mutex};
use yui::poly::{Mono, Poly};
use yui::{Ratio, Ring, RingOps, FF, FF2};
use yui_homology::utils::ChainReducer;
use yui_homology::{ChainComplexTrait, GenericChainComplex, SummandTrait};
use yui_matrix::sparse::pivot::{PivotCondition, PivotType};
use yui_matrix::sparse::{verif_hook, SpMat, SpVec, Trans};
use yui_matrix::MatTrait;
use yui_verif_harness::*;

type PivLog = Arc<Mutex<Vec<Vec<(usize, usize)>>>>;

// ------------------------------------------------------------------------------------------------
// rings
// ------------------------------------------------------------------------------------------------
trait RingIo: Ring + 'static
where
    for<'x> &'x Self: RingOps<Self>,
{
    /// machine-width instance: an arithmetic overflow panic is out of scope (the case is dropped)
    const MACHINE: bool;
    fn parse(s: &str) -> Self;
    fn show(&self) -> String;
    /// a unit of the ring
    fn unit(r: &mut Rng) -> Self;
    /// a non-zero non-unit (or zero when the ring is a field)
    fn nonunit(r: &mut Rng) -> Self;
    /// a small element for elementary operations
    fn small(r: &mut Rng) -> Self;
}

fn small_i(r: &mut Rng) -> i64 {
    *r.pick(&[1, -1, 1, -1, 2, -2, 3, 0])
}

impl RingIo for i64 {
    const MACHINE: bool = true;
    fn parse(s: &str) -> Self { s.parse().unwrap() }
    fn show(&self) -> String { self.to_string() }
    fn unit(r: &mut Rng) -> Self { if r.bool() { 1 } else { -1 } }
    fn nonunit(r: &mut Rng) -> Self { *r.pick(&[2, 3, -2, 4, 6, 0]) }
    fn small(r: &mut Rng) -> Self { small_i(r) }
}
impl RingIo for BigInt {
    const MACHINE: bool = false;
    fn parse(s: &str) -> Self { s.parse().unwrap() }
    fn show(&self) -> String { self.to_string() }
    fn unit(r: &mut Rng) -> Self { BigInt::from(<i64 as RingIo>::unit(r)) }
    fn nonunit(r: &mut Rng) -> Self { BigInt::from(<i64 as RingIo>::nonunit(r)) }
    fn small(r: &mut Rng) -> Self { BigInt::from(small_i(r)) }
}
fn parse_ratio<T: std::str::FromStr>(s: &str) -> (T, T)
where
    T::Err: std::fmt::Debug,
{
    let (a, b) = s.split_once('/').unwrap();
    (a.parse().unwrap(), b.parse().unwrap())
}
impl RingIo for Ratio<i64> {
    const MACHINE: bool = true;
    fn parse(s: &str) -> Self { let (a, b) = parse_ratio::<i64>(s); Ratio::new(a, b) }
    fn show(&self) -> String {
        // canonical: gcd 1, positive denominator (normalised here, independent of the library)
        let (a, b) = (*self.numer() as i128, *self.denom() as i128);
        let g = { let (mut x, mut y) = (a.abs(), b.abs()); while y != 0 { let t = x % y; x = y; y = t; } x.max(1) };
        let s = if b < 0 { -1 } else { 1 };
        format!("{}/{}", s * a / g, s * b / g)
    }
    fn unit(r: &mut Rng) -> Self {
        let a = *r.pick(&[1i64, -1, 2, -2, 3, 1, -1]);
        let b = *r.pick(&[1i64, 1, 1, 2, 3]);
        Ratio::new(a, b)
    }
    fn nonunit(_: &mut Rng) -> Self { Ratio::new(0, 1) }
    fn small(r: &mut Rng) -> Self { Ratio::new(small_i(r), *r.pick(&[1i64, 1, 1, 2])) }
}
impl RingIo for Ratio<BigInt> {
    const MACHINE: bool = false;
    fn parse(s: &str) -> Self { let (a, b) = parse_ratio::<BigInt>(s); Ratio::new(a, b) }
    fn show(&self) -> String {
        use num_integer::Integer;
        let (a, b) = (self.numer().clone(), self.denom().clone());
        let mut g = a.gcd(&b);
        if g.is_zero() { g = BigInt::one(); }
        let s = if b < BigInt::zero() { BigInt::from(-1) } else { BigInt::one() };
        format!("{}/{}", &s * &a / &g, &s * &b / &g)
    }
    fn unit(r: &mut Rng) -> Self {
        let a = *r.pick(&[1i64, -1, 2, -2, 3, 5, -7, 1, -1]);
        let b = *r.pick(&[1i64, 1, 1, 2, 3, 4]);
        Ratio::new(BigInt::from(a), BigInt::from(b))
    }
    fn nonunit(_: &mut Rng) -> Self { Ratio::new(BigInt::zero(), BigInt::one()) }
    fn small(r: &mut Rng) -> Self { Ratio::new(BigInt::from(small_i(r)), BigInt::from(*r.pick(&[1i64, 1, 1, 2, 3]))) }
}
impl RingIo for FF2 {
    const MACHINE: bool = false;
    fn parse(s: &str) -> Self { FF2::from(s.parse::<i64>().unwrap()) }
    fn show(&self) -> String { if self.is_zero() { "0".into() } else { "1".into() } }
    fn unit(_: &mut Rng) -> Self { FF2::one() }
    fn nonunit(_: &mut Rng) -> Self { FF2::zero() }
    fn small(r: &mut Rng) -> Self { if r.bool() { FF2::one() } else { FF2::zero() } }
}
impl RingIo for FF<3> {
    const MACHINE: bool = false;
    fn parse(s: &str) -> Self { FF::<3>::new(s.parse::<i32>().unwrap()) }
    fn show(&self) -> String { self.rep().rem_euclid(3).to_string() }
    fn unit(r: &mut Rng) -> Self { FF::<3>::new(1 + r.below(2) as i32) }
    fn nonunit(_: &mut Rng) -> Self { FF::<3>::new(0) }
    fn small(r: &mut Rng) -> Self { FF::<3>::new(r.below(3) as i32) }
}
type ZH = Poly<'H', BigInt>;
fn zh_from(cs: &[i64]) -> ZH {
    let mut p = ZH::zero();
    for (d, &c) in cs.iter().enumerate() {
        if c != 0 {
            p += ZH::from((ZH::mono(d), BigInt::from(c)));
        }
    }
    p
}
impl RingIo for ZH {
    const MACHINE: bool = false;
    fn parse(s: &str) -> Self {
        let mut p = ZH::zero();
        for (d, c) in s.split(',').enumerate() {
            let c: BigInt = c.parse().unwrap();
            if !c.is_zero() {
                p += ZH::from((ZH::mono(d), c));
            }
        }
        p
    }
    fn show(&self) -> String {
        let mut terms: Vec<(usize, BigInt)> = self.iter().filter(|(_, c)| !c.is_zero()).map(|(x, c)| (x.deg(), c.clone())).collect();
        terms.sort();
        if terms.is_empty() {
            return "0".into();
        }
        let top = terms.last().unwrap().0;
        let mut cs = vec![BigInt::zero(); top + 1];
        for (d, c) in terms {
            cs[d] += c; // same degree twice would be summed (never happens for a well-formed value)
        }
        cs.iter().map(|c| c.to_string()).collect::<Vec<_>>().join(",")
    }
    fn unit(r: &mut Rng) -> Self { zh_from(&[if r.bool() { 1 } else { -1 }]) }
    fn nonunit(r: &mut Rng) -> Self {
        match r.below(5) {
            0 => zh_from(&[0, 1]),
            1 => zh_from(&[2]),
            2 => zh_from(&[1, 1]),
            3 => zh_from(&[0, 0, 1]),
            _ => zh_from(&[-1, 0, 1]),
        }
    }
    fn small(r: &mut Rng) -> Self {
        match r.below(6) {
            0 => zh_from(&[0, 1]),
            1 => zh_from(&[1, -1]),
            2 => ZH::zero(),
            _ => zh_from(&[small_i(r)]),
        }
    }
}

// ------------------------------------------------------------------------------------------------
// generator-side dense matrices (plain vectors; ring arithmetic only)
// ------------------------------------------------------------------------------------------------
#[derive(Clone)]
struct DM<R> {
    m: usize,
    n: usize,
    e: Vec<R>, // row major
}
impl<R: RingIo> DM<R>
where
    for<'x> &'x R: RingOps<R>,
{
    fn zero(m: usize, n: usize) -> Self { DM { m, n, e: vec![R::zero(); m * n] } }
    fn id(n: usize) -> Self {
        let mut a = Self::zero(n, n);
        for i in 0..n { a.e[i * n + i] = R::one(); }
        a
    }
    fn at(&self, i: usize, j: usize) -> &R { &self.e[i * self.n + j] }
    fn set(&mut self, i: usize, j: usize, x: R) { self.e[i * self.n + j] = x; }
    fn mul(&self, b: &Self) -> Self {
        assert_eq!(self.n, b.m);
        let mut c = Self::zero(self.m, b.n);
        for i in 0..self.m {
            for k in 0..self.n {
                if self.at(i, k).is_zero() { continue; }
                for j in 0..b.n {
                    let t = self.at(i, k) * b.at(k, j);
                    let v = c.at(i, j) + &t;
                    c.set(i, j, v);
                }
            }
        }
        c
    }
    fn scale(&self, x: &R) -> Self { DM { m: self.m, n: self.n, e: self.e.iter().map(|a| a * x).collect() } }
    fn to_sp(&self) -> SpMat<R> { SpMat::from_dense_data((self.m, self.n), self.e.iter().cloned()) }
    fn show(&self) -> String { self.e.iter().map(|x| x.show()).collect::<Vec<_>>().join(" ") }
    fn is_zero(&self) -> bool { self.e.iter().all(|x| x.is_zero()) }
}

/// random invertible matrix and its inverse as products of k elementary operations
fn rand_invertible<R: RingIo>(r: &mut Rng, n: usize, k: usize) -> (DM<R>, DM<R>)
where
    for<'x> &'x R: RingOps<R>,
{
    let mut u = DM::<R>::id(n);
    let mut v = DM::<R>::id(n); // v = u^-1
    if n == 0 {
        return (u, v);
    }
    for _ in 0..k {
        match r.below(if n >= 2 { 4 } else { 1 }) {
            0 => {
                // scale column i of u by a unit c; row i of v by c^-1
                let i = r.below(n as u64) as usize;
                let c = R::unit(r);
                let ci = c.inv().unwrap();
                for t in 0..n {
                    let x = u.at(t, i) * &c;
                    u.set(t, i, x);
                    let y = &ci * v.at(i, t);
                    v.set(i, t, y);
                }
            }
            1 => {
                // swap columns i, j of u; rows i, j of v
                let i = r.below(n as u64) as usize;
                let j = r.below(n as u64) as usize;
                for t in 0..n {
                    let (a, b) = (u.at(t, i).clone(), u.at(t, j).clone());
                    u.set(t, i, b);
                    u.set(t, j, a);
                    let (a, b) = (v.at(i, t).clone(), v.at(j, t).clone());
                    v.set(i, t, b);
                    v.set(j, t, a);
                }
            }
            _ => {
                // u := u (I + c e_ij), v := (I - c e_ij) v   (i != j)
                let i = r.below(n as u64) as usize;
                let mut j = r.below(n as u64) as usize;
                if i == j { j = (j + 1) % n; }
                let c = R::small(r);
                for t in 0..n {
                    let x = u.at(t, j) + &(u.at(t, i) * &c);
                    u.set(t, j, x);
                    let y = v.at(i, t) - &(&c * v.at(j, t));
                    v.set(i, t, y);
                }
            }
        }
    }
    (u, v)
}

/// A random complex C_0 -> .. -> C_{n-1}: D_p = U_{p+1} E_p U_p^-1 where E_p maps a block A_p of C_p
/// diagonally onto a block B_{p+1} of C_{p+1} disjoint from A_{p+1} (so E_{p+1} E_p = 0).
/// `mix` = number of elementary operations per base change (0 = very sparse), `unit_pct` = percentage of
/// unit diagonal entries, `scale` = optional common non-unit factor (no unit entries at all).
fn rand_complex<R: RingIo>(r: &mut Rng, nsp: usize, maxdim: usize, mix: usize, unit_pct: u64, scale: bool) -> (Vec<usize>, Vec<DM<R>>)
where
    for<'x> &'x R: RingOps<R>,
{
    // a_p = rank of E_p; b_p = a_{p-1}; h_p free
    let mut a = vec![0usize; nsp];
    let mut dims = vec![0usize; nsp];
    for p in 0..nsp {
        let b = if p == 0 { 0 } else { a[p - 1] };
        let room = maxdim.saturating_sub(b);
        a[p] = if p + 1 == nsp { 0 } else { r.below(room as u64 + 1) as usize };
        if r.chance(1, 8) { a[p] = 0; }
        let h = r.below((room - a[p]) as u64 + 1) as usize;
        let h = if r.chance(1, 2) { h.min(2) } else { h };
        dims[p] = b + a[p] + h;
    }
    let bases: Vec<(DM<R>, DM<R>)> = (0..nsp).map(|p| {
        let k = if mix == 0 { 0 } else { r.below(mix as u64 * dims[p].max(1) as u64 + 1) as usize };
        rand_invertible::<R>(r, dims[p], k)
    }).collect();
    let c = R::nonunit(r);
    let mut ds = vec![];
    for p in 0..nsp.saturating_sub(1) {
        let mut e = DM::<R>::zero(dims[p + 1], dims[p]);
        // coordinates of C_p: [B_p | A_p | H_p]; E_p: A_p (offset b_p) -> B_{p+1} (offset 0)
        let bp = if p == 0 { 0 } else { a[p - 1] };
        for t in 0..a[p] {
            let x = if r.below(100) < unit_pct { R::unit(r) } else { R::nonunit(r) };
            e.set(t, bp + t, x);
        }
        let mut d = bases[p + 1].0.mul(&e).mul(&bases[p].1);
        if scale { d = d.scale(&c); }
        ds.push(d);
    }
    (dims, ds)
}

// ------------------------------------------------------------------------------------------------
// rendering of the implementation's results
// ------------------------------------------------------------------------------------------------
fn show_sp<R: RingIo>(a: &SpMat<R>) -> String
where
    for<'x> &'x R: RingOps<R>,
{
    let (m, n) = a.shape();
    let mut e = vec![R::zero(); m * n];
    for (i, j, x) in a.iter() {
        e[i * n + j] = &e[i * n + j] + x;
    }
    let mut out = vec![m.to_string(), n.to_string()];
    out.extend(e.iter().map(|x| x.show()));
    out.join(" ")
}
fn show_trans<R: RingIo>(t: Option<&Trans<R>>) -> String
where
    for<'x> &'x R: RingOps<R>,
{
    match t {
        None => "0".into(),
        Some(t) => format!("1 {} {} {} {}", t.src_dim(), t.tgt_dim(), show_sp(&t.forward_mat()), show_sp(&t.backward_mat())),
    }
}
fn show_vecs<R: RingIo>(vs: Option<&Vec<SpVec<R>>>) -> String
where
    for<'x> &'x R: RingOps<R>,
{
    match vs {
        None => "0".into(),
        Some(vs) => {
            let mut out = vec![vs.len().to_string()];
            for v in vs {
                let mut e = vec![R::zero(); v.dim()];
                for (i, x) in v.iter() {
                    e[i] = &e[i] + x;
                }
                out.push(v.dim().to_string());
                out.extend(e.iter().map(|x| x.show()));
            }
            out.join(" ")
        }
    }
}
fn show_log(log: &[Vec<(usize, usize)>]) -> String {
    let mut out = vec![log.len().to_string()];
    for l in log {
        out.push(l.len().to_string());
        for (i, j) in l {
            out.push(i.to_string());
            out.push(j.to_string());
        }
    }
    out.join(" ")
}

struct Pools {
    pools: Vec<(usize, rayon::ThreadPool)>,
}
impl Pools {
    fn new() -> Self {
        let pools = [1usize, 2, 3, 4, 8, 16]
            .iter()
            .map(|&k| (k, rayon::ThreadPoolBuilder::new().num_threads(k).build().unwrap()))
            .collect();
        Pools { pools }
    }
    fn run<T: Send>(&self, k: usize, f: impl FnOnce() -> T + Send) -> T {
        let p = self.pools.iter().find(|(n, _)| *n >= k).unwrap_or(self.pools.last().unwrap());
        p.1.install(f)
    }
}

// ------------------------------------------------------------------------------------------------
// running one case
// ------------------------------------------------------------------------------------------------
struct Tok<'a> {
    t: Vec<&'a str>,
    k: usize,
}
impl<'a> Tok<'a> {
    fn next(&mut self) -> &'a str { self.k += 1; self.t[self.k - 1] }
    fn usize(&mut self) -> usize { self.next().parse().unwrap() }
    fn mat<R: RingIo>(&mut self, m: usize, n: usize) -> DM<R>
    where
        for<'x> &'x R: RingOps<R>,
    {
        let e = (0..m * n).map(|_| R::parse(self.next())).collect();
        DM { m, n, e }
    }
}

fn pos_to_deg(deg: isize, top: usize, p: usize) -> isize {
    if deg > 0 { p as isize } else { top as isize - p as isize }
}

/// Some(line) = result; None = dropped (machine-width overflow)
fn run_case<R: RingIo>(kind: &str, tk: &mut Tok, pools: &Pools, log: &PivLog) -> Option<String>
where
    for<'x> &'x R: RingOps<R>,
{
    let threads = tk.usize();
    let deg: isize = tk.next().parse().unwrap();
    log.lock().unwrap().clear();
    let res: Option<String> = match kind {
        "red" | "cpx" => {
            let n = tk.usize();
            let dims: Vec<usize> = (0..n).map(|_| tk.usize()).collect();
            let ds: Vec<DM<R>> = (0..n.saturating_sub(1)).map(|p| tk.mat::<R>(dims[p + 1], dims[p])).collect();
            let top = n - 1; // degree of position p (deg < 0): top - p
            let mat_at = |p: usize| -> SpMat<R> {
                if p < ds.len() { ds[p].to_sp() } else { SpMat::zero((0, dims[p])) }
            };
            guarded(|| {
                pools.run(threads, || {
                    let c = GenericChainComplex::<R>::generate(0..=(n as isize - 1), deg, |i| {
                        let p = if deg > 0 { i as usize } else { top - i as usize };
                        mat_at(p)
                    });
                    if kind == "red" {
                        let r = ChainReducer::reduce(&c, true);
                        let parts: Vec<String> = (0..=n)
                            .map(|p| {
                                let i = if deg > 0 { p as isize } else { top as isize - p as isize };
                                match r.matrix(i) {
                                    None => "-".to_string(),
                                    Some(m) => format!("{} {}", show_sp(m), show_trans(r.trans(i))),
                                }
                            })
                            .collect();
                        let vparts: Vec<String> = (0..=n + 1)
                            .map(|p| {
                                let i = if deg > 0 { p as isize } else { top as isize - p as isize };
                                show_vecs(r.vecs(i))
                            })
                            .collect();
                        format!("{} || {}", parts.join(" | "), vparts.join(" | "))
                    } else {
                        let cr = c.reduced();
                        let parts: Vec<String> = (0..n)
                            .map(|p| {
                                let i = pos_to_deg(deg, top, p);
                                format!("{} {} {}", cr[i].rank(), show_trans(Some(cr[i].trans())), show_sp(&cr.d_matrix(i)))
                            })
                            .collect();
                        parts.join(" | ")
                    }
                })
            })
        }
        "scr" | "bad" => {
            // scr: ranks of the m+1 spaces, then the m matrices; bad: explicit (rows, cols) of every matrix
            // (possibly inconsistent), then the matrices
            let m = tk.usize();
            let shapes: Vec<(usize, usize)> = if kind == "scr" {
                let dims: Vec<usize> = (0..=m).map(|_| tk.usize()).collect();
                (0..m).map(|p| (dims[p + 1], dims[p])).collect()
            } else {
                (0..m).map(|_| { let a = tk.usize(); let b = tk.usize(); (a, b) }).collect()
            };
            let ds: Vec<DM<R>> = (0..m).map(|p| tk.mat::<R>(shapes[p].0, shapes[p].1)).collect();
            let wts: Vec<bool> = (0..m).map(|_| tk.next() == "1").collect();
            let vecs: Vec<Vec<Vec<R>>> = (0..=m)
                .map(|_| {
                    let k = tk.usize();
                    (0..k).map(|_| { let l = tk.usize(); (0..l).map(|_| R::parse(tk.next())).collect() }).collect()
                })
                .collect();
            let nsupp = tk.usize();
            let supp: Vec<usize> = (0..nsupp).map(|_| tk.usize()).collect();
            let nops = tk.usize();
            let mut ops: Vec<Vec<String>> = vec![];
            for _ in 0..nops {
                let o = tk.next();
                let k = match o { "spec" => 3, "at" => 2, _ => 1 };
                let mut v = vec![o.to_string()];
                for _ in 0..k { v.push(tk.next().to_string()); }
                ops.push(v);
            }
            let d = |p: usize| pos_to_deg(deg, m, p);
            guarded(|| {
                pools.run(threads, || {
                    let mut red = ChainReducer::<isize, R>::new(supp.iter().map(|&p| d(p)), deg);
                    for p in 0..m {
                        red.set_matrix(d(p), ds[p].to_sp(), wts[p]);
                    }
                    for p in 0..=m {
                        for v in &vecs[p] {
                            red.add_vec(d(p), SpVec::from(v.clone()));
                        }
                    }
                    for o in &ops {
                        match o[0].as_str() {
                            "spec" => {
                                let p: usize = o[1].parse().unwrap();
                                let pt = if o[2] == "R" { PivotType::Rows } else { PivotType::Cols };
                                let pc = match o[3].as_str() {
                                    "one" => PivotCondition::One,
                                    "unit" => PivotCondition::AnyUnit,
                                    "w1" => PivotCondition::Weight(1.0),
                                    _ => PivotCondition::Weight(2.5),
                                };
                                red.reduce_at_spec(d(p), pt, pc);
                            }
                            "at" => {
                                let p: usize = o[1].parse().unwrap();
                                red.reduce_at(d(p), o[2] == "1");
                            }
                            _ => red.reduce_all(o[1] == "1"),
                        }
                    }
                    let parts: Vec<String> = (0..m)
                        .map(|p| match red.matrix(d(p)) {
                            None => "-".to_string(),
                            Some(a) => format!("{} {}", show_sp(a), show_trans(red.trans(d(p)))),
                        })
                        .collect();
                    let vparts: Vec<String> = (0..=m).map(|p| show_vecs(red.vecs(d(p)))).collect();
                    format!("{} || {}", parts.join(" | "), vparts.join(" | "))
                })
            })
        }
        _ => panic!("bad kind"),
    };
    let l = log.lock().unwrap().clone();
    match res {
        Some(s) => Some(format!("{} # {}", show_log(&l), s)),
        None => {
            if R::MACHINE { None } else { Some(format!("P {}", show_log(&l))) }
        }
    }
}

fn run_line(line: &str, pools: &Pools, log: &PivLog) -> Option<String> {
    let t: Vec<&str> = line.split_whitespace().collect();
    let mut tk = Tok { t, k: 0 };
    let kind = tk.next().to_string();
    let ring = tk.next();
    let r = guarded(|| match ring {
        "Z" => run_case::<i64>(&kind, &mut tk, pools, log),
        "ZB" => run_case::<BigInt>(&kind, &mut tk, pools, log),
        "Q" => run_case::<Ratio<i64>>(&kind, &mut tk, pools, log),
        "QB" => run_case::<Ratio<BigInt>>(&kind, &mut tk, pools, log),
        "F2" => run_case::<FF2>(&kind, &mut tk, pools, log),
        "F3" => run_case::<FF<3>>(&kind, &mut tk, pools, log),
        "ZH" => run_case::<ZH>(&kind, &mut tk, pools, log),
        _ => panic!("bad ring {}", ring),
    });
    match r {
        Some(x) => x,
        None => Some("TOP-PANIC".into()),
    }
}

// ------------------------------------------------------------------------------------------------
// generation
// ------------------------------------------------------------------------------------------------
fn gen_case<R: RingIo>(r: &mut Rng, ring: &str, thorough: bool) -> Option<String>
where
    for<'x> &'x R: RingOps<R>,
{
    let threads = *r.pick(&[1usize, 1, 2, 2, 3, 4, 8, 16, 16]);
    let deg: isize = if r.bool() { 1 } else { -1 };
    let nsp = 1 + r.below(6) as usize; // lengths 1..6
    let maxdim = if thorough { *r.pick(&[2usize, 4, 6, 8, 10, 12]) } else { *r.pick(&[2usize, 3, 4, 6, 8]) };
    let maxdim = if R::MACHINE { maxdim.min(6) } else { maxdim };
    let mix = *r.pick(&[0usize, 0, 1, 1, 2, 3]);
    let mix = if R::MACHINE { mix.min(1) } else { mix };
    let unit_pct = *r.pick(&[100u64, 100, 70, 50, 20, 0]);
    let scale = r.chance(1, 12);
    let kind = match r.below(10) {
        0..=2 => "red",
        3..=4 => "cpx",
        5..=8 => "scr",
        _ => "bad",
    };
    // the generator's own arithmetic is guarded as well
    let (dims, ds) = guarded(|| rand_complex::<R>(r, nsp, maxdim, mix, unit_pct, scale))?;
    let mats = ds.iter().map(|d| d.show()).collect::<Vec<_>>().join(" ");
    let dimstr = dims.iter().map(|d| d.to_string()).collect::<Vec<_>>().join(" ");
    if kind == "red" || kind == "cpx" {
        return Some(format!("{kind} {ring} {threads} {deg} {nsp} {dimstr} {mats}").split_whitespace().collect::<Vec<_>>().join(" "));
    }
    // script mode: spaces C_0..C_{nsp-1}, then C_nsp = 0 (closed); matrices at positions 0..nsp-1
    let m = nsp;
    let mut dims2 = dims.clone();
    dims2.push(0);
    let all_trans = r.chance(4, 5);
    let wts: Vec<&str> = (0..m).map(|_| if all_trans || r.bool() { "1" } else { "0" }).collect();
    // malformed stream ("bad"): not a complex / inconsistent shapes / a tracked vector of the wrong length
    let corrupt = if kind == "bad" { 1 + r.below(3) as usize } else { 0 };
    let cp = r.below(m as u64) as usize; // the corrupted position
    let mut ds = ds;
    ds.push(DM::<R>::zero(0, dims2[m - 1])); // the closing map C_(m-1) -> 0
    let mut shapes: Vec<(usize, usize)> = (0..m).map(|p| (dims2[p + 1], dims2[p])).collect();
    if corrupt == 1 || corrupt == 2 {
        if corrupt == 2 {
            if r.bool() { shapes[cp].0 += 1 } else { shapes[cp].1 += 1 }
        }
        let (a, b) = shapes[cp];
        let mut d = DM::<R>::zero(a, b);
        for i in 0..a { for j in 0..b { if r.chance(1, 2) { d.set(i, j, R::small(r)); } } }
        if a > 0 && b > 0 && r.bool() { d.set(0, 0, R::unit(r)); }
        ds[cp] = d;
    }
    let mats = ds.iter().map(|d| d.show()).collect::<Vec<_>>().join(" ");
    let mut vtoks = vec![];
    for p in 0..=m {
        let wrong = corrupt == 3 && (p == cp || p == cp + 1);
        let k = if wrong { 1 } else if r.chance(1, 2) { 0 } else { 1 + r.below(2) as usize };
        vtoks.push(k.to_string());
        for _ in 0..k {
            let l = if wrong { dims2[p] + 1 } else { dims2[p] };
            vtoks.push(l.to_string());
            for _ in 0..l {
                vtoks.push(R::small(r).show());
            }
        }
    }
    // support: all positions with a matrix, in a random order (mostly ascending / descending)
    let mut supp: Vec<usize> = (0..m).collect();
    match r.below(4) {
        0 => supp.reverse(),
        1 => {
            for i in (1..supp.len()).rev() {
                let j = r.below(i as u64 + 1) as usize;
                supp.swap(i, j);
            }
        }
        _ => {}
    }
    let nops = 1 + r.below(6) as usize;
    let mut ops = vec![];
    for _ in 0..nops {
        let p = r.below(m as u64) as usize;
        match r.below(10) {
            0..=5 => {
                let pt = if r.bool() { "R" } else { "C" };
                let pc = *r.pick(&["one", "unit", "w1", "w2"]);
                ops.push(format!("spec {p} {pt} {pc}"));
            }
            6..=7 => ops.push(format!("at {p} {}", r.below(2))),
            _ => ops.push(format!("all {}", r.below(2))),
        }
    }
    let shape_str = if kind == "bad" {
        shapes.iter().map(|(a, b)| format!("{a} {b}")).collect::<Vec<_>>().join(" ")
    } else {
        dims2.iter().map(|d| d.to_string()).collect::<Vec<_>>().join(" ")
    };
    let line = format!(
        "{kind} {ring} {threads} {deg} {m} {} {mats} {} {} {} {} {} {}",
        shape_str,
        wts.join(" "),
        vtoks.join(" "),
        supp.len(),
        supp.iter().map(|d| d.to_string()).collect::<Vec<_>>().join(" "),
        ops.len(),
        ops.join(" ")
    );
    Some(line.split_whitespace().collect::<Vec<_>>().join(" "))
}

/// a complex C_0 = Z^(1+2P) --d--> C_1 = Z^(2+2P) whose pivot search runs into conflicts in the parallel
/// cycle-free phase: d^T has one row [1 0 1 1 ..] and P pairs of rows a_q = [0 2 .. 2 1 ..], b_q = [0 2 .. 1 2 ..]
/// (each carries a non-unit in the column where the other finds its unit candidate); whoever commits second
/// must notice the conflict.  Run with several threads; the result must not depend on the schedule.
fn conflict_case(r: &mut Rng, ring: &str) -> String {
    let p = 4 + r.below(9) as usize;
    let (m, n) = (1 + 2 * p, 2 + 2 * p);
    let mut d = vec![vec![0i64; m]; n];       // d is n x m ; entry (j, i) = d^T (i, j)
    d[0][0] = 1;
    let (two, one) = (*r.pick(&[2i64, -2, 3]), *r.pick(&[1i64, -1]));
    for q in 0..p {
        let (k, j) = (2 + 2 * q, 3 + 2 * q);
        let (a, b) = (1 + q, 1 + p + q);
        d[k][0] = 1; d[j][0] = 1;
        d[1][a] = two; d[k][a] = two; d[j][a] = one;
        d[1][b] = two; d[k][b] = one; d[j][b] = two;
    }
    let threads = *r.pick(&[2usize, 4, 8, 16, 16]);
    let deg: isize = if r.bool() { 1 } else { -1 };
    let kind = if r.bool() { "red" } else { "cpx" };
    let mats: Vec<String> = d.iter().flatten().map(|x| x.to_string()).collect();
    format!("{kind} {ring} {threads} {deg} 2 {m} {n} {}", mats.join(" "))
}

fn main() {
    quiet_panics();
    let log: PivLog = Arc::new(Mutex::new(vec![]));
    let l2 = log.clone();
    verif_hook::install_pivots_callback(Some(Arc::new(move |p: &[(usize, usize)]| {
        l2.lock().unwrap().push(p.to_vec());
    })));
    let pools = Pools::new();
    match parse_args() {
        Mode::Replay { file, out } => {
            let mut o = Out::new(&out);
            for l in read_lines(&file) {
                match run_line(&l, &pools, &log) {
                    Some(res) => o.case(&l, &res),
                    None => o.case(&l, "DROPPED-MACHINE-OVERFLOW"),
                }
            }
            o.finish();
        }
        Mode::Gen { seed, thorough, out } => {
            let mut o = Out::new(&out);
            let mut r = Rng::new(seed);
            let n = if thorough { 120000 } else { 20000 };
            let mut dropped = 0usize;
            for k in 0..n {
                let ring = ["Z", "ZB", "Q", "QB", "F2", "F3", "ZH"][k % 7];
                let c = match ring {
                    "Z" => gen_case::<i64>(&mut r, ring, thorough),
                    "ZB" => gen_case::<BigInt>(&mut r, ring, thorough),
                    "Q" => gen_case::<Ratio<i64>>(&mut r, ring, thorough),
                    "QB" => gen_case::<Ratio<BigInt>>(&mut r, ring, thorough),
                    "F2" => gen_case::<FF2>(&mut r, ring, thorough),
                    "F3" => gen_case::<FF<3>>(&mut r, ring, thorough),
                    _ => gen_case::<ZH>(&mut r, ring, thorough),
                };
                let Some(c) = c else { dropped += 1; continue };
                match run_line(&c, &pools, &log) {
                    Some(res) => o.case(&c, &res),
                    None => dropped += 1,
                }
            }
            // conflict-prone complexes under 2..16 threads
            let nc = if thorough { 400 } else { 80 };
            for k in 0..nc {
                let _ = k; let c = conflict_case(&mut r, "ZB");
                match run_line(&c, &pools, &log) {
                    Some(res) => o.case(&c, &res),
                    None => dropped += 1,
                }
            }
            eprintln!("dropped (machine-width overflow): {dropped}");
            o.finish();
        }
    }
}
