//! C01 correspondence harness: the library's Khovanov homology tables (v2 engine) vs the tables of the
//! cube-of-resolutions complex computed by the Coq model (Model/KhCube.v, Model/KhHomology.v).
//! case line:  kh <red> <h> <t> <npos> <nneg> ; <link>
//! result   :  Z[..] Q[..] F2[..] F3[..] (+ BZ[..] BQ[..] BF2[..] BF3[..] when h = t = 0)
use yui_link::Link;
use yui_verif_harness::khutil::*;
use yui_verif_harness::*;

fn tables(l: &Link, h: i64, t: i64, red: bool) -> String {
    let mut out = vec![];
    out.push(format!("Z[{}]", kh_table::<i64>(l, &h, &t, red, true)));
    out.push(format!("Q[{}]", kh_table::<Q>(l, &Q::from(h), &Q::from(t), red, false)));
    out.push(format!("F2[{}]", kh_table::<F2>(l, &F2::from(h.rem_euclid(2) as i32), &F2::from(t.rem_euclid(2) as i32), red, false)));
    out.push(format!("F3[{}]", kh_table::<F3>(l, &F3::from(h.rem_euclid(3) as i32), &F3::from(t.rem_euclid(3) as i32), red, false)));
    if h == 0 && t == 0 {
        out.push(format!("BZ[{}]", kh_table_bigraded::<i64>(l, red, true, false)));
        out.push(format!("BQ[{}]", kh_table_bigraded::<Q>(l, red, false, false)));
        out.push(format!("BF2[{}]", kh_table_bigraded::<F2>(l, red, false, false)));
        out.push(format!("BF3[{}]", kh_table_bigraded::<F3>(l, red, false, false)));
    }
    out.join(" ")
}

/// `hr <h> <t> <a> <b> <k> ; <link>`: the builder option h_range (TngComplexBuilder::set_h_range, set before any
/// crossing when k = 0, or after the first k listed crossings have been absorbed): in every homological degree
/// strictly inside a..=b the homology of the restricted build must be that of the unrestricted build.
/// Result: "<unrestricted table over Z> | same=<0|1>"; the model side prints the oracle's table and same=1.
fn run_hr(head: &[&str], link: &str) -> String {
    use yui_kh::kh::internal::v2::builder::TngComplexBuilder;
    use yui_homology::{ChainComplexTrait, GridTrait, SummandTrait};
    let (h, t): (i64, i64) = (head[1].parse().unwrap(), head[2].parse().unwrap());
    let (a, b): (isize, isize) = (head[3].parse().unwrap(), head[4].parse().unwrap());
    let k: usize = head[5].parse().unwrap();
    let l = parse_link(link);
    let full = match guarded(|| kh_table::<i64>(&l, &h, &t, false, true)) { Some(s) => s, None => return "P".into() };
    let restricted = guarded(|| {
        let mut bld = TngComplexBuilder::<i64>::new(&l, &h, &t, None);
        bld.set_elements(vec![]);
        if k == 0 {
            bld.set_h_range(a..=b);
            bld.process_all();
        } else {
            let data = l.data().clone();
            let k = k.min(data.len());
            bld.set_crossings(data[..k].to_vec());
            bld.process_all();
            // the remaining crossings must be known to the builder when the range is set (its pruning counts them)
            bld.set_crossings(data[k..].to_vec());
            bld.set_h_range(a..=b);
            bld.process_all();
        }
        bld.finalize();
        let c = bld.into_kh_complex();
        let hm = c.homology();
        let mut cells = vec![];
        for i in (a + 1)..b {
            let s = &hm[i];
            if s.rank() > 0 || !s.tors().is_empty() { cells.push(format!("{}={}", i, summand_str(s, true))); }
        }
        cells.join(" ")
    });
    let Some(rs) = restricted else { return format!("Z[{}] | same=P", full) };
    // the interior cells of the unrestricted table
    let want: Vec<&str> = full.split_whitespace().filter(|c| {
        let i: isize = c.split('=').next().unwrap().parse().unwrap(); a < i && i < b }).collect();
    format!("Z[{}] | same={}", full, (want.join(" ") == rs) as u8)
}

fn run_case(line: &str, r: &mut Rng) -> String {
    let (head, link) = line.split_once(';').unwrap();
    let t: Vec<&str> = head.split_whitespace().collect();
    if t[0] == "hr" { return run_hr(&t, link); }
    let red = t[1] == "1";
    let (h, tt): (i64, i64) = (t[2].parse().unwrap(), t[3].parse().unwrap());
    let l = parse_link(link);
    let base = match guarded(|| tables(&l, h, tt, red)) {
        Some(s) => s,
        None => return "P".into(),
    };
    // the answer must not depend on the number of threads ...
    for k in [1usize, 16] {
        let pool = rayon::ThreadPoolBuilder::new().num_threads(k).build().unwrap();
        let v = pool.install(|| guarded(|| tables(&l, h, tt, red)));
        if v.as_deref() != Some(base.as_str()) {
            return format!("THREADS-DIFFER({}) {} vs {:?}", k, base, v);
        }
    }
    // ... nor on the order in which crossings are listed (unreduced: the reduced theory of a link
    // depends on the component carrying the base point, which follows the first crossing)
    if !red || l.components().len() <= 1 {
        let mut data = l.data().clone();
        for i in (1..data.len()).rev() {
            let j = r.below(i as u64 + 1) as usize;
            data.swap(i, j);
        }
        let l2 = Link::new(data);
        let v = guarded(|| tables(&l2, h, tt, red));
        if v.as_deref() != Some(base.as_str()) {
            return format!("ORDER-DIFFERS {} vs {:?}", base, v);
        }
    }
    base
}

fn case_line(l: &Link, red: bool, h: i64, t: i64) -> Option<String> {
    let (p, n) = guarded(|| l.signed_crossing_nums())?;
    Some(format!("kh {} {} {} {} {} ; {}", if red { 1 } else { 0 }, h, t, p, n, link_str(l)))
}

fn main() {
    quiet_panics();
    match parse_args() {
        Mode::Replay { file, out } => {
            let mut o = Out::new(&out);
            let mut r = Rng::new(7);
            for l in read_lines(&file) {
                let res = guarded(|| run_case(&l, &mut r.fork())).unwrap_or("TOP-PANIC".into());
                o.case(&l, &res);
            }
            o.finish();
        }
        Mode::Gen { seed, thorough, out } => {
            let mut o = Out::new(&out);
            let mut r = Rng::new(seed);
            let nmax = if thorough { 8 } else { 6 };
            let mut links: Vec<Link> = vec![Link::empty(), Link::unknot()];
            for (_, pd) in table_knots() {
                if pd.len() <= nmax {
                    let l = Link::from_pd_code(pd.clone());
                    links.push(l.mirror());
                    links.push(l);
                }
            }
            // split diagrams, kinks
            let tre: PD = vec![[1, 4, 2, 5], [3, 6, 4, 1], [5, 2, 6, 3]];
            let hopf: PD = vec![[4, 1, 3, 2], [2, 3, 1, 4]];
            links.push(Link::from_pd_code(split_union(&hopf, &vec![[1, 2, 2, 1]])));
            links.push(Link::from_pd_code(split_union(&tre, &hopf)));
            links.push(Link::from_pd_code(add_kink(&tre, 0, 0)));
            links.push(Link::from_pd_code(add_kink(&tre, 2, 3)).mirror());
            links.push(Link::from_pd_code(add_kink(&add_kink(&hopf, 1, 1), 0, 2)));
            // partially resolved diagram (resolved crossings stay in the data)
            links.push(Link::from_pd_code(tre.clone()).resolved_at(1, yui::bitseq::Bit::Bit1));
            // random braid closures (knots and links), relabelled / shuffled / mirrored
            let nb = if thorough { 60 } else { 14 };
            for _ in 0..nb {
                let s = 2 + r.below(3) as usize;
                let len = (s - 1) + r.below((nmax - (s - 1)) as u64 + 1) as usize;
                let mut pd = random_braid(&mut r, s, len.max(s - 1).min(nmax));
                if r.chance(1, 4) && pd.len() < nmax {
                    let c = r.below(pd.len() as u64) as usize;
                    pd = add_kink(&pd, c, r.below(4));
                }
                if r.bool() {
                    pd = relabel(&pd, &mut r);
                }
                if r.bool() {
                    pd = shuffle_crossings(&pd, &mut r);
                }
                if !is_valid(&pd) {
                    continue;
                }
                let l = Link::from_pd_code(pd);
                links.push(if r.bool() { l.mirror() } else { l });
            }
            let hts: Vec<(i64, i64)> = vec![(0, 0), (1, 0), (0, 1), (2, 0), (1, 1), (3, 2), (-1, 0), (0, -3)];
            for l in &links {
                for &(h, t) in &hts {
                    for red in [false, true] {
                        if red && (t != 0 || l.is_empty()) {
                            continue;
                        }
                        // keep the quick tier small: all (h,t) on small diagrams, a rotating subset otherwise
                        if !thorough && l.crossing_num() > 4 && !(h == 0 && t == 0) && r.chance(2, 3) {
                            continue;
                        }
                        // thorough: the oracle's cube of a 7-8 crossing diagram costs tens of seconds per (h,t):
                        // all parameters up to 6 crossings, a rotating third of them above
                        if thorough && l.crossing_num() > 6 && !(h == 0 && t == 0) && r.chance(2, 3) {
                            continue;
                        }
                        if let Some(c) = case_line(l, red, h, t) {
                            let res = guarded(|| run_case(&c, &mut r.fork())).unwrap_or("TOP-PANIC".into());
                            o.case(&c, &res);
                        }
                    }
                }
            }
            // builder option h_range on diagrams with negative crossings: ranges below, around and above 0, set
            // before any crossing or after k crossings
            let nhr = if thorough { 120 } else { 24 };
            let mut made = 0;
            let mut tries = 0;
            while made < nhr && tries < 20 * nhr {
                tries += 1;
                let l = r.pick(&links).clone();
                let n = l.crossing_num();
                if n < 2 || n > nmax { continue; }
                let Some((_, nneg)) = guarded(|| l.signed_crossing_nums()) else { continue };
                let lo = -(nneg as isize);
                let hi = lo + n as isize;
                let a = lo - 1 + r.below((n + 1) as u64) as isize;
                let b = (a + 2 + r.below(4) as isize).min(hi + 1);
                if b - a < 2 { continue; }
                let (h, t) = *r.pick(&[(0i64, 0i64), (0, 0), (1, 0), (0, 1), (2, 3)]);
                let k = if r.bool() { 0 } else { 1 + r.below(n as u64 - 1) as usize };
                let c = format!("hr {} {} {} {} {} ; {}", h, t, a, b, k, link_str(&l));
                let res = guarded(|| run_case(&c, &mut r.fork())).unwrap_or("TOP-PANIC".into());
                o.case(&c, &res);
                made += 1;
            }
            o.finish();
        }
    }
}
