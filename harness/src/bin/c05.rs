//! C05 harness: dumps the Khovanov complexes returned by the library (v2 engine) over Z, F2, F3, Z[H],
//! Z[T], Z[H,T], F2[H], Q, Q[H] for the Coq checker (Model/KhCheck.v: shapes, d.d = 0, grading with
//! deg H = -2, deg T = -4), and the (H,T)-complex specialised at integer points against the directly
//! built homology.
//! case lines:
//!   cx <m> <graded> ; <levels>                     impl: OK        model: OK | FAIL <clause>
//!   sp <h> <t> <i0> ; <levels>            impl: table of KhHomology::<i64>::new(l,h,t,red)   model: table of the specialised dump
//!   rc <ring> <red> ; <link>              impl: OK | FAIL (library-side d.d=0 and grading check, rational coefficients)   model: OK
//! levels = level # level # ... ; level = "q1 q2 .. | i j term+term , i j term ..." ; term = c*eH*eT
//! cobordism evaluation (Model/CobEval.v, Properties/C05Cob.v) - the REAL cob.rs of the library:
//!   ce <ring> <g> <x> <y> <h> <t> ;          closed component of genus g with x X-dots, y Y-dots:
//!        v=CobComp::eval pe=CobComp::part_eval cpe=Cob::part_eval cev=Cob::eval lev=LcCob::eval deg chi z u s
//!   co <ring> <kind> <g> <x> <y> <h> <t> ;   component with boundary (kind cyl|cup|cap|arc|sdl|mrg):
//!        pe=/cpe= coefficients of the component with genus 0 and dots (0,0), (1,0), (0,1) ; s=should_part_eval
//!   cp <ring> <h> <t> ; g x y , g x y , ...  cobordism of closed components: e=Cob::eval pe=Cob::part_eval deg n
//!   ring: z = i64, b = BigInt, p = Z[H,T] (h, t written H, T)
use yui::poly::{Poly, Poly2};
use yui::{Ratio, Ring, RingOps, FF};
use yui_homology::{ChainComplexTrait, SummandTrait};
use num_traits::Zero;
use yui_kh::kh::KhComplex;
use yui_link::Link;
use yui_verif_harness::khutil::*;
use yui_verif_harness::*;
use yui::poly::Mono;
use num_bigint::BigInt;
use yui_kh::kh::internal::v2::cob::{Cob, CobComp, Dot, LcCob, LcCobTrait};
use yui_kh::kh::internal::v2::tng::{Tng, TngComp};

// ---------------------------------------------------------------------------------------------------
// cobordism evaluation
// ---------------------------------------------------------------------------------------------------
trait Show {
    fn show(&self) -> String;
}
impl Show for i64 {
    fn show(&self) -> String { self.to_string() }
}
impl Show for BigInt {
    fn show(&self) -> String { self.to_string() }
}
impl Show for Poly2<'H', 'T', i64> {
    fn show(&self) -> String {
        let mut ts: Vec<(usize, usize, i64)> = self.terms().unwrap().into_iter().filter(|x| x.2 != 0).collect();
        ts.sort();
        if ts.is_empty() { return "0".into(); }
        ts.iter().map(|(eh, et, c)| format!("{}*{}*{}", c, eh, et)).collect::<Vec<_>>().join("+")
    }
}

fn g_or_p<T>(f: impl FnOnce() -> T, show: impl FnOnce(T) -> String) -> String {
    match guarded(f) { Some(v) => show(v), None => "P".into() }
}

/// the closed component, built through `closed` + `add_dot`; must equal the one built by `new`
fn closed_comp(g: usize, x: usize, y: usize) -> CobComp {
    let mut c = CobComp::closed(g);
    for _ in 0..x { c.add_dot(Dot::X); }
    for _ in 0..y { c.add_dot(Dot::Y); }
    c.add_dot(Dot::None);
    c
}

/// coefficient of the empty cobordism of a combination that must not contain any other generator
fn show_closed_lc<R>(lc: &LcCob<R>) -> String
where R: Ring + Show, for<'x> &'x R: RingOps<R> {
    match lc.nterms() {
        0 => "0".into(),
        1 => { let (c, r) = lc.any_term().unwrap(); if c.is_empty() { r.show() } else { format!("?gen[{}]", c) } }
        n => format!("?nterms{}", n),
    }
}

fn ce_result<R>(g: usize, x: usize, y: usize, h: &R, t: &R, full: bool) -> String
where R: Ring + Show, for<'x> &'x R: RingOps<R> {
    let c = closed_comp(g, x, y);
    let ctor = if c == CobComp::new(Tng::empty(), Tng::empty(), g, (x, y)) && c.genus() == g && c.ndots() == x + y && c.is_closed() { "" } else { " ?ctor" };
    let v = g_or_p(|| c.eval(h, t), |v| v.show());
    let pe = g_or_p(|| c.part_eval(h, t), |l| show_closed_lc(&l));
    let lev = g_or_p(|| LcCob::<R>::from(Cob::from(c.clone())).eval(h, t), |v| v.show());
    let (cpe, cev) = if full {
        (g_or_p(|| Cob::from(c.clone()).part_eval(h, t), |l| show_closed_lc(&l)),
         g_or_p(|| Cob::from(c.clone()).eval(h, t), |v| v.show()))
    } else { ("-".into(), "-".into()) };
    format!("v={} pe={} cpe={} cev={} lev={} deg={} chi={} z={} u={} s={}{}", v, pe, cpe, cev, lev,
        g_or_p(|| c.deg(), |d| d.to_string()), g_or_p(|| c.euler_num(), |d| d.to_string()),
        c.is_zero_cob() as u8, c.is_unit_cob() as u8, c.should_part_eval() as u8, ctor)
}

fn open_bottoms(kind: &str) -> Option<(Tng, Tng)> {
    Some(match kind {
        "cyl" => (Tng::from(TngComp::circ([1])), Tng::from(TngComp::circ([2]))),
        "cup" => (Tng::empty(), Tng::from(TngComp::circ([1]))),
        "cap" => (Tng::from(TngComp::circ([1])), Tng::empty()),
        "arc" => (Tng::from(TngComp::arc([1, 2])), Tng::from(TngComp::arc([1, 2]))),
        "sdl" => (Tng::new(vec![TngComp::arc([1, 2]), TngComp::arc([3, 4])]), Tng::new(vec![TngComp::arc([1, 3]), TngComp::arc([2, 4])])),
        "mrg" => (Tng::new(vec![TngComp::circ([1]), TngComp::circ([2])]), Tng::from(TngComp::circ([3]))),
        _ => return None,
    })
}

fn show_open_lc<R>(lc: &LcCob<R>, src: &Tng, tgt: &Tng) -> String
where R: Ring + Show, for<'x> &'x R: RingOps<R> {
    let gens = [(0, 0), (1, 0), (0, 1)].map(|d| Cob::from(CobComp::new(src.clone(), tgt.clone(), 0, d)));
    let cs: Vec<&R> = gens.iter().map(|g| lc.coeff(g)).collect();
    let nz = cs.iter().filter(|c| !c.is_zero()).count();
    let extra = if nz == lc.nterms() { "" } else { ",?other-generators" };
    format!("{},{},{}{}", cs[0].show(), cs[1].show(), cs[2].show(), extra)
}

fn co_result<R>(kind: &str, g: usize, x: usize, y: usize, h: &R, t: &R) -> String
where R: Ring + Show, for<'x> &'x R: RingOps<R> {
    let Some((src, tgt)) = open_bottoms(kind) else { return "BAD-KIND".into() };
    let c = CobComp::new(src.clone(), tgt.clone(), g, (x, y));
    let pe = g_or_p(|| c.part_eval(h, t), |l| show_open_lc(&l, &src, &tgt));
    let cpe = g_or_p(|| Cob::from(c.clone()).part_eval(h, t), |l| show_open_lc(&l, &src, &tgt));
    format!("pe={} cpe={} s={}", pe, cpe, c.should_part_eval() as u8)
}

fn cp_result<R>(comps: &[(usize, usize, usize)], h: &R, t: &R, full: bool) -> String
where R: Ring + Show, for<'x> &'x R: RingOps<R> {
    let cob = Cob::new(comps.iter().map(|&(g, x, y)| closed_comp(g, x, y)));
    let e = g_or_p(|| cob.eval(h, t), |v| v.show());
    let pe = if full { g_or_p(|| cob.clone().part_eval(h, t), |l| show_closed_lc(&l)) } else { "-".into() };
    format!("e={} pe={} deg={} n={}", e, pe, g_or_p(|| cob.deg(), |d| d.to_string()), cob.ncomps())
}

fn parse_comps(s: &str) -> Option<Vec<(usize, usize, usize)>> {
    let mut v = vec![];
    for part in s.split(',') {
        let w: Vec<&str> = part.split_whitespace().collect();
        if w.is_empty() { continue; }
        if w.len() != 3 { return None; }
        v.push((w[0].parse().ok()?, w[1].parse().ok()?, w[2].parse().ok()?));
    }
    Some(v)
}

/// the implementation's result line of a ce / co / cp case line (None: not such a line, or malformed)
fn cob_case(line: &str) -> Option<String> {
    type ZHT = Poly2<'H', 'T', i64>;
    let (head, body) = line.split_once(';')?;
    let w: Vec<&str> = head.split_whitespace().collect();
    let us = |s: &str| s.parse::<usize>().ok();
    match w.as_slice() {
        ["ce", ring, g, x, y, h, t] => {
            let (g, x, y) = (us(g)?, us(x)?, us(y)?);
            Some(match *ring {
                "z" => ce_result::<i64>(g, x, y, &h.parse().ok()?, &t.parse().ok()?, true),
                "b" => ce_result::<BigInt>(g, x, y, &h.parse().ok()?, &t.parse().ok()?, true),
                "p" => ce_result::<ZHT>(g, x, y, &ZHT::variable(0), &ZHT::variable(1), false),
                _ => return None,
            })
        }
        ["co", ring, kind, g, x, y, h, t] => {
            let (g, x, y) = (us(g)?, us(x)?, us(y)?);
            Some(match *ring {
                "z" => co_result::<i64>(kind, g, x, y, &h.parse().ok()?, &t.parse().ok()?),
                "b" => co_result::<BigInt>(kind, g, x, y, &h.parse().ok()?, &t.parse().ok()?),
                _ => return None,
            })
        }
        ["cp", ring, h, t] => {
            let comps = parse_comps(body)?;
            Some(match *ring {
                "z" => cp_result::<i64>(&comps, &h.parse().ok()?, &t.parse().ok()?, true),
                "b" => cp_result::<BigInt>(&comps, &h.parse().ok()?, &t.parse().ok()?, true),
                "p" => cp_result::<ZHT>(&comps, &ZHT::variable(0), &ZHT::variable(1), false),
                _ => return None,
            })
        }
        _ => None,
    }
}

fn emit_cob(o: &mut Out, line: String) {
    let res = guarded(|| cob_case(&line)).flatten().unwrap_or_else(|| "PANIC-IN-IMPL".into());
    o.case(&line, &res);
}

fn big_rand(r: &mut Rng) -> String {
    // boundary-biased: small values, values around 2^31 / 2^63, and up to 24 decimal digits
    match r.below(5) {
        0 => r.range(-3, 3).to_string(),
        1 => (r.range(-2, 2) as i128 + if r.bool() { 1i128 << 31 } else { 1i128 << 63 } * if r.bool() { 1 } else { -1 }).to_string(),
        2 => r.range(-1000, 1000).to_string(),
        _ => {
            let n = 1 + r.below(24);
            let mut s = String::new();
            if r.bool() { s.push('-'); }
            s.push(char::from(b'1' + r.below(9) as u8));
            for _ in 1..n { s.push(char::from(b'0' + r.below(10) as u8)); }
            s
        }
    }
}

fn gen_cob_cases(o: &mut Out, r: &mut Rng, thorough: bool) {
    let mut lines: Vec<String> = vec![];
    let q = &mut lines;
    let small = [0i64, 1, -1, 2, 3];
    // exhaustive: every closed component with g, x, y <= 6 at every (h,t) in {0,1,-1,2,3}^2 over i64, and symbolically
    for g in 0..=6 { for x in 0..=6 { for y in 0..=6 {
        for h in small { for t in small { q.push(format!("ce z {} {} {} {} {} ;", g, x, y, h, t)); } }
        q.push(format!("ce p {} {} {} H T ;", g, x, y));
    } } }
    // larger genus / dot numbers, arbitrary precision parameters
    let nb = if thorough { 1500 } else { 300 };
    for _ in 0..nb {
        // (the recursion of the code - and of its mirror - is exponential in g and in |x - y|: keep the sizes moderate)
        let (g, x, y) = if thorough { (r.below(8), r.below(10), r.below(10)) } else { (r.below(7), r.below(8), r.below(8)) };
        q.push(format!("ce b {} {} {} {} {} ;", g, x, y, big_rand(r), big_rand(r)));
    }
    if thorough {
        for g in 7..=9 { for x in 0..=8 { for y in 0..=8 { q.push(format!("ce p {} {} {} H T ;", g, x, y)); } } }
    }
    // components with boundary
    let kinds = ["cyl", "cup", "cap", "arc", "sdl", "mrg"];
    let pts = [(0i64, 0i64), (1, 0), (0, 1), (-1, 2), (2, 3), (3, -1)];
    for k in kinds { for g in 0..=3 { for x in 0..=4 { for y in 0..=4 { for (h, t) in pts {
        q.push(format!("co z {} {} {} {} {} {} ;", k, g, x, y, h, t));
    } } } } }
    for _ in 0..(if thorough { 1500 } else { 200 }) {
        let k = *r.pick(&kinds);
        q.push(format!("co b {} {} {} {} {} {} ;", k, r.below(6), r.below(8), r.below(8), big_rand(r), big_rand(r)));
    }
    // cobordisms of several closed components (Cob::new sorts them)
    for i in 0..(if thorough { 4000 } else { 600 }) {
        let n = r.below(5) as usize;
        let comps: Vec<String> = (0..n).map(|_| {
            // mostly components that are neither zero nor unit cobordisms, so that products are non-zero
            if r.chance(3, 4) { let g = 1 + 2 * r.below(3); format!("{} {} {}", g, r.below(3), r.below(3)) }
            else { format!("{} {} {}", r.below(5), r.below(5), r.below(5)) }
        }).collect();
        let body = comps.join(" , ");
        match i % 3 {
            0 => q.push(format!("cp z {} {} ; {}", r.pick(&small), r.pick(&small), body)),
            1 => q.push(format!("cp b {} {} ; {}", big_rand(r), big_rand(r), body)),
            _ => q.push(format!("cp p H T ; {}", body)),
        }
    }
    // shuffled, so that the expensive cases are spread over the shards of the model run
    for i in (1..lines.len()).rev() { let j = r.below(i as u64 + 1) as usize; lines.swap(i, j); }
    for l in lines { emit_cob(o, l); }
}

trait Dump {
    /// terms (eH, eT, integer coefficient); None if a coefficient is not integral
    fn terms(&self) -> Option<Vec<(usize, usize, i64)>>;
    /// terms (eH, eT, numerator, denominator > 0)
    fn rterms(&self) -> Vec<(usize, usize, i64, i64)> {
        self.terms().expect("integral").into_iter().map(|(a, b, c)| (a, b, c, 1)).collect()
    }
}
impl Dump for i64 {
    fn terms(&self) -> Option<Vec<(usize, usize, i64)>> { Some(vec![(0, 0, *self)]) }
}
impl Dump for Ratio<i64> {
    fn terms(&self) -> Option<Vec<(usize, usize, i64)>> {
        if *self.denom() == 1 { Some(vec![(0, 0, *self.numer())]) } else { None }
    }
    fn rterms(&self) -> Vec<(usize, usize, i64, i64)> { vec![(0, 0, *self.numer(), *self.denom())] }
}
impl<const P: i32> Dump for FF<P> {
    fn terms(&self) -> Option<Vec<(usize, usize, i64)>> { Some(vec![(0, 0, *self.rep() as i64)]) }
}
impl<S: Dump + Ring> Dump for Poly<'H', S> where for<'x> &'x S: RingOps<S> {
    fn terms(&self) -> Option<Vec<(usize, usize, i64)>> {
        let mut v = vec![];
        for (x, a) in self.iter() {
            for (_, _, c) in a.terms()? { v.push((x.deg(), 0, c)); }
        }
        Some(v)
    }
    fn rterms(&self) -> Vec<(usize, usize, i64, i64)> {
        let mut v = vec![];
        for (x, a) in self.iter() {
            for (_, _, c, d) in a.rterms() { v.push((x.deg(), 0, c, d)); }
        }
        v
    }
}
impl<S: Dump + Ring> Dump for Poly<'T', S> where for<'x> &'x S: RingOps<S> {
    fn terms(&self) -> Option<Vec<(usize, usize, i64)>> {
        let mut v = vec![];
        for (x, a) in self.iter() {
            for (_, _, c) in a.terms()? { v.push((0, x.deg(), c)); }
        }
        Some(v)
    }
}
impl<S: Dump + Ring> Dump for Poly2<'H', 'T', S> where for<'x> &'x S: RingOps<S> {
    fn terms(&self) -> Option<Vec<(usize, usize, i64)>> {
        let mut v = vec![];
        for (x, a) in self.iter() {
            for (_, _, c) in a.terms()? { v.push((x.deg_for(0), x.deg_for(1), c)); }
        }
        Some(v)
    }
}

/// (first homological degree, levels string); None if a coefficient is not integral
fn dump<R>(c: &KhComplex<R>) -> Option<(isize, String)>
where R: Ring + Dump, for<'x> &'x R: RingOps<R> {
    let range = c.h_range();
    let (i0, i1) = (*range.start(), *range.end());
    let mut levels = vec![];
    for i in i0..=i1 {
        let qs: Vec<String> = c[i].raw_gens().iter().map(|x| x.q_deg().to_string()).collect();
        assert_eq!(qs.len(), c[i].rank());
        let d = c.d_matrix(i);
        let mut es = vec![];
        for (r, cc, a) in d.iter() {
            if a.is_zero() { continue; }
            let ts: Vec<String> = a.terms()?.iter().map(|(eh, et, v)| format!("{}*{}*{}", v, eh, et)).collect();
            es.push(format!("{} {} {}", r, cc, ts.join("+")));
        }
        levels.push(format!("{} | {}", qs.join(" "), es.join(" , ")));
    }
    Some((i0, levels.join(" # ")))
}

fn gcd128(a: i128, b: i128) -> i128 { if b == 0 { a.abs() } else { gcd128(b, a % b) } }

/// the same dump with every matrix multiplied by the least common denominator of its coefficients (a non-zero
/// constant per matrix: d.d = 0 and homogeneity are unchanged), for rational coefficient rings
fn dump_scaled<R>(c: &KhComplex<R>) -> Option<(isize, String)>
where R: Ring + Dump, for<'x> &'x R: RingOps<R> {
    let range = c.h_range();
    let (i0, i1) = (*range.start(), *range.end());
    let mut levels = vec![];
    for i in i0..=i1 {
        let qs: Vec<String> = c[i].raw_gens().iter().map(|x| x.q_deg().to_string()).collect();
        let d = c.d_matrix(i);
        let mut l: i128 = 1;
        for (_, _, a) in d.iter() {
            for (_, _, _, den) in a.rterms() { let den = den as i128; l = l / gcd128(l, den) * den; if l > (1i128 << 100) { return None; } }
        }
        let mut es = vec![];
        for (r, cc, a) in d.iter() {
            if a.is_zero() { continue; }
            let ts: Vec<String> = a.rterms().iter().map(|(eh, et, n, den)| format!("{}*{}*{}", (*n as i128) * (l / (*den as i128)), eh, et)).collect();
            es.push(format!("{} {} {}", r, cc, ts.join("+")));
        }
        levels.push(format!("{} | {}", qs.join(" "), es.join(" , ")));
    }
    Some((i0, levels.join(" # ")))
}

fn emit_cx_scaled<R>(o: &mut Out, gr: bool, l: &Link, h: &R, t: &R, red: bool)
where R: Ring + Dump, for<'x> &'x R: RingOps<R> {
    match guarded(|| dump_scaled(&KhComplex::new(l, h, t, red))) {
        Some(Some((_, s))) => o.case(&format!("cx 0 {} ; {}", gr as u8, s), "OK"),
        Some(None) => {}
        None => o.case(&format!("cx 0 {} ; PANIC {}", gr as u8, link_str(l)), "PANIC-IN-IMPL"),
    }
}

fn parse_json_code(s: &str) -> Option<PD> {
    let nums: Vec<usize> = s.split(|c: char| !c.is_ascii_digit()).filter(|x| !x.is_empty()).map(|x| x.parse().ok()).collect::<Option<Vec<_>>>()?;
    if nums.len() % 4 != 0 { return None; }
    Some(nums.chunks(4).map(|c| [c[0], c[1], c[2], c[3]]).collect())
}
fn resource(name: &str) -> Option<PD> {
    let repo = std::env::var("VERIF_REPO").unwrap_or("/repo".into());
    let s = std::fs::read_to_string(format!("{}/yui-link/resources/links/{}.json", repo, name)).ok()?;
    parse_json_code(&s)
}

fn emit_cx<R>(o: &mut Out, m: i64, gr: bool, l: &Link, h: &R, t: &R, red: bool)
where R: Ring + Dump, for<'x> &'x R: RingOps<R> {
    match guarded(|| dump(&KhComplex::new(l, h, t, red))) {
        Some(Some((_, s))) => o.case(&format!("cx {} {} ; {}", m, gr as u8, s), "OK"),
        Some(None) => {}
        None => o.case(&format!("cx {} {} ; PANIC {}", m, gr as u8, link_str(l)), "PANIC-IN-IMPL"),
    }
}

/// library-side check for coefficient rings the Coq checker does not cover (rationals)
fn rust_check<R>(l: &Link, h: &R, t: &R, red: bool, qdeg_h: isize, qdeg_t: isize) -> String
where R: Ring, for<'x> &'x R: RingOps<R> {
    let _ = (qdeg_h, qdeg_t);
    match guarded(|| { let c = KhComplex::new(l, h, t, red); c.check_d_all(); }) {
        Some(()) => "OK".into(),
        None => "FAIL".into(),
    }
}

fn main() {
    quiet_panics();
    match parse_args() {
        Mode::Replay { file, out } => {
            // complexes are dumped into the case line itself: replaying re-checks the recorded dump
            let mut o = Out::new(&out);
            for l in read_lines(&file) {
                if l.starts_with("ce ") || l.starts_with("co ") || l.starts_with("cp ") {
                    // cobordism evaluation cases are re-run on the library
                    emit_cob(&mut o, l.clone());
                    continue;
                }
                if l.starts_with("rj ") {
                    // rejected parameter combinations are re-run on the library
                    let parts: Vec<&str> = l.split(';').collect();
                    let hd: Vec<&str> = parts[0].split_whitespace().collect();
                    let (h, t): (i64, i64) = (hd[2].parse().unwrap(), hd[3].parse().unwrap());
                    let lk = if parts[1].trim() == "EMPTY" { Link::empty() } else { parse_link(parts[1]) };
                    type ZHT2 = Poly2<'H', 'T', i64>;
                    let r1 = guarded(|| { let _ = KhComplex::<i64>::new(&lk, &h, &t, true); }).is_some();
                    let r2 = guarded(|| { let _ = KhComplex::<Ratio<i64>>::new(&lk, &Ratio::from(h), &Ratio::from(t), true); }).is_some();
                    let r3 = t != 0 && guarded(|| { let _ = KhComplex::<ZHT2>::new(&lk, &ZHT2::variable(0), &ZHT2::variable(1), true); }).is_some();
                    o.case(&l, if r1 || r2 || r3 { "RETURNED-A-COMPLEX" } else { "REJECTED" });
                    continue;
                }
                let exp = if l.starts_with("sp ") { "RECORDED-DUMP" } else { "OK" };
                o.case(&l, exp);
            }
            o.finish();
        }
        Mode::Gen { seed, thorough, out } => {
            let mut o = Out::new(&out);
            let mut r = Rng::new(seed);
            { let mut rc = r.fork(); gen_cob_cases(&mut o, &mut rc, thorough); }
            let nmax = if thorough { 11 } else { 8 };
            let mut links: Vec<Link> = vec![Link::empty(), Link::unknot()];
            for (_, pd) in table_knots() {
                let l = Link::from_pd_code(pd.clone());
                links.push(l.mirror());
                links.push(l);
            }
            let tre: PD = vec![[1, 4, 2, 5], [3, 6, 4, 1], [5, 2, 6, 3]];
            let hopf: PD = vec![[4, 1, 3, 2], [2, 3, 1, 4]];
            links.push(Link::from_pd_code(split_union(&tre, &hopf)));
            links.push(Link::from_pd_code(add_kink(&tre, 0, 0)));
            // knots / links on which elimination pivots with non-trivial units and products of non-constant
            // coefficients occur (PD codes read from the repository's resources, generator-side parser)
            let extra: &[&str] = if thorough { &["6_2", "6_3", "7_4", "7_7", "8_19", "8_20", "L6a4", "L7n1", "9_42"] }
                                 else { &["6_2", "7_4", "8_19", "L6a4"] };
            for n in extra {
                if let Some(pd) = resource(n) { links.push(Link::from_pd_code(pd)); }
            }
            let nb = if thorough { 60 } else { 16 };
            for _ in 0..nb {
                let s = 2 + r.below(3) as usize;
                let len = (s - 1) + r.below((nmax - (s - 1)) as u64 + 1) as usize;
                let mut pd = random_braid(&mut r, s, len.max(s - 1).min(nmax));
                if r.chance(1, 4) { let c = r.below(pd.len() as u64) as usize; pd = add_kink(&pd, c, r.below(4)); }
                if r.bool() { pd = relabel(&pd, &mut r); }
                if r.bool() { pd = shuffle_crossings(&pd, &mut r); }
                let l = Link::from_pd_code(pd);
                links.push(if r.bool() { l.mirror() } else { l });
            }
            type ZH = Poly<'H', i64>;
            type ZT = Poly<'T', i64>;
            type ZHT = Poly2<'H', 'T', i64>;
            type F2H = Poly<'H', FF<2>>;
            type QH = Poly<'H', Ratio<i64>>;
            for l in &links {
                for red in [false, true] {
                    if red && l.is_empty() {
                        let r1 = guarded(|| { let _ = KhComplex::<i64>::new(l, &0, &0, true); }).is_some();
                        o.case("rj 1 0 0 ; EMPTY", if r1 { "RETURNED-A-COMPLEX" } else { "REJECTED" });
                        continue;
                    }
                    // numeric parameters
                    for (h, t) in [(0i64, 0i64), (1, 0), (0, 1), (2, 3), (2, 0), (3, 0), (1, 1), (0, 2)] {
                        if red && t != 0 { continue; }
                        if (h, t) == (2, 0) || (h, t) == (3, 0) || (h, t) == (1, 1) || (h, t) == (0, 2) {
                            // rational complexes only (units other than +-1 act in the elimination): every matrix is
                            // scaled to integers and checked by the Coq checker
                            emit_cx_scaled::<Ratio<i64>>(&mut o, false, l, &Ratio::from(h), &Ratio::from(t), red);
                            emit_cx::<FF<5>>(&mut o, 5, false, l, &FF::<5>::new(h as i32), &FF::<5>::new(t as i32), red);
                            continue;
                        }
                        emit_cx::<i64>(&mut o, 0, h == 0 && t == 0, l, &h, &t, red);
                        emit_cx::<FF<2>>(&mut o, 2, h % 2 == 0 && t % 2 == 0, l, &FF::<2>::new(h as i32), &FF::<2>::new(t as i32), red);
                        emit_cx::<FF<3>>(&mut o, 3, h % 3 == 0 && t % 3 == 0, l, &FF::<3>::new(h as i32), &FF::<3>::new(t as i32), red);
                        emit_cx_scaled::<Ratio<i64>>(&mut o, h == 0 && t == 0, l, &Ratio::from(h), &Ratio::from(t), red);
                        let c = format!("rc Q {} ; {} {} ; {}", red as u8, h, t, link_str(l));
                        let res = rust_check::<Ratio<i64>>(l, &Ratio::from(h), &Ratio::from(t), red, 0, 0);
                        o.case(&c, &res);
                    }
                    // rejected parameter combinations (precondition of KhComplex::new: reduced needs a non-empty link
                    // and t = 0; no reduced theory exists otherwise): no complex may be returned
                    if red {
                        for (h, t) in [(0i64, 1i64), (1, 1), (2, -3)] {
                            let r1 = guarded(|| { let _ = KhComplex::<i64>::new(l, &h, &t, true); }).is_some();
                            let r2 = guarded(|| { let _ = KhComplex::<Ratio<i64>>::new(l, &Ratio::from(h), &Ratio::from(t), true); }).is_some();
                            let r3 = guarded(|| { let _ = KhComplex::<ZHT>::new(l, &ZHT::variable(0), &ZHT::variable(1), true); }).is_some();
                            o.case(&format!("rj 1 {} {} ; {}", h, t, link_str(l)),
                                   if r1 || r2 || r3 { "RETURNED-A-COMPLEX" } else { "REJECTED" });
                        }
                    }
                    // polynomial parameters
                    emit_cx::<ZH>(&mut o, 0, true, l, &ZH::variable(), &ZH::zero(), red);
                    emit_cx::<F2H>(&mut o, 2, true, l, &F2H::variable(), &F2H::zero(), red);
                    emit_cx_scaled::<QH>(&mut o, true, l, &QH::variable(), &QH::zero(), red);
                    let c = format!("rc QH {} ; {}", red as u8, link_str(l));
                    let res = rust_check::<QH>(l, &QH::variable(), &QH::zero(), red, -2, -4);
                    o.case(&c, &res);
                    if !red {
                        emit_cx::<ZT>(&mut o, 0, true, l, &ZT::zero(), &ZT::variable(), red);
                        emit_cx::<ZHT>(&mut o, 0, true, l, &ZHT::variable(0), &ZHT::variable(1), red);
                    }
                    // specialisation: (H,T) -> (h,t)
                    let pts: Vec<(i64, i64)> = if red { vec![(0, 0), (1, 0), (3, 0)] } else { vec![(0, 0), (1, 0), (0, 1), (2, 3), (-1, 2)] };
                    let dumped = if red {
                        guarded(|| dump(&KhComplex::<ZH>::new(l, &ZH::variable(), &ZH::zero(), red))).flatten()
                    } else {
                        guarded(|| dump(&KhComplex::<ZHT>::new(l, &ZHT::variable(0), &ZHT::variable(1), red))).flatten()
                    };
                    if let Some((i0, s)) = dumped {
                        for (h, t) in pts {
                            let direct = guarded(|| kh_table::<i64>(l, &h, &t, red, true)).unwrap_or("P".into());
                            o.case(&format!("sp {} {} {} ; {}", h, t, i0, s), &direct);
                        }
                    }
                }
            }
            o.finish();
        }
    }
}
