//! C05 harness: dumps the Khovanov complexes returned by the library (v2 engine) over Z, F2, F3, Z[H],
//! Z[T], Z[H,T], F2[H], Q, Q[H] for the Coq checker (Model/KhCheck.v: shapes, d.d = 0, grading with
//! deg H = -2, deg T = -4), and the (H,T)-complex specialised at integer points against the directly
//! built homology.
//! case lines:
//!   cx <m> <graded> ; <levels>                     impl: OK        model: OK | FAIL <clause>
//!   sp <h> <t> <i0> ; <levels>            impl: table of KhHomology::<i64>::new(l,h,t,red)   model: table of the specialised dump
//!   rc <ring> <red> ; <link>              impl: OK | FAIL (library-side d.d=0 and grading check, rational coefficients)   model: OK
//! levels = level # level # ... ; level = "q1 q2 .. | i j term+term , i j term ..." ; term = c*eH*eT
use yui::poly::{Poly, Poly2};
use yui::{Ratio, Ring, RingOps, FF};
use yui_homology::{ChainComplexTrait, SummandTrait};
use num_traits::Zero;
use yui_kh::kh::KhComplex;
use yui_link::Link;
use yui_verif_harness::khutil::*;
use yui_verif_harness::*;
use yui::poly::Mono;

trait Dump {
    /// terms (eH, eT, integer coefficient); None if a coefficient is not integral
    fn terms(&self) -> Option<Vec<(usize, usize, i64)>>;
    /// terms (eH, eT, numerator, denominator > 0)
    fn rterms(&self) -> Vec<(usize, usize, i64, i64)> {
        self.terms().expect("integral").into_iter().map(|(a, b, c)| (a, b, c, 1)).collect()
    }
}
impl Dump for i64 {
    fn terms(&self) -> Option<Vec<(usize, usize, i64)>> { Some(vec![(0, 0, *self)]) }
}
impl Dump for Ratio<i64> {
    fn terms(&self) -> Option<Vec<(usize, usize, i64)>> {
        if *self.denom() == 1 { Some(vec![(0, 0, *self.numer())]) } else { None }
    }
    fn rterms(&self) -> Vec<(usize, usize, i64, i64)> { vec![(0, 0, *self.numer(), *self.denom())] }
}
impl<const P: i32> Dump for FF<P> {
    fn terms(&self) -> Option<Vec<(usize, usize, i64)>> { Some(vec![(0, 0, *self.rep() as i64)]) }
}
impl<S: Dump + Ring> Dump for Poly<'H', S> where for<'x> &'x S: RingOps<S> {
    fn terms(&self) -> Option<Vec<(usize, usize, i64)>> {
        let mut v = vec![];
        for (x, a) in self.iter() {
            for (_, _, c) in a.terms()? { v.push((x.deg(), 0, c)); }
        }
        Some(v)
    }
    fn rterms(&self) -> Vec<(usize, usize, i64, i64)> {
        let mut v = vec![];
        for (x, a) in self.iter() {
            for (_, _, c, d) in a.rterms() { v.push((x.deg(), 0, c, d)); }
        }
        v
    }
}
impl<S: Dump + Ring> Dump for Poly<'T', S> where for<'x> &'x S: RingOps<S> {
    fn terms(&self) -> Option<Vec<(usize, usize, i64)>> {
        let mut v = vec![];
        for (x, a) in self.iter() {
            for (_, _, c) in a.terms()? { v.push((0, x.deg(), c)); }
        }
        Some(v)
    }
}
impl<S: Dump + Ring> Dump for Poly2<'H', 'T', S> where for<'x> &'x S: RingOps<S> {
    fn terms(&self) -> Option<Vec<(usize, usize, i64)>> {
        let mut v = vec![];
        for (x, a) in self.iter() {
            for (_, _, c) in a.terms()? { v.push((x.deg_for(0), x.deg_for(1), c)); }
        }
        Some(v)
    }
}

/// (first homological degree, levels string); None if a coefficient is not integral
fn dump<R>(c: &KhComplex<R>) -> Option<(isize, String)>
where R: Ring + Dump, for<'x> &'x R: RingOps<R> {
    let range = c.h_range();
    let (i0, i1) = (*range.start(), *range.end());
    let mut levels = vec![];
    for i in i0..=i1 {
        let qs: Vec<String> = c[i].raw_gens().iter().map(|x| x.q_deg().to_string()).collect();
        assert_eq!(qs.len(), c[i].rank());
        let d = c.d_matrix(i);
        let mut es = vec![];
        for (r, cc, a) in d.iter() {
            if a.is_zero() { continue; }
            let ts: Vec<String> = a.terms()?.iter().map(|(eh, et, v)| format!("{}*{}*{}", v, eh, et)).collect();
            es.push(format!("{} {} {}", r, cc, ts.join("+")));
        }
        levels.push(format!("{} | {}", qs.join(" "), es.join(" , ")));
    }
    Some((i0, levels.join(" # ")))
}

fn gcd128(a: i128, b: i128) -> i128 { if b == 0 { a.abs() } else { gcd128(b, a % b) } }

/// the same dump with every matrix multiplied by the least common denominator of its coefficients (a non-zero
/// constant per matrix: d.d = 0 and homogeneity are unchanged), for rational coefficient rings
fn dump_scaled<R>(c: &KhComplex<R>) -> Option<(isize, String)>
where R: Ring + Dump, for<'x> &'x R: RingOps<R> {
    let range = c.h_range();
    let (i0, i1) = (*range.start(), *range.end());
    let mut levels = vec![];
    for i in i0..=i1 {
        let qs: Vec<String> = c[i].raw_gens().iter().map(|x| x.q_deg().to_string()).collect();
        let d = c.d_matrix(i);
        let mut l: i128 = 1;
        for (_, _, a) in d.iter() {
            for (_, _, _, den) in a.rterms() { let den = den as i128; l = l / gcd128(l, den) * den; if l > (1i128 << 100) { return None; } }
        }
        let mut es = vec![];
        for (r, cc, a) in d.iter() {
            if a.is_zero() { continue; }
            let ts: Vec<String> = a.rterms().iter().map(|(eh, et, n, den)| format!("{}*{}*{}", (*n as i128) * (l / (*den as i128)), eh, et)).collect();
            es.push(format!("{} {} {}", r, cc, ts.join("+")));
        }
        levels.push(format!("{} | {}", qs.join(" "), es.join(" , ")));
    }
    Some((i0, levels.join(" # ")))
}

fn emit_cx_scaled<R>(o: &mut Out, gr: bool, l: &Link, h: &R, t: &R, red: bool)
where R: Ring + Dump, for<'x> &'x R: RingOps<R> {
    match guarded(|| dump_scaled(&KhComplex::new(l, h, t, red))) {
        Some(Some((_, s))) => o.case(&format!("cx 0 {} ; {}", gr as u8, s), "OK"),
        Some(None) => {}
        None => o.case(&format!("cx 0 {} ; PANIC {}", gr as u8, link_str(l)), "PANIC-IN-IMPL"),
    }
}

fn parse_json_code(s: &str) -> Option<PD> {
    let nums: Vec<usize> = s.split(|c: char| !c.is_ascii_digit()).filter(|x| !x.is_empty()).map(|x| x.parse().ok()).collect::<Option<Vec<_>>>()?;
    if nums.len() % 4 != 0 { return None; }
    Some(nums.chunks(4).map(|c| [c[0], c[1], c[2], c[3]]).collect())
}
fn resource(name: &str) -> Option<PD> {
    let repo = std::env::var("VERIF_REPO").unwrap_or("/repo".into());
    let s = std::fs::read_to_string(format!("{}/yui-link/resources/links/{}.json", repo, name)).ok()?;
    parse_json_code(&s)
}

fn emit_cx<R>(o: &mut Out, m: i64, gr: bool, l: &Link, h: &R, t: &R, red: bool)
where R: Ring + Dump, for<'x> &'x R: RingOps<R> {
    match guarded(|| dump(&KhComplex::new(l, h, t, red))) {
        Some(Some((_, s))) => o.case(&format!("cx {} {} ; {}", m, gr as u8, s), "OK"),
        Some(None) => {}
        None => o.case(&format!("cx {} {} ; PANIC {}", m, gr as u8, link_str(l)), "PANIC-IN-IMPL"),
    }
}

/// library-side check for coefficient rings the Coq checker does not cover (rationals)
fn rust_check<R>(l: &Link, h: &R, t: &R, red: bool, qdeg_h: isize, qdeg_t: isize) -> String
where R: Ring, for<'x> &'x R: RingOps<R> {
    let _ = (qdeg_h, qdeg_t);
    match guarded(|| { let c = KhComplex::new(l, h, t, red); c.check_d_all(); }) {
        Some(()) => "OK".into(),
        None => "FAIL".into(),
    }
}

fn main() {
    quiet_panics();
    match parse_args() {
        Mode::Replay { file, out } => {
            // complexes are dumped into the case line itself: replaying re-checks the recorded dump
            let mut o = Out::new(&out);
            for l in read_lines(&file) {
                let exp = if l.starts_with("sp ") { "RECORDED-DUMP" } else { "OK" };
                o.case(&l, exp);
            }
            o.finish();
        }
        Mode::Gen { seed, thorough, out } => {
            let mut o = Out::new(&out);
            let mut r = Rng::new(seed);
            let nmax = if thorough { 11 } else { 8 };
            let mut links: Vec<Link> = vec![Link::empty(), Link::unknot()];
            for (_, pd) in table_knots() {
                let l = Link::from_pd_code(pd.clone());
                links.push(l.mirror());
                links.push(l);
            }
            let tre: PD = vec![[1, 4, 2, 5], [3, 6, 4, 1], [5, 2, 6, 3]];
            let hopf: PD = vec![[4, 1, 3, 2], [2, 3, 1, 4]];
            links.push(Link::from_pd_code(split_union(&tre, &hopf)));
            links.push(Link::from_pd_code(add_kink(&tre, 0, 0)));
            // knots / links on which elimination pivots with non-trivial units and products of non-constant
            // coefficients occur (PD codes read from the repository's resources, generator-side parser)
            let extra: &[&str] = if thorough { &["6_2", "6_3", "7_4", "7_7", "8_19", "8_20", "L6a4", "L7n1", "9_42"] }
                                 else { &["6_2", "7_4", "8_19", "L6a4"] };
            for n in extra {
                if let Some(pd) = resource(n) { links.push(Link::from_pd_code(pd)); }
            }
            let nb = if thorough { 60 } else { 16 };
            for _ in 0..nb {
                let s = 2 + r.below(3) as usize;
                let len = (s - 1) + r.below((nmax - (s - 1)) as u64 + 1) as usize;
                let mut pd = random_braid(&mut r, s, len.max(s - 1).min(nmax));
                if r.chance(1, 4) { let c = r.below(pd.len() as u64) as usize; pd = add_kink(&pd, c, r.below(4)); }
                if r.bool() { pd = relabel(&pd, &mut r); }
                if r.bool() { pd = shuffle_crossings(&pd, &mut r); }
                let l = Link::from_pd_code(pd);
                links.push(if r.bool() { l.mirror() } else { l });
            }
            type ZH = Poly<'H', i64>;
            type ZT = Poly<'T', i64>;
            type ZHT = Poly2<'H', 'T', i64>;
            type F2H = Poly<'H', FF<2>>;
            type QH = Poly<'H', Ratio<i64>>;
            for l in &links {
                for red in [false, true] {
                    if red && l.is_empty() { continue; }
                    // numeric parameters
                    for (h, t) in [(0i64, 0i64), (1, 0), (0, 1), (2, 3), (2, 0), (3, 0), (1, 1), (0, 2)] {
                        if red && t != 0 { continue; }
                        if (h, t) == (2, 0) || (h, t) == (3, 0) || (h, t) == (1, 1) || (h, t) == (0, 2) {
                            // rational complexes only (units other than +-1 act in the elimination): every matrix is
                            // scaled to integers and checked by the Coq checker
                            emit_cx_scaled::<Ratio<i64>>(&mut o, false, l, &Ratio::from(h), &Ratio::from(t), red);
                            emit_cx::<FF<5>>(&mut o, 5, false, l, &FF::<5>::new(h as i32), &FF::<5>::new(t as i32), red);
                            continue;
                        }
                        emit_cx::<i64>(&mut o, 0, h == 0 && t == 0, l, &h, &t, red);
                        emit_cx::<FF<2>>(&mut o, 2, h % 2 == 0 && t % 2 == 0, l, &FF::<2>::new(h as i32), &FF::<2>::new(t as i32), red);
                        emit_cx::<FF<3>>(&mut o, 3, h % 3 == 0 && t % 3 == 0, l, &FF::<3>::new(h as i32), &FF::<3>::new(t as i32), red);
                        emit_cx_scaled::<Ratio<i64>>(&mut o, h == 0 && t == 0, l, &Ratio::from(h), &Ratio::from(t), red);
                        let c = format!("rc Q {} ; {} {} ; {}", red as u8, h, t, link_str(l));
                        let res = rust_check::<Ratio<i64>>(l, &Ratio::from(h), &Ratio::from(t), red, 0, 0);
                        o.case(&c, &res);
                    }
                    // polynomial parameters
                    emit_cx::<ZH>(&mut o, 0, true, l, &ZH::variable(), &ZH::zero(), red);
                    emit_cx::<F2H>(&mut o, 2, true, l, &F2H::variable(), &F2H::zero(), red);
                    emit_cx_scaled::<QH>(&mut o, true, l, &QH::variable(), &QH::zero(), red);
                    let c = format!("rc QH {} ; {}", red as u8, link_str(l));
                    let res = rust_check::<QH>(l, &QH::variable(), &QH::zero(), red, -2, -4);
                    o.case(&c, &res);
                    if !red {
                        emit_cx::<ZT>(&mut o, 0, true, l, &ZT::zero(), &ZT::variable(), red);
                        emit_cx::<ZHT>(&mut o, 0, true, l, &ZHT::variable(0), &ZHT::variable(1), red);
                    }
                    // specialisation: (H,T) -> (h,t)
                    let pts: Vec<(i64, i64)> = if red { vec![(0, 0), (1, 0), (3, 0)] } else { vec![(0, 0), (1, 0), (0, 1), (2, 3), (-1, 2)] };
                    let dumped = if red {
                        guarded(|| dump(&KhComplex::<ZH>::new(l, &ZH::variable(), &ZH::zero(), red))).flatten()
                    } else {
                        guarded(|| dump(&KhComplex::<ZHT>::new(l, &ZHT::variable(0), &ZHT::variable(1), red))).flatten()
                    };
                    if let Some((i0, s)) = dumped {
                        for (h, t) in pts {
                            let direct = guarded(|| kh_table::<i64>(l, &h, &t, red, true)).unwrap_or("P".into());
                            o.case(&format!("sp {} {} {} ; {}", h, t, i0, s), &direct);
                        }
                    }
                }
            }
            o.finish();
        }
    }
}
