//! C20 correspondence harness: the REAL `ykh` binary (run as a subprocess) vs the Coq model
//! (Model/Cli.v + Model/Table.v), with the table contents taken from the library API.
//!
//! For every case (command, link token, -t, -c, -m, -r, argv form) the harness
//!  (a) runs the binary ($VERIF_YKH_BIN, default $VERIF_REPO/target/debug/ykh) and records exit status,
//!      error kind (from the message on stderr) and the escaped stdout            -> impl.txt
//!  (b) re-implements the dispatch / `-c` parsing in plain Rust (cross-checked against the library's real
//!      FromStr implementations), loads the link with its own PD parser / Link::load, calls the library
//!      API (KhHomology / KhComplex) for the chosen ring and parameters and records
//!      support + (rank, torsion) of every cell                                   -> cases.txt
//! The model driver (ocaml/c20_driver.ml) recomputes the decision from the raw option strings, refuses
//! the case when the harness' decision differs, and otherwise prints the exact expected result line
//! (exit code, error kind, stdout text laid out by Table.v from the library's cells).
use rayon::prelude::*;
use std::process::{Command, Stdio};
use std::str::FromStr;
use yui::poly::{Poly, Poly2};
use yui::{EucRing, EucRingOps, Ratio, Ring, RingOps, FF};
use yui_homology::{GridTrait, SummandTrait};
use yui_kh::kh::{KhComplex, KhHomology};
use yui_link::Link;
use yui_verif_harness::*;

// ------------------------------------------------------------------------------------------------
// escaping (identical to ocaml/c20_driver.ml)
// ------------------------------------------------------------------------------------------------
fn escape_with(s: &[u8], keep: impl Fn(u8) -> bool) -> String {
    let mut o = String::with_capacity(s.len());
    for &b in s {
        if keep(b) {
            o.push(b as char)
        } else {
            o.push_str(&format!("%{:02X}", b))
        }
    }
    o
}
fn esc_text(s: &[u8]) -> String {
    escape_with(s, |b| (33..=126).contains(&b) && b != b'%')
}
fn esc_item(s: &str) -> String {
    escape_with(s.as_bytes(), |b| (33..=126).contains(&b) && !b"%,;=".contains(&b))
}
fn unescape(s: &str) -> String {
    let b = s.as_bytes();
    let mut o = vec![];
    let mut i = 0;
    while i < b.len() {
        if b[i] == b'%' {
            o.push(u8::from_str_radix(&s[i + 1..i + 3], 16).unwrap());
            i += 3;
        } else {
            o.push(b[i]);
            i += 1;
        }
    }
    String::from_utf8(o).unwrap()
}

// ------------------------------------------------------------------------------------------------
// a case
// ------------------------------------------------------------------------------------------------
#[derive(Clone, Debug)]
struct Case {
    cmd: String, // kh | ckh
    link: String,
    t: Option<String>,
    c: Option<String>,
    m: bool,
    r: bool,
    form: u32,
}

impl Case {
    fn head(&self) -> String {
        let opt = |o: &Option<String>| match o {
            None => "-".to_string(),
            Some(s) => format!(":{}", esc_text(s.as_bytes())),
        };
        format!(
            "cmd={} L={} T={} C={} M={} R={} F={}",
            self.cmd,
            esc_text(self.link.as_bytes()),
            opt(&self.t),
            opt(&self.c),
            self.m as u8,
            self.r as u8,
            self.form
        )
    }
    fn parse(line: &str) -> Case {
        let mut c = Case { cmd: "kh".into(), link: String::new(), t: None, c: None, m: false, r: false, form: 0 };
        for tok in line.split(' ').filter(|t| !t.is_empty()) {
            let (k, v) = tok.split_once('=').expect("field");
            let opt = |v: &str| if v == "-" { None } else { Some(unescape(&v[1..])) };
            match k {
                "cmd" => c.cmd = v.to_string(),
                "L" => c.link = unescape(v),
                "T" => c.t = opt(v),
                "C" => c.c = opt(v),
                "M" => c.m = v == "1",
                "R" => c.r = v == "1",
                "F" => c.form = v.parse().unwrap(),
                _ => {} // LS, D, LIB are recomputed
            }
        }
        c
    }
    /// the command line handed to the binary.  clap delivers the option values verbatim in all forms.
    fn argv(&self) -> Vec<String> {
        let mut a = vec![self.cmd.clone()];
        let needs_eq = |v: &str| v.starts_with('-') || v.is_empty();
        match self.form % 3 {
            0 => {
                a.push(self.link.clone());
                if let Some(t) = &self.t {
                    if needs_eq(t) { a.push(format!("-t={t}")) } else { a.push("-t".into()); a.push(t.clone()) }
                }
                if let Some(c) = &self.c {
                    if needs_eq(c) { a.push(format!("-c={c}")) } else { a.push("-c".into()); a.push(c.clone()) }
                }
                if self.m { a.push("-m".into()) }
                if self.r { a.push("-r".into()) }
            }
            1 => {
                if self.r { a.push("--reduced".into()) }
                if let Some(c) = &self.c { a.push(format!("--c-value={c}")) }
                if self.m { a.push("--mirror".into()) }
                if let Some(t) = &self.t { a.push(format!("--c-type={t}")) }
                a.push(self.link.clone());
            }
            _ => {
                match (self.m, self.r) {
                    (true, true) => a.push("-mr".into()),
                    (true, false) => a.push("-m".into()),
                    (false, true) => a.push("-r".into()),
                    _ => {}
                }
                if let Some(t) = &self.t { a.push(format!("-t={t}")) }
                a.push(self.link.clone());
                if let Some(c) = &self.c { a.push(format!("-c={c}")) }
            }
        }
        a
    }
}

// ------------------------------------------------------------------------------------------------
// (a) the real binary
// ------------------------------------------------------------------------------------------------
fn ykh_bin() -> String {
    std::env::var("VERIF_YKH_BIN").unwrap_or_else(|_| {
        format!("{}/target/debug/ykh", std::env::var("VERIF_REPO").unwrap_or("/repo".into()))
    })
}

/// result line, and the raw stdout when the exit status is 0
fn run_binary(c: &Case) -> (String, Option<Vec<u8>>) {
    let out = Command::new("timeout")
        .args(["-s", "KILL", "300"])
        .arg(ykh_bin())
        .args(c.argv())
        .env("RUST_BACKTRACE", "0")
        .env_remove("RUST_LOG")
        .stdin(Stdio::null())
        .output();
    let out = match out {
        Ok(o) => o,
        Err(e) => return (format!("exit=- kind=other:spawn-failed:{} out=", esc_text(e.to_string().as_bytes())), None),
    };
    let code = out.status.code().map(|c| c.to_string()).unwrap_or("signal".into());
    let stderr = String::from_utf8_lossy(&out.stderr).to_string();
    let kind = if out.status.code() == Some(0) {
        if !out.stdout.is_empty() && !stderr.contains("error") { "table".to_string() } else { "other:exit0-without-table".into() }
    } else if !out.stdout.is_empty() {
        "other:stdout-on-failure".to_string()
    } else if out.status.code() == Some(2) && stderr.starts_with("error:") {
        "error:clap".to_string()
    } else if out.status.code() == Some(1) {
        // main.rs: eprintln!("\x1b[0;31merror\x1b[0m: {e}")
        match stderr.rfind("\x1b[0;31merror\x1b[0m: ") {
            None => "other:no-error-message".to_string(),
            Some(p) => {
                let msg = &stderr[p + "\x1b[0;31merror\x1b[0m: ".len()..];
                let k = if msg.starts_with("panic: ") { "panic" }
                else if msg.contains("` is not supported for: -t ") { "unsupported" }
                else if msg.starts_with("build with `--features qint`") { "feature" }
                else if msg.starts_with("cannot parse '") { "parse" }
                else if msg.starts_with("`t` must be zero for reduced.") { "guard-reduced" }
                else if msg.starts_with("invalid input link: '") { "link" }
                else { "unknown-message" };
                format!("error:{k}")
            }
        }
    } else {
        "other:abnormal-exit".to_string()
    };
    let raw = if out.status.code() == Some(0) { Some(out.stdout.clone()) } else { None };
    (format!("exit={} kind={} out={}", code, kind, esc_text(&out.stdout)), raw)
}

// ------------------------------------------------------------------------------------------------
// (b) the harness' own dispatch and `-c` parser (plain Rust, no regex; mirrors dispatch.rs / helper.rs)
// ------------------------------------------------------------------------------------------------
#[derive(Clone, Copy, PartialEq, Debug)]
enum Base { Z, Q, F2, F3 }
#[derive(Clone, Copy, PartialEq, Debug)]
enum Vars { None, H, T, HT }
#[derive(Clone, PartialEq, Debug)]
enum Val { Int(i64), Rat(i64, i64), Mono(u64, u64) }
#[derive(Clone, PartialEq, Debug)]
enum Pres<T> { Ok(T), Err, Panic }

impl Val {
    fn name(&self) -> String {
        match self {
            Val::Int(z) => format!("i.{z}"),
            Val::Rat(n, d) => format!("r.{n}/{d}"),
            Val::Mono(a, b) => format!("m.{a}.{b}"),
        }
    }
    fn is_zero(&self) -> bool {
        match self { Val::Int(z) => *z == 0, Val::Rat(n, _) => *n == 0, Val::Mono(..) => false }
    }
}
fn ring_name(b: Base, v: Vars) -> String {
    let b = match b { Base::Z => "Z", Base::Q => "Q", Base::F2 => "F2", Base::F3 => "F3" };
    let v = match v { Vars::None => "", Vars::H => "[H]", Vars::T => "[T]", Vars::HT => "[HT]" };
    format!("{b}{v}")
}

/// <integer>::from_str: optional single sign, at least one ASCII digit, range check
fn rust_int(s: &str, lo: i128, hi: i128) -> Option<i64> {
    let b = s.as_bytes();
    let (neg, digits) = match b.first() {
        None => return None,
        Some(b'-') => (true, &b[1..]),
        Some(b'+') => (false, &b[1..]),
        _ => (false, b),
    };
    if digits.is_empty() || !digits.iter().all(|d| d.is_ascii_digit()) { return None }
    let mut v: i128 = 0;
    for d in digits {
        v = v * 10 + (*d - b'0') as i128;
        if v > (1i128 << 100) { return None }
    }
    if neg { v = -v }
    if lo <= v && v <= hi { Some(v as i64) } else { None }
}
fn rust_usize(s: &str) -> Option<u64> {
    let b = s.as_bytes();
    if b.is_empty() || !b.iter().all(|d| d.is_ascii_digit()) { return None }
    let mut v: u128 = 0;
    for d in b {
        v = v * 10 + (*d - b'0') as u128;
        if v > u64::MAX as u128 { return None }
    }
    Some(v as u64)
}
/// groups of `(.+)<sep>(.+)` inside one line
fn split_last(sep: char, line: &str) -> Option<(String, String)> {
    let cs: Vec<char> = line.chars().collect();
    if cs.len() < 3 { return None }
    let mut k = cs.len() - 2;
    loop {
        if k == 0 { return None }
        if cs[k] == sep { return Some((cs[..k].iter().collect(), cs[k + 1..].iter().collect())) }
        k -= 1;
    }
}
fn ratio_regex(s: &str) -> Option<(String, String)> {
    s.split('\n').find_map(|l| split_last('/', l))
}
fn pair_regex(s: &str) -> Option<(String, String)> {
    if s.contains('\n') { None } else { split_last(',', s) }
}
const I64: (i128, i128) = (i64::MIN as i128, i64::MAX as i128);
const I32: (i128, i128) = (i32::MIN as i128, i32::MAX as i128);

fn base_from_str(b: Base, s: &str) -> Pres<Val> {
    match b {
        Base::Z => rust_int(s, I64.0, I64.1).map(|z| Pres::Ok(Val::Int(z))).unwrap_or(Pres::Err),
        Base::F2 => rust_int(s, I32.0, I32.1).map(|z| Pres::Ok(Val::Int(z.rem_euclid(2)))).unwrap_or(Pres::Err),
        Base::F3 => rust_int(s, I32.0, I32.1).map(|z| Pres::Ok(Val::Int(z.rem_euclid(3)))).unwrap_or(Pres::Err),
        Base::Q => {
            if let Some(z) = rust_int(s, I64.0, I64.1) { return Pres::Ok(Val::Int(z)) }
            if let Some((a, d)) = ratio_regex(s) {
                if let (Some(a), Some(d)) = (rust_int(&a, I64.0, I64.1), rust_int(&d, I64.0, I64.1)) {
                    return if d == 0 { Pres::Panic } else { Pres::Ok(Val::Rat(a, d)) }
                }
            }
            Pres::Err
        }
    }
}
fn mono_deg(x: char, s: &str) -> Option<u64> {
    if s == "1" { return Some(0) }
    let rest = s.strip_prefix(x)?;
    if rest.is_empty() { return Some(1) }
    let e = rest.strip_prefix('^')?;
    if e.len() == 1 && e.as_bytes()[0].is_ascii_digit() { return Some((e.as_bytes()[0] - b'0') as u64) }
    let inner = e.strip_prefix('{')?.strip_suffix('}')?;
    if inner.starts_with('-') { return None }
    rust_usize(inner)
}
/// Var2::from_str: tokens `(H|T)(\^\{?-?[0-9]+\}?)?` separated by at most one whitespace character
fn var2_from_str(s: &str) -> Pres<(u64, u64)> {
    if s == "1" { return Pres::Ok((0, 0)) }
    let cs: Vec<char> = s.chars().collect();
    let mut toks: Vec<String> = vec![];
    let mut i = 0;
    if cs.is_empty() { return Pres::Err }
    while i < cs.len() {
        if cs[i] != 'H' && cs[i] != 'T' { return Pres::Err }
        let start = i;
        i += 1;
        if i < cs.len() && cs[i] == '^' {
            i += 1;
            if i < cs.len() && cs[i] == '{' { i += 1 }
            if i < cs.len() && cs[i] == '-' { i += 1 }
            let d0 = i;
            while i < cs.len() && cs[i].is_ascii_digit() { i += 1 }
            if i == d0 { return Pres::Err }
            if i < cs.len() && cs[i] == '}' { i += 1 }
        }
        toks.push(cs[start..i].iter().collect());
        if i < cs.len() && cs[i].is_whitespace() { i += 1 }
    }
    let (mut dh, mut dt) = (0u64, 0u64);
    for t in toks {
        let x = t.chars().next().unwrap();
        let Some(d) = mono_deg(x, &t) else { return Pres::Panic };
        let tgt = if x == 'H' { &mut dh } else { &mut dt };
        match tgt.checked_add(d) { Some(v) => *tgt = v, None => return Pres::Panic }
    }
    Pres::Ok((dh, dt))
}
fn ring_from_str(b: Base, v: Vars, s: &str) -> Pres<Val> {
    let r = base_from_str(b, s);
    if v == Vars::None || r != Pres::Err { return r }
    match v {
        Vars::H => (if s == "1" { Some(0) } else { mono_deg('H', s) }).map(|d| Pres::Ok(Val::Mono(d, 0))).unwrap_or(Pres::Err),
        Vars::T => (if s == "1" { Some(0) } else { mono_deg('T', s) }).map(|d| Pres::Ok(Val::Mono(0, d))).unwrap_or(Pres::Err),
        _ => match var2_from_str(s) { Pres::Ok((a, b)) => Pres::Ok(Val::Mono(a, b)), Pres::Err => Pres::Err, Pres::Panic => Pres::Panic },
    }
}
fn parse_pair(b: Base, v: Vars, s: &str) -> Pres<(Val, Val)> {
    match ring_from_str(b, v, s) {
        Pres::Ok(c) => return Pres::Ok((c, Val::Int(0))),
        Pres::Panic => return Pres::Panic,
        Pres::Err => {}
    }
    let Some((s1, s2)) = pair_regex(s) else { return Pres::Err };
    let a = ring_from_str(b, v, &s1);
    if a == Pres::Panic { return Pres::Panic }
    let c = ring_from_str(b, v, &s2);
    if c == Pres::Panic { return Pres::Panic }
    match (a, c) { (Pres::Ok(x), Pres::Ok(y)) => Pres::Ok((x, y)), _ => Pres::Err }
}
fn poly_vars(c: &str) -> Vars {
    let (h, t) = (c.split(',').any(|x| x == "H"), c.split(',').any(|x| x == "T"));
    match (h, t) { (true, true) => Vars::HT, (true, false) => Vars::H, (false, true) => Vars::T, _ => Vars::None }
}

#[derive(Clone, Debug)]
enum Decision {
    Err(&'static str),
    Run { base: Base, vars: Vars, h: Val, t: Val, red: bool, disp: char },
}
impl Decision {
    fn name(&self) -> String {
        match self {
            Decision::Err(k) => format!("err:{k}"),
            Decision::Run { base, vars, h, t, red, disp } =>
                format!("run:{}:{}:{}:{}:{}", ring_name(*base, *vars), h.name(), t.name(), *red as u8, disp),
        }
    }
}
/// the supported set, written as a table (not as the macro cascade of dispatch.rs)
fn decide(c: &Case) -> Decision {
    let ty = match c.t.as_deref() { None => "Z", Some(s) => s };
    if !["Z", "Q", "F2", "F3", "Gauss", "Eisen"].contains(&ty) { return Decision::Err("clap") }
    let cv = c.c.clone().unwrap_or("0".into());
    let vars = poly_vars(&cv);
    let kh = c.cmd == "kh";
    let base = match ty {
        "Z" => Base::Z, "Q" => Base::Q, "F2" => Base::F2, "F3" => Base::F3,
        _ => return Decision::Err(if vars == Vars::None { "feature" } else { "unsupported" }),
    };
    let supported = match vars {
        Vars::None => true,
        Vars::H | Vars::T => !kh || base != Base::Z,
        Vars::HT => !kh,
    };
    if !supported { return Decision::Err("unsupported") }
    let (h, t) = match parse_pair(base, vars, &cv) {
        Pres::Ok(p) => p,
        Pres::Err => return Decision::Err("parse"),
        Pres::Panic => return Decision::Err("panic"),
    };
    if c.r && !t.is_zero() { return Decision::Err("guard-reduced") }
    let disp = if !kh { 'G' } else if (h.is_zero() && t.is_zero()) || cv == "H" || cv == "0,T" { 'B' } else { 'S' };
    Decision::Run { base, vars, h, t, red: c.r, disp }
}

// ------------------------------------------------------------------------------------------------
// ring elements from a decision, cross-check with the library's FromStr, library calls
// ------------------------------------------------------------------------------------------------
trait Build: Sized + PartialEq {
    fn int(z: i64) -> Self;
    fn rat(_n: i64, _d: i64) -> Self { panic!("not a rational type") }
    fn mono(_dh: u64, _dt: u64) -> Self { panic!("not a polynomial type") }
    fn of(v: &Val) -> Self {
        match v { Val::Int(z) => Self::int(*z), Val::Rat(n, d) => Self::rat(*n, *d), Val::Mono(a, b) => Self::mono(*a, *b) }
    }
}
impl Build for i64 { fn int(z: i64) -> Self { z } }
impl Build for Ratio<i64> {
    fn int(z: i64) -> Self { Ratio::from(z) }
    fn rat(n: i64, d: i64) -> Self { Ratio::new(n, d) }
}
impl<const P: i32> Build for FF<P> { fn int(z: i64) -> Self { FF::new(z as i32) } }
impl<B> Build for Poly<'H', B> where B: Build + Ring, for<'x> &'x B: RingOps<B> {
    fn int(z: i64) -> Self { Self::from_const(B::int(z)) }
    fn rat(n: i64, d: i64) -> Self { Self::from_const(B::rat(n, d)) }
    fn mono(dh: u64, _dt: u64) -> Self { Self::from(Self::mono(dh as usize)) }
}
impl<B> Build for Poly<'T', B> where B: Build + Ring, for<'x> &'x B: RingOps<B> {
    fn int(z: i64) -> Self { Self::from_const(B::int(z)) }
    fn rat(n: i64, d: i64) -> Self { Self::from_const(B::rat(n, d)) }
    fn mono(_dh: u64, dt: u64) -> Self { Self::from(Self::mono(dt as usize)) }
}
impl<B> Build for Poly2<'H', 'T', B> where B: Build + Ring, for<'x> &'x B: RingOps<B> {
    fn int(z: i64) -> Self { Self::from_const(B::int(z)) }
    fn rat(n: i64, d: i64) -> Self { Self::from_const(B::rat(n, d)) }
    fn mono(dh: u64, dt: u64) -> Self { Self::from(Self::mono(dh as usize, dt as usize)) }
}

/// helper.rs parse_pair with the library's real FromStr (the split is the harness' own)
fn real_parse_pair<R: FromStr + num_traits::Zero>(s: &str) -> Result<(R, R), ()> {
    if let Ok(c) = R::from_str(s) { return Ok((c, R::zero())) }
    if let Some((s1, s2)) = pair_regex(s) {
        if let (Ok(a), Ok(b)) = (R::from_str(&s1), R::from_str(&s2)) { return Ok((a, b)) }
    }
    Err(())
}
/// "ok" when the library's FromStr agrees with the harness' parser on this -c string
fn fromstr_check<R: Build + FromStr + num_traits::Zero>(cv: &str, mine: &Pres<(Val, Val)>) -> &'static str {
    let real = guarded(|| real_parse_pair::<R>(cv));
    match (real, mine) {
        (None, Pres::Panic) => "ok",
        (Some(Err(())), Pres::Err) => "ok",
        (Some(Ok((a, b))), Pres::Ok((x, y))) => {
            match guarded(|| (R::of(x), R::of(y))) {
                Some((p, q)) => if a == p && b == q { "ok" } else { "FROMSTR-VALUE-DIFFERS" },
                None => "FROMSTR-BUILD-PANICS",
            }
        }
        // Ratio::new may panic on i64 overflow while reducing: the parser says Ok, the library call will panic
        (None, Pres::Ok((x, y))) => if guarded(|| (R::of(x), R::of(y))).is_none() { "ok" } else { "FROMSTR-PANICS" },
        _ => "FROMSTR-OUTCOME-DIFFERS",
    }
}

fn summand_str<S: SummandTrait>(s: &S) -> String where S::R: Ring, for<'x> &'x S::R: RingOps<S::R> {
    let mut o = s.rank().to_string();
    for t in s.tors() {
        o.push(',');
        o.push_str(&esc_item(&t.to_string()));
    }
    o
}
fn lib_kh<R>(l: &Link, h: &Val, t: &Val, red: bool, disp: char) -> String
where R: Build + EucRing, for<'x> &'x R: EucRingOps<R> {
    let (h, t) = (R::of(h), R::of(t));
    let kh = KhHomology::<R>::new(l, &h, &t, red);
    if disp == 'B' {
        let g = kh.into_bigraded();
        let mut o = String::from("B");
        for idx in g.support() {
            o.push_str(&format!(";{},{},{}", idx.0, idx.1, summand_str(g.get(idx))));
        }
        o
    } else {
        let mut o = String::from("S");
        for i in kh.support() {
            o.push_str(&format!(";{},{}", i, summand_str(kh.get(i))));
        }
        o
    }
}
fn lib_ckh<R>(l: &Link, h: &Val, t: &Val, red: bool) -> String
where R: Build + Ring, for<'x> &'x R: RingOps<R> {
    let (h, t) = (R::of(h), R::of(t));
    let c = KhComplex::<R>::new(l, &h, &t, red);
    let g = c.gen_grid();
    let mut o = String::from("G");
    for idx in g.support() {
        o.push_str(&format!(";{},{},{}", idx.0, idx.1, summand_str(g.get(idx))));
    }
    o
}

type Q = Ratio<i64>;
type F2 = FF<2>;
type F3 = FF<3>;
macro_rules! on_ring {
    ($b:expr, $v:expr, $f:ident, $args:tt, euc) => {
        match ($b, $v) {
            (Base::Z, Vars::None) => $f::<i64> $args,
            (Base::Q, Vars::None) => $f::<Q> $args,
            (Base::F2, Vars::None) => $f::<F2> $args,
            (Base::F3, Vars::None) => $f::<F3> $args,
            (Base::Q, Vars::H) => $f::<Poly<'H', Q>> $args,
            (Base::Q, Vars::T) => $f::<Poly<'T', Q>> $args,
            (Base::F2, Vars::H) => $f::<Poly<'H', F2>> $args,
            (Base::F2, Vars::T) => $f::<Poly<'T', F2>> $args,
            (Base::F3, Vars::H) => $f::<Poly<'H', F3>> $args,
            (Base::F3, Vars::T) => $f::<Poly<'T', F3>> $args,
            _ => panic!("not a Euclidean coefficient ring of the CLI"),
        }
    };
    ($b:expr, $v:expr, $f:ident, $args:tt, any) => {
        match ($b, $v) {
            (Base::Z, Vars::None) => $f::<i64> $args,
            (Base::Q, Vars::None) => $f::<Q> $args,
            (Base::F2, Vars::None) => $f::<F2> $args,
            (Base::F3, Vars::None) => $f::<F3> $args,
            (Base::Z, Vars::H) => $f::<Poly<'H', i64>> $args,
            (Base::Z, Vars::T) => $f::<Poly<'T', i64>> $args,
            (Base::Q, Vars::H) => $f::<Poly<'H', Q>> $args,
            (Base::Q, Vars::T) => $f::<Poly<'T', Q>> $args,
            (Base::F2, Vars::H) => $f::<Poly<'H', F2>> $args,
            (Base::F2, Vars::T) => $f::<Poly<'T', F2>> $args,
            (Base::F3, Vars::H) => $f::<Poly<'H', F3>> $args,
            (Base::F3, Vars::T) => $f::<Poly<'T', F3>> $args,
            (Base::Z, Vars::HT) => $f::<Poly2<'H', 'T', i64>> $args,
            (Base::Q, Vars::HT) => $f::<Poly2<'H', 'T', Q>> $args,
            (Base::F2, Vars::HT) => $f::<Poly2<'H', 'T', F2>> $args,
            (Base::F3, Vars::HT) => $f::<Poly2<'H', 'T', F3>> $args,
        }
    };
}

// ------------------------------------------------------------------------------------------------
// links: the harness' own reading of the LINK argument
// ------------------------------------------------------------------------------------------------
/// strict JSON `[[a,b,c,d],...]` of non-negative integers (what serde_json accepts for Vec<[usize; 4]>)
fn parse_pd(s: &str) -> Option<Vec<[usize; 4]>> {
    let b: Vec<char> = s.chars().collect();
    let mut i = 0usize;
    let ws = |i: &mut usize| while *i < b.len() && matches!(b[*i], ' ' | '\t' | '\n' | '\r') { *i += 1 };
    let num = |i: &mut usize| -> Option<usize> {
        let st = *i;
        while *i < b.len() && b[*i].is_ascii_digit() { *i += 1 }
        if *i == st { return None }
        if b[st] == '0' && *i - st > 1 { return None } // JSON: no leading zeros
        if *i < b.len() && matches!(b[*i], '.' | 'e' | 'E') { return None }
        b[st..*i].iter().collect::<String>().parse::<usize>().ok()
    };
    ws(&mut i);
    if i >= b.len() || b[i] != '[' { return None }
    i += 1;
    let mut out = vec![];
    ws(&mut i);
    if i < b.len() && b[i] == ']' {
        i += 1;
    } else {
        loop {
            ws(&mut i);
            if i >= b.len() || b[i] != '[' { return None }
            i += 1;
            let mut x = [0usize; 4];
            for k in 0..4 {
                ws(&mut i);
                x[k] = num(&mut i)?;
                ws(&mut i);
                if k < 3 {
                    if i >= b.len() || b[i] != ',' { return None }
                    i += 1;
                }
            }
            if i >= b.len() || b[i] != ']' { return None }
            i += 1;
            out.push(x);
            ws(&mut i);
            if i < b.len() && b[i] == ',' { i += 1; continue }
            if i < b.len() && b[i] == ']' { i += 1; break }
            return None;
        }
    }
    ws(&mut i);
    if i != b.len() { return None }
    Some(out)
}
fn load_link(tok: &str) -> Option<Link> {
    if let Some(pd) = parse_pd(tok) {
        return guarded(|| Link::from_pd_code(pd));
    }
    guarded(|| Link::load(tok).ok()).flatten()
}

// ------------------------------------------------------------------------------------------------
// one case
// ------------------------------------------------------------------------------------------------
fn run_case(c: &Case) -> (String, String) {
    let (imp, raw) = run_binary(c);
    let tail = guarded(|| case_tail(c)).unwrap_or("LS=inv D=HARNESS-PANIC LIB=-".into());
    // ckh: the generator grid may legitimately differ between two processes (hash-seeded elimination order);
    // the printed text is handed to the model's checker (Table.check_ckh_text) as a certificate
    let raw = match (&raw, c.cmd.as_str()) {
        (Some(r), "ckh") => format!(" RAW=:{}", esc_text(r)),
        _ => String::new(),
    };
    (format!("{} {}{}", c.head(), tail, raw), imp)
}

fn case_tail(c: &Case) -> String {
    let link = load_link(&c.link);
    let ls = if link.is_some() { "ok" } else { "inv" };
    let d = decide(c);
    let mut dname = d.name();
    let mut lib = "-".to_string();
    if let Decision::Run { base, vars, h, t, red, disp } = &d {
        if let Some(l) = &link {
            let l = if c.m { l.mirror() } else { l.clone() };
            let r = if c.cmd == "kh" {
                guarded(|| on_ring!(*base, *vars, lib_kh, (&l, h, t, *red, *disp), euc))
            } else {
                guarded(|| on_ring!(*base, *vars, lib_ckh, (&l, h, t, *red), any))
            };
            lib = r.unwrap_or("P".into());
        }
    }
    // cross-check the `-c` parser with the library's FromStr for the dispatched ring
    let cv = c.c.clone().unwrap_or("0".into());
    let ty = c.t.as_deref().unwrap_or("Z");
    let base = match ty { "Z" => Some(Base::Z), "Q" => Some(Base::Q), "F2" => Some(Base::F2), "F3" => Some(Base::F3), _ => None };
    if let Some(base) = base {
        let vars = poly_vars(&cv);
        let dispatched = !matches!(d, Decision::Err("unsupported")) && !matches!(d, Decision::Err("clap"));
        if dispatched {
            let mine = parse_pair(base, vars, &cv);
            let chk = on_ring!(base, vars, fromstr_check, (&cv, &mine), any);
            if chk != "ok" { dname = format!("{chk}/{dname}") }
        }
    }
    format!("LS={ls} D={dname} LIB={lib}")
}

// ------------------------------------------------------------------------------------------------
// case generation
// ------------------------------------------------------------------------------------------------
const HOPF: &str = "[[4,1,3,2],[2,3,1,4]]";
fn links(thorough: bool) -> Vec<String> {
    let mut v: Vec<String> = ["3_1", "4_1", HOPF, "[]", "foo", "[[1,2,3,4]]"].iter().map(|s| s.to_string()).collect();
    if thorough {
        let repo = std::env::var("VERIF_REPO").unwrap_or("/repo".into());
        v.extend([
            "5_1", "5_2", "6_1", "6_2", "6_3", "7_1", "8_19", "L2a1", "L4a1", "L6a4", "L6n1", "K11n34",
            "[[1,4,2,5],[3,6,4,1],[5,2,6,3]]",                     // trefoil
            "[[1,1,2,2]]",                                         // kinked unknot
            "[[1,2,2,1]]",                                         // kinked unknot, other sign
            "[[1,1,2,2],[3,3,4,4]]",                               // two kinked unknots (split)
            "[[1,4,2,5],[3,6,4,7],[5,2,6,3],[7,8,8,1]]",           // trefoil with a kink
            "[[1,5,2,4],[3,1,4,6],[5,3,6,2],[7,7,8,8]]",           // trefoil and a kinked unknot (split)
            "[[4,1,3,2],[2,3,1,4],[5,5,6,6]]",                     // Hopf link and a kinked unknot
            "[[1,4,2,3],[4,1,3,2]]",                               // 2-crossing unknot diagram (R2)
            "[[6,1,7,2],[12,8,9,7],[4,12,1,11],[10,5,11,6],[8,4,5,3],[2,9,3,10]]", // Borromean rings
            " [ [4,1,3,2] , [2,3,1,4] ] ",                         // JSON with white space
            "[[1,2,3,4],[1,2,3,4]]",                               // not closed up
            "[[1,2,3]]", "[[1,2,3,4],]", "[[-1,2,3,4]]", "[1,2,3,4]", "[[1.0,2,3,4]]", "[[01,2,3,4]]", "{}", "",
            "99_99", "3_1 ", "L99a99", "/etc/passwd", "/nonexistent/dir/x.json",
        ].iter().map(|s| s.to_string()));
        v.push(format!("{repo}/yui-link/resources/links/3_1.json")); // a path is accepted as well
    }
    v
}
fn ctypes(thorough: bool) -> Vec<Option<String>> {
    let mut v: Vec<Option<String>> = vec![None];
    v.extend(["Z", "Q", "F2", "F3"].iter().map(|s| Some(s.to_string())));
    if thorough {
        v.extend(["Gauss", "Eisen", "z", "F5", "", "Z "].iter().map(|s| Some(s.to_string())));
    }
    v
}
fn cvalues(thorough: bool) -> Vec<Option<String>> {
    let mut v: Vec<Option<String>> = vec![None];
    v.extend(["0", "2", "1,1", "H", "0,T", "H,T", "x", "1,", "T"].iter().map(|s| Some(s.to_string())));
    // constant pairs: h = 0 with a non-zero constant t (Lee type: a sequence, not a bigraded table), both non-zero,
    // and constants that vanish only in the ring (2 = 0 in F2, 3 = 0 in F3: zero-ness is decided after reduction)
    v.extend(["0,1", "0,2", "2,1", "2,3", "0,-1", "3,3", "0,1/2"].iter().map(|s| Some(s.to_string())));
    if thorough {
        v.extend([
            "-1", "1", "3", "-3", "+2", "00", "6", "0,0", "2,0", "1,2", "2,-2",
            "1/2", "2/4", "0/5", "1/0", "1/2,0", "1/2/3", "/1", "1/", "1/-2",
            "9223372036854775807", "9223372036854775808", "-9223372036854775808", "-9223372036854775809",
            "2147483647", "2147483648", "-2147483648", "-2147483649", "4294967296", "99999999999999999999999999",
            "H,H", "T,H", "T,T", "H,0", "0,H", "H,1", "2,H", "H,2", "T,0", "T,1", "1,T", "H,T,0", "H,T,T", "0,H,T",
            "H^2", "H,H^2", "H^2,H", "H,H^0", "H,H^{2}", "H,H^{12}", "H,H^12", "H,H^{-1}", "H,H^{2", "H,H^2}",
            "H,H^", "H,H^{}", "H,T^2", "T,T^3", "T^2,T", "H,18446744073709551616", "H,H^{18446744073709551616}",
            "H,H^{18446744073709551615}", "H ,T", "H, T", "H,T ", " H,T", "h", "t", "H,t", "HT", "HT,H", "H,HT",
            "", " ", "0 ", " 0", ",", ",,", "0,", ",0", "a,b", "0.5", "1e3", "0x10", "\u{ff11}", "H,\u{b2}",
            "1\n", "1/2\n", "0\n,0", "H,1/2", "1/2,H", "H,1/0", "1/0,H", "T,1/0",
        ].iter().map(|s| Some(s.to_string())));
    }
    v
}
/// random `-c` strings over the alphabet of the parsers (the malformed stream)
fn random_c(r: &mut Rng) -> String {
    const PIECES: [&str; 26] = ["H", "T", ",", "0", "1", "2", "3", "9", "-", "+", "/", "^", "{", "}", " ", "H^2", "T^{3}",
        "H,T", "0,T", "12", "x", "1/2", "H^{", "\n", "\u{a0}", "18446744073709551615"];
    let n = 1 + r.below(5);
    (0..n).map(|_| *r.pick(&PIECES)).collect()
}

fn generate(seed: u64, thorough: bool) -> Vec<Case> {
    let mut r = Rng::new(seed);
    let mut cases = vec![];
    let mut push = |r: &mut Rng, cmd: &str, link: &str, t: &Option<String>, c: &Option<String>, m: bool, rr: bool| {
        // argv form: mostly the plain short-option form, the other spellings on a random third
        let form = if r.chance(2, 3) { 0 } else { 1 + r.below(2) as u32 };
        cases.push(Case { cmd: cmd.into(), link: link.into(), t: t.clone(), c: c.clone(), m, r: rr, form });
    };
    let flags = [(false, false), (true, false), (false, true), (true, true)];
    // 1. the whole product on the basic lists
    for cmd in ["kh", "ckh"] {
        for l in links(false) {
            for t in ctypes(false) {
                for c in cvalues(false) {
                    for (m, rr) in flags {
                        push(&mut r, cmd, &l, &t, &c, m, rr);
                    }
                }
            }
        }
    }
    if thorough {
        // 2. the wide option lists on the basic links
        for cmd in ["kh", "ckh"] {
            for l in links(false) {
                for t in ctypes(true) {
                    for c in cvalues(true) {
                        for (m, rr) in flags {
                            if ctypes(false).contains(&t) && cvalues(false).contains(&c) { continue }
                            push(&mut r, cmd, &l, &t, &c, m, rr);
                        }
                    }
                }
            }
        }
        // 3. the basic option lists on the wide link list
        for cmd in ["kh", "ckh"] {
            for l in links(true).into_iter().skip(links(false).len()) {
                for t in ctypes(false) {
                    for c in cvalues(false) {
                        for (m, rr) in flags {
                            push(&mut r, cmd, &l, &t, &c, m, rr);
                        }
                    }
                }
            }
        }
    }
    // 4. random -c strings
    let nrand = if thorough { 6000 } else { 600 };
    let ts = ctypes(false);
    for _ in 0..nrand {
        let cmd = if r.bool() { "kh" } else { "ckh" };
        let l = if r.chance(4, 5) { "3_1" } else { HOPF };
        let t = r.pick(&ts).clone();
        let c = Some(random_c(&mut r));
        let (m, rr) = (r.chance(1, 4), r.chance(1, 3));
        push(&mut r, cmd, l, &t, &c, m, rr);
    }
    cases
}

fn main() {
    quiet_panics();
    let (cases, out) = match parse_args() {
        Mode::Replay { file, out } => (read_lines(&file).iter().map(|l| Case::parse(l)).collect::<Vec<_>>(), out),
        Mode::Gen { seed, thorough, out } => (generate(seed, thorough), out),
    };
    if !std::path::Path::new(&ykh_bin()).exists() {
        eprintln!("ykh binary not found at {}", ykh_bin());
        std::process::exit(3);
    }
    let threads = std::env::var("VERIF_THREADS").ok().and_then(|s| s.parse().ok()).unwrap_or(16usize);
    rayon::ThreadPoolBuilder::new().num_threads(threads).build_global().ok();
    let res: Vec<(String, String)> = cases.par_iter().map(run_case).collect();
    let mut o = Out::new(&out);
    for (c, i) in &res {
        o.case(c, i);
    }
    o.finish();
}
