use std::sync::{Arc, Mutex};
use num_bigint::BigInt;
use yui::poly::{Mono, Poly};
use yui::{FF, FF2, Ratio};
use yui_homology::utils::ChainReducer;
use yui_homology::{ChainComplexTrait, GenericChainComplex, GridTrait, SummandTrait};
use yui_matrix::sparse::pivot::{PivotCondition, PivotType};
use yui_matrix::sparse::{verif_hook, SpMat, SpVec};
use yui_matrix::MatTrait;

fn main() {
    let log: Arc<Mutex<Vec<Vec<(usize, usize)>>>> = Arc::new(Mutex::new(vec![]));
    let l2 = log.clone();
    verif_hook::install_pivots_callback(Some(Arc::new(move |p: &[(usize, usize)]| {
        l2.lock().unwrap().push(p.to_vec());
    })));
    let c = GenericChainComplex::<i64>::rp2();
    let r = ChainReducer::reduce(&c, true);
    println!("{:?}", log.lock().unwrap());
    for i in -1..=3 {
        if let Some(m) = r.matrix(i) {
            println!("mat {i} {:?}", m.shape());
        }
        if let Some(t) = r.trans(i) {
            println!("trans {i} {} {} f={:?}", t.src_dim(), t.tgt_dim(), t.forward_mat().shape());
        }
    }
    log.lock().unwrap().clear();
    let pool = rayon::ThreadPoolBuilder::new().num_threads(3).build().unwrap();
    let cr = pool.install(|| c.reduced());
    println!("{:?}", log.lock().unwrap());
    for i in 0..=2 {
        println!("red {i} rank {} d={:?} t={:?}", cr[i].rank(), cr.d_matrix(i).shape(), cr[i].trans().forward_mat().shape());
    }
    // direct API
    let mut red = ChainReducer::<isize, BigInt>::new(0..=1, 1);
    let a = SpMat::from_dense_data((2, 3), [1, 2, 0, 0, 1, 3].map(BigInt::from));
    red.set_matrix(0, a, true);
    red.add_vec(0, SpVec::from(vec![BigInt::from(1), BigInt::from(2), BigInt::from(3)]));
    red.add_vec(1, SpVec::from(vec![BigInt::from(5), BigInt::from(7)]));
    let cont = red.reduce_at_spec(0, PivotType::Rows, PivotCondition::Weight(1.5));
    println!("cont {cont} {:?} vecs {:?} {:?}", red.matrix(0).unwrap().shape(), red.vecs(0), red.vecs(1));
    type P = Poly<'H', BigInt>;
    let h = P::variable();
    let e = &h * &h + P::from_const(BigInt::from(3));
    println!("{e} {:?}", e.iter().map(|(x, c)| (x.deg(), c.clone())).collect::<Vec<_>>());
    let q = Ratio::<BigInt>::new(BigInt::from(6), BigInt::from(-4));
    println!("{} {} {}", q, q.numer(), q.denom());
    println!("{} {}", FF2::from(3), FF::<3>::from(5).rep());
}
