//! C15 correspondence harness: Euclidean-domain operations of yui vs the Coq model (Model/Euclid.v,
//! Model/EuclidPoly.v).  Case lines are the model driver's input (ocaml/c15_driver.ml):
//!     <type> <op> <operand> [<operand>]
//! Result lines: the canonical value ("P" = panic, "N" = None), followed by " !<clause>" when one of
//! the property's own clauses fails on the implementation's output (the model never prints '!').
//! The generator works on decimal strings / num-bigint only; every call into yui is guarded.
use num_bigint::{BigInt, Sign};
use num_traits::{One, Signed, Zero};
use std::fmt::Debug;
use yui::poly::{HPoly, Poly};
use yui::*;
use yui_verif_harness::*;

type Toks<'a, 'b> = std::slice::Iter<'a, &'b str>;

// ------------------------------------------------------------------------------------------------
// the types under test
// ------------------------------------------------------------------------------------------------
trait Ty: EucRing + Clone + PartialEq + Debug
where
    for<'a> &'a Self: EucRingOps<Self>,
{
    fn parse(t: &mut Toks) -> Self;
    fn show(&self) -> String;
    /// r = 0 or the Euclidean norm of r is smaller than that of b
    fn euc_small(r: &Self, b: &Self) -> bool;
    fn units() -> Vec<Self>;
    /// DivRound, where the type has it
    fn dround(_a: &Self, _b: &Self) -> Option<Self> {
        None
    }
}

fn big<I: ToString>(x: &I) -> BigInt {
    x.to_string().parse().unwrap()
}

macro_rules! impl_int_ty {
    ($t:ty) => {
        impl Ty for $t {
            fn parse(t: &mut Toks) -> Self {
                t.next().unwrap().parse().unwrap()
            }
            fn show(&self) -> String {
                self.to_string()
            }
            fn euc_small(r: &Self, b: &Self) -> bool {
                big(r).abs() < big(b).abs()
            }
            fn units() -> Vec<Self> {
                vec![Self::one(), -Self::one()]
            }
            fn dround(a: &Self, b: &Self) -> Option<Self> {
                Some(a.div_round(b))
            }
        }
    };
}
impl_int_ty!(i32);
impl_int_ty!(i64);
impl_int_ty!(i128);
impl_int_ty!(BigInt);

fn qnorm_big<I: Integer + ToString, const D: i32>(z: &QuadInt<I, D>) -> BigInt
where
    for<'x> &'x I: IntOps<I>,
{
    // independent of the implementation's norm()
    let (a, b) = (big(z.left()), big(z.right()));
    if D == -1 {
        &a * &a + &b * &b
    } else {
        &a * &a + &a * &b + &b * &b
    }
}

macro_rules! impl_quad_ty {
    ($d:literal) => {
        impl<I> Ty for QuadInt<I, $d>
        where
            I: Integer + std::str::FromStr + ToString + Debug,
            <I as std::str::FromStr>::Err: Debug,
            for<'x> &'x I: IntOps<I>,
        {
            fn parse(t: &mut Toks) -> Self {
                let a: I = t.next().unwrap().parse().unwrap();
                let b: I = t.next().unwrap().parse().unwrap();
                QuadInt::new(a, b)
            }
            fn show(&self) -> String {
                format!("{},{}", self.left().to_string(), self.right().to_string())
            }
            fn euc_small(r: &Self, b: &Self) -> bool {
                qnorm_big(r) < qnorm_big(b)
            }
            fn units() -> Vec<Self> {
                let (o, z) = (I::one(), I::zero());
                let mut v = vec![
                    QuadInt::new(o.clone(), z.clone()),
                    QuadInt::new(-o.clone(), z.clone()),
                    QuadInt::new(z.clone(), o.clone()),
                    QuadInt::new(z.clone(), -o.clone()),
                ];
                if $d == -3 {
                    v.push(QuadInt::new(o.clone(), -o.clone()));
                    v.push(QuadInt::new(-o.clone(), o.clone()));
                }
                v
            }
            fn dround(a: &Self, b: &Self) -> Option<Self> {
                Some(a.div_round(b))
            }
        }
    };
}
impl_quad_ty!(-1);
impl_quad_ty!(-3);

impl<I> Ty for Ratio<I>
where
    I: Integer + std::str::FromStr + ToString + Debug,
    <I as std::str::FromStr>::Err: Debug,
    for<'x> &'x I: IntOps<I>,
{
    fn parse(t: &mut Toks) -> Self {
        let n: I = t.next().unwrap().parse().unwrap();
        let d: I = t.next().unwrap().parse().unwrap();
        Ratio::new(n, d)
    }
    fn show(&self) -> String {
        format!("{}/{}", self.numer().to_string(), self.denom().to_string())
    }
    fn euc_small(r: &Self, _b: &Self) -> bool {
        r.is_zero()
    }
    fn units() -> Vec<Self> {
        let i = |k: i32| I::from_i32(k).unwrap();
        vec![Ratio::new(i(1), i(1)), Ratio::new(i(-1), i(1)), Ratio::new(i(2), i(3)), Ratio::new(i(-5), i(2))]
    }
}

impl<const P: i32> Ty for FF<P> {
    fn parse(t: &mut Toks) -> Self {
        FF::new(t.next().unwrap().parse().unwrap())
    }
    fn show(&self) -> String {
        self.rep().to_string()
    }
    fn euc_small(r: &Self, _b: &Self) -> bool {
        r.is_zero()
    }
    fn units() -> Vec<Self> {
        let mut v = vec![FF::new(1), FF::new(P - 1)];
        if P > 3 {
            v.push(FF::new(2));
        }
        v
    }
}

impl Ty for FF2 {
    fn parse(t: &mut Toks) -> Self {
        FF2::from(t.next().unwrap().parse::<i64>().unwrap())
    }
    fn show(&self) -> String {
        if self.is_zero() { "0".into() } else { "1".into() }
    }
    fn euc_small(r: &Self, _b: &Self) -> bool {
        r.is_zero()
    }
    fn units() -> Vec<Self> {
        vec![FF2::one()]
    }
}

impl<R> Ty for Poly<'x', R>
where
    R: Ty + Field,
    for<'a> &'a R: FieldOps<R>,
{
    fn parse(t: &mut Toks) -> Self {
        let k: usize = t.next().unwrap().parse().unwrap();
        let cs: Vec<R> = (0..k).map(|_| R::parse(t)).collect();
        Poly::from_iter(cs.into_iter().enumerate().map(|(i, c)| (Poly::<'x', R>::mono(i), c)))
    }
    fn show(&self) -> String {
        if self.is_zero() {
            return "[]".into();
        }
        let n = self.lead_deg();
        let cs: Vec<String> = (0..=n).map(|i| self.coeff_for(i).show()).collect();
        format!("[{}]", cs.join(" "))
    }
    fn euc_small(r: &Self, b: &Self) -> bool {
        r.is_zero() || r.lead_deg() < b.lead_deg()
    }
    fn units() -> Vec<Self> {
        R::units().into_iter().map(Poly::from_const).collect()
    }
}

impl<R> Ty for HPoly<'x', R>
where
    R: Ty + Field,
    for<'a> &'a R: FieldOps<R>,
{
    fn parse(t: &mut Toks) -> Self {
        let d: usize = t.next().unwrap().parse().unwrap();
        let c = R::parse(t);
        HPoly::new(d, c)
    }
    fn show(&self) -> String {
        if self.is_zero() { "0".into() } else { format!("{}:{}", self.deg(), self.coeff().show()) }
    }
    fn euc_small(r: &Self, b: &Self) -> bool {
        r.is_zero() || r.deg() < b.deg()
    }
    fn units() -> Vec<Self> {
        R::units().into_iter().map(HPoly::from_const).collect()
    }
}

// ------------------------------------------------------------------------------------------------
// running one case
// ------------------------------------------------------------------------------------------------
fn so<T: Ty>(x: &Option<T>) -> String
where
    for<'a> &'a T: EucRingOps<T>,
{
    x.as_ref().map(|v| v.show()).unwrap_or("P".into())
}
fn b01(x: bool) -> String {
    if x { "1".into() } else { "0".into() }
}
/// all results of the call forms must coincide
fn same<T: PartialEq>(xs: &[Option<T>]) -> bool {
    xs.windows(2).all(|w| w[0] == w[1])
}

fn run<T: Ty>(op: &str, t: &mut Toks) -> String
where
    for<'a> &'a T: EucRingOps<T>,
{
    let a = T::parse(t);
    let mut flags: Vec<&str> = vec![];
    let res = match op {
        "div" | "rem" => {
            let b = T::parse(t);
            let forms: Vec<Option<T>> = if op == "div" {
                vec![
                    guarded(|| &a / &b),
                    guarded(|| a.clone() / b.clone()),
                    guarded(|| a.clone() / &b),
                    guarded(|| &a / b.clone()),
                    guarded(|| { let mut c = a.clone(); c /= &b; c }),
                    guarded(|| { let mut c = a.clone(); c /= b.clone(); c }),
                ]
            } else {
                vec![
                    guarded(|| &a % &b),
                    guarded(|| a.clone() % b.clone()),
                    guarded(|| a.clone() % &b),
                    guarded(|| &a % b.clone()),
                    guarded(|| { let mut c = a.clone(); c %= &b; c }),
                    guarded(|| { let mut c = a.clone(); c %= b.clone(); c }),
                ]
            };
            if !same(&forms) {
                return "FORMS-DIFFER".into();
            }
            // clause: a = (a/b) b + (a%b), remainder zero or of smaller Euclidean norm
            if let (Some(q), Some(r)) = (guarded(|| &a / &b), guarded(|| &a % &b)) {
                if guarded(|| &(&q * &b) + &r == a) == Some(false) {
                    flags.push("!divrem");
                }
                if guarded(|| T::euc_small(&r, &b)) == Some(false) {
                    flags.push("!norm");
                }
            }
            so(&forms[0])
        }
        "div_round" => {
            let b = T::parse(t);
            so(&guarded(|| T::dround(&a, &b).unwrap()))
        }
        "divides" => {
            let b = T::parse(t);
            let r = guarded(|| a.divides(&b));
            // clause: divides <-> some multiple (checked one way: a | b -> (b / a) * a = b)
            if r == Some(true) {
                if guarded(|| &(&b / &a) * &a == b) == Some(false) {
                    flags.push("!divides");
                }
            }
            r.map(b01).unwrap_or("P".into())
        }
        "gcd" => {
            let b = T::parse(t);
            let d = guarded(|| T::gcd(&a, &b));
            if let Some(d) = &d {
                let both_zero = a.is_zero() && b.is_zero();
                if both_zero {
                    if !d.is_zero() {
                        flags.push("!gcd0");
                    }
                } else {
                    if guarded(|| d.divides(&a) && d.divides(&b)) == Some(false) {
                        flags.push("!gcd-divides");
                    }
                    if guarded(|| d.normalizing_unit().is_one()) == Some(false) {
                        flags.push("!gcd-normalized");
                    }
                }
                if let Some(d2) = guarded(|| T::gcd(&b, &a)) {
                    if &d2 != d {
                        flags.push("!gcd-order");
                    }
                }
            }
            so(&d)
        }
        "gcdx" => {
            let b = T::parse(t);
            let r = guarded(|| T::gcdx(&a, &b));
            match r {
                None => "P".into(),
                Some((d, s, u)) => {
                    if guarded(|| &(&s * &a) + &(&u * &b) == d) == Some(false) {
                        flags.push("!bezout");
                    }
                    if let Some(g) = guarded(|| T::gcd(&a, &b)) {
                        if g != d {
                            flags.push("!gcdx-gcd");
                        }
                    }
                    format!("{};{};{}", d.show(), s.show(), u.show())
                }
            }
        }
        "lcm" => {
            let b = T::parse(t);
            let m = guarded(|| T::lcm(&a, &b));
            if let Some(m) = &m {
                // lcm * gcd is an associate of a * b
                let ok = guarded(|| {
                    let g = T::gcd(&a, &b);
                    (m * &g).normalized() == (&a * &b).normalized()
                });
                if ok == Some(false) {
                    flags.push("!lcm");
                }
            }
            so(&m)
        }
        "is_unit" => {
            let u = guarded(|| a.is_unit());
            let i = guarded(|| a.inv());
            if let (Some(u), Some(i)) = (u, &i) {
                if u != i.is_some() {
                    flags.push("!unit-inv");
                }
            }
            u.map(b01).unwrap_or("P".into())
        }
        "inv" => {
            let i = guarded(|| a.inv());
            match i {
                None => "P".into(),
                Some(None) => "N".into(),
                Some(Some(i)) => {
                    if guarded(|| (&a * &i).is_one()) == Some(false) {
                        flags.push("!inv");
                    }
                    i.show()
                }
            }
        }
        "nunit" => {
            let u = guarded(|| a.normalizing_unit());
            if let Some(u) = &u {
                if guarded(|| u.is_unit()) == Some(false) {
                    flags.push("!nunit-unit");
                }
            }
            so(&u)
        }
        "normalized" => {
            let n = guarded(|| a.normalized());
            let n2 = guarded(|| a.clone().into_normalized());
            if n != n2 {
                return "FORMS-DIFFER".into();
            }
            if let Some(n) = &n {
                if guarded(|| &n.normalized() == n) == Some(false) {
                    flags.push("!norm-idem");
                }
                if guarded(|| &(&a * &a.normalizing_unit()) == n) == Some(false) {
                    flags.push("!norm-def");
                }
                for u in T::units() {
                    if guarded(|| &(&a * &u).normalized() == n) == Some(false) {
                        flags.push("!norm-assoc");
                        break;
                    }
                }
            }
            so(&n)
        }
        _ => panic!("bad op {}", op),
    };
    if flags.is_empty() { res } else { format!("{} {}", res, flags.join(" ")) }
}

type PQ = Poly<'x', Ratio<BigInt>>;
type PF3 = Poly<'x', FF<3>>;
type PF5 = Poly<'x', FF<5>>;
type HQ = HPoly<'x', Ratio<BigInt>>;
type HF3 = HPoly<'x', FF<3>>;
const BIGP: i32 = 46337;

fn run_case_inner(line: &str) -> String {
    let toks: Vec<&str> = line.split_whitespace().collect();
    let (ty, op) = (toks[0], toks[1]);
    let mut it = toks[2..].iter();
    match ty {
        "i32" => run::<i32>(op, &mut it),
        "i64" => run::<i64>(op, &mut it),
        "i128" => run::<i128>(op, &mut it),
        "big" => run::<BigInt>(op, &mut it),
        "gi64" => run::<GaussInt<i64>>(op, &mut it),
        "gi128" => run::<GaussInt<i128>>(op, &mut it),
        "gbig" => run::<GaussInt<BigInt>>(op, &mut it),
        "ei64" => run::<EisenInt<i64>>(op, &mut it),
        "ei128" => run::<EisenInt<i128>>(op, &mut it),
        "ebig" => run::<EisenInt<BigInt>>(op, &mut it),
        "q64" => run::<Ratio<i64>>(op, &mut it),
        "qbig" => run::<Ratio<BigInt>>(op, &mut it),
        "f2" => run::<FF2>(op, &mut it),
        "f3" => run::<FF<3>>(op, &mut it),
        "f5" => run::<FF<5>>(op, &mut it),
        "f7" => run::<FF<7>>(op, &mut it),
        "f46337" => run::<FF<BIGP>>(op, &mut it),
        "pq" => run::<PQ>(op, &mut it),
        "pf3" => run::<PF3>(op, &mut it),
        "pf5" => run::<PF5>(op, &mut it),
        "hq" => run::<HQ>(op, &mut it),
        "hf3" => run::<HF3>(op, &mut it),
        _ => panic!("bad type {}", ty),
    }
}

fn run_case(line: &str) -> String {
    guarded(|| run_case_inner(line)).unwrap_or("TOP-PANIC".into())
}

// ------------------------------------------------------------------------------------------------
// generators (num-bigint only)
// ------------------------------------------------------------------------------------------------
fn pow2(k: u32) -> BigInt {
    BigInt::one() << k
}
fn rand_bits(r: &mut Rng, bits: u32) -> BigInt {
    // uniform non-negative integer below 2^bits
    let mut x = BigInt::zero();
    let mut left = bits;
    while left > 0 {
        let k = left.min(32);
        x = (x << k) + BigInt::from(r.next_u64() & ((1u64 << k) - 1));
        left -= k;
    }
    x
}
fn rand_sign(r: &mut Rng, x: BigInt) -> BigInt {
    if r.bool() { -x } else { x }
}
/// width: Some(w) = machine integer of w bits (value range [-2^(w-1), 2^(w-1))), None = BigInt.
/// maxbits bounds the magnitude (|x| < 2^maxbits) unless the full-range boundary values are asked for.
fn rand_int(r: &mut Rng, maxbits: u32, boundary: bool) -> BigInt {
    let x = match r.below(10) {
        0 => BigInt::from(r.range(-3, 3)),
        1 => BigInt::from(r.range(-20, 20)),
        2 | 3 if boundary => {
            // around the powers of two where f64 / machine words change behaviour
            let ks: Vec<u32> = [15u32, 16, 31, 32, 52, 53, 54, 62, 63, 64, 126, 127, 128]
                .iter()
                .cloned()
                .filter(|&k| k <= maxbits)
                .collect();
            if ks.is_empty() {
                rand_bits(r, maxbits)
            } else {
                let k = *r.pick(&ks);
                let x = pow2(k) + BigInt::from(r.range(-2, 2));
                rand_sign(r, x)
            }
        }
        4 | 5 => {
            let b = 1 + r.below(maxbits as u64) as u32;
            let x = rand_bits(r, b);
            rand_sign(r, x)
        }
        _ => {
            let x = rand_bits(r, maxbits);
            rand_sign(r, x)
        }
    };
    clamp(x, maxbits)
}
/// keep |x| < 2^maxbits (x = -2^maxbits allowed: that is MIN when maxbits = w-1)
fn clamp(x: BigInt, maxbits: u32) -> BigInt {
    let m = pow2(maxbits);
    if x >= m {
        &m - BigInt::one()
    } else if x < -&m {
        -m
    } else {
        x
    }
}
fn in_range(x: &BigInt, maxbits: u32) -> bool {
    let m = pow2(maxbits);
    *x < m && *x >= -m
}

/// structured integer pairs: independent, multiples, ties, near-ties, associates, common factors, zeros
fn int_pair(r: &mut Rng, maxbits: u32) -> (BigInt, BigInt) {
    let half = (maxbits / 2).max(2);
    let (a, b) = match r.below(14) {
        0 => (rand_int(r, maxbits, true), BigInt::zero()),
        1 => (BigInt::zero(), rand_int(r, maxbits, true)),
        2 => {
            let b = rand_int(r, half, true);
            let k = rand_int(r, maxbits - half - 1, true);
            (&k * &b, b) // exact multiple
        }
        3 | 4 => {
            // tie: a = (2k+1) c, b = 2c
            let c = rand_int(r, half.saturating_sub(1).max(1), true);
            let k = rand_int(r, maxbits - half - 2, true);
            ((BigInt::from(2) * &k + BigInt::one()) * &c, BigInt::from(2) * &c)
        }
        5 => {
            // next to a tie
            let c = rand_int(r, half.saturating_sub(1).max(1), true);
            let k = rand_int(r, maxbits - half - 2, true);
            ((BigInt::from(2) * &k + BigInt::one()) * &c + BigInt::from(r.range(-1, 1)), BigInt::from(2) * &c)
        }
        6 => {
            let a = rand_int(r, maxbits, true);
            let b = if r.bool() { a.clone() } else { -&a };
            (a, b)
        }
        7 | 8 => {
            // common factor
            let g = rand_int(r, maxbits / 3, false);
            let x = rand_int(r, maxbits - maxbits / 3 - 1, false);
            let y = rand_int(r, maxbits - maxbits / 3 - 1, false);
            (&g * &x, &g * &y)
        }
        9 => {
            // consecutive Fibonacci numbers: the longest Euclid runs
            let n = 2 + r.below((maxbits as u64 * 10 / 7).max(3)) as usize;
            let (mut x, mut y) = (BigInt::one(), BigInt::one());
            for _ in 0..n {
                let z = &x + &y;
                x = y;
                y = z;
                if !in_range(&y, maxbits.saturating_sub(1)) {
                    break;
                }
            }
            (rand_sign(r, y), rand_sign(r, x))
        }
        10 => (rand_int(r, maxbits, true), BigInt::from(r.range(-2, 2))),
        _ => (rand_int(r, maxbits, true), rand_int(r, maxbits, true)),
    };
    (clamp(a, maxbits), clamp(b, maxbits))
}

// Gaussian / Eisenstein arithmetic of the generator (plain formulas)
type Q2 = (BigInt, BigInt);
fn qmul(d: i32, u: &Q2, v: &Q2) -> Q2 {
    let (a, b) = u;
    let (c, e) = v;
    if d == -1 {
        (a * c - b * e, a * e + b * c)
    } else {
        (a * c - b * e, a * e + b * c + b * e)
    }
}
fn qadd(u: &Q2, v: &Q2) -> Q2 {
    (&u.0 + &v.0, &u.1 + &v.1)
}
fn qunits(d: i32) -> Vec<Q2> {
    let i = |x: i32| BigInt::from(x);
    let mut v = vec![(i(1), i(0)), (i(-1), i(0)), (i(0), i(1)), (i(0), i(-1))];
    if d == -3 {
        v.push((i(1), i(-1)));
        v.push((i(-1), i(1)));
    }
    v
}
fn rand_q(r: &mut Rng, bits: u32) -> Q2 {
    match r.below(8) {
        0 => (rand_int(r, bits, true), BigInt::zero()),
        1 => (BigInt::zero(), rand_int(r, bits, true)),
        2 => {
            let a = rand_int(r, bits, true);
            let b = if r.bool() { a.clone() } else { -&a };
            (a, b)
        }
        _ => (rand_int(r, bits, true), rand_int(r, bits, true)),
    }
}
fn q_ok(u: &Q2, bits: u32) -> bool {
    in_range(&u.0, bits) && in_range(&u.1, bits) && u.0 != -pow2(bits) && u.1 != -pow2(bits)
}
/// pairs with |coordinates| < 2^bits
fn quad_pair(r: &mut Rng, d: i32, bits: u32) -> (Q2, Q2) {
    for _ in 0..20 {
        let hb = (bits / 2).saturating_sub(1).max(1);
        let (a, b) = match r.below(12) {
            0 => (rand_q(r, bits), (BigInt::zero(), BigInt::zero())),
            1 => ((BigInt::zero(), BigInt::zero()), rand_q(r, bits)),
            2 | 3 => {
                let b = rand_q(r, hb);
                let c = rand_q(r, hb);
                (qmul(d, &b, &c), b) // exact multiple
            }
            4 | 5 => {
                // ties: a / b has half-integer coordinates
                let b1 = rand_q(r, hb.saturating_sub(1).max(1));
                let c = rand_q(r, hb.saturating_sub(1).max(1));
                let one = (BigInt::one(), BigInt::zero());
                if d == -1 && r.bool() {
                    let opi = (BigInt::one(), BigInt::one()); // 1 + i
                    let b = qmul(d, &opi, &b1);
                    let a = qmul(d, &b1, &qadd(&qmul(d, &c, &opi), &one));
                    (a, b)
                } else {
                    let two = (BigInt::from(2), BigInt::zero());
                    let b = qmul(d, &two, &b1);
                    let k = if r.bool() { one.clone() } else { (BigInt::zero(), BigInt::one()) };
                    let a = qmul(d, &b1, &qadd(&qmul(d, &c, &two), &k));
                    (a, b)
                }
            }
            6 => {
                // associates
                let a = rand_q(r, bits);
                let u = r.pick(&qunits(d)).clone();
                let b = qmul(d, &a, &u);
                (a, b)
            }
            7 | 8 => {
                // common factor
                let g = rand_q(r, (bits / 3).max(1));
                let x = rand_q(r, (bits - bits / 3).saturating_sub(2).max(1));
                let y = rand_q(r, (bits - bits / 3).saturating_sub(2).max(1));
                (qmul(d, &g, &x), qmul(d, &g, &y))
            }
            9 => {
                // multiple plus a small remainder
                let b = rand_q(r, hb);
                let c = rand_q(r, hb);
                let e = (BigInt::from(r.range(-3, 3)), BigInt::from(r.range(-3, 3)));
                (qadd(&qmul(d, &b, &c), &e), b)
            }
            _ => (rand_q(r, bits), rand_q(r, bits)),
        };
        if q_ok(&a, bits) && q_ok(&b, bits) {
            return (a, b);
        }
    }
    (rand_q(r, bits.saturating_sub(1).max(1)), rand_q(r, bits.saturating_sub(1).max(1)))
}
fn sq(u: &Q2) -> String {
    format!("{} {}", u.0, u.1)
}

/// a rational n d (d != 0) with |n|, |d| < 2^bits
fn rand_ratio(r: &mut Rng, bits: u32) -> (BigInt, BigInt) {
    let n = match r.below(6) {
        0 => BigInt::zero(),
        _ => rand_int(r, bits, true),
    };
    let mut d = match r.below(4) {
        0 => BigInt::one(),
        1 => BigInt::from(r.range(-6, 6)),
        _ => rand_int(r, bits, true),
    };
    if d.is_zero() {
        d = BigInt::one();
    }
    // keep away from -2^bits so that negating the denominator is always possible
    let lim = pow2(bits) - BigInt::one();
    let cl = |x: BigInt| if x.abs() > lim { if x.sign() == Sign::Minus { -lim.clone() } else { lim.clone() } } else { x };
    (cl(n), cl(d))
}
fn sr(x: &(BigInt, BigInt)) -> String {
    format!("{} {}", x.0, x.1)
}

/// integer-coefficient polynomials (printed in the coefficient type's operand format by `wrap`)
fn rand_ipoly(r: &mut Rng, maxdeg: usize, cmax: i64) -> Vec<BigInt> {
    let n = match r.below(8) {
        0 => 0,
        1 => 1,
        _ => 1 + r.below(maxdeg as u64 + 1) as usize,
    };
    let mut v: Vec<BigInt> = (0..n).map(|_| if r.chance(1, 4) { BigInt::zero() } else { BigInt::from(r.range(-cmax, cmax)) }).collect();
    if r.chance(3, 4) {
        if let Some(l) = v.last_mut() {
            if l.is_zero() {
                *l = BigInt::one();
            }
        }
    }
    v
}
fn ipoly_mul(a: &[BigInt], b: &[BigInt]) -> Vec<BigInt> {
    if a.is_empty() || b.is_empty() {
        return vec![];
    }
    let mut v = vec![BigInt::zero(); a.len() + b.len() - 1];
    for (i, x) in a.iter().enumerate() {
        for (j, y) in b.iter().enumerate() {
            v[i + j] += x * y;
        }
    }
    v
}
fn ipoly_add(a: &[BigInt], b: &[BigInt]) -> Vec<BigInt> {
    let n = a.len().max(b.len());
    (0..n).map(|i| a.get(i).cloned().unwrap_or_default() + b.get(i).cloned().unwrap_or_default()).collect()
}
fn ipoly_pair(r: &mut Rng, maxdeg: usize, cmax: i64) -> (Vec<BigInt>, Vec<BigInt>) {
    let h = (maxdeg / 2).max(1);
    match r.below(8) {
        0 => (rand_ipoly(r, maxdeg, cmax), vec![]),
        1 => (vec![], rand_ipoly(r, maxdeg, cmax)),
        2 => {
            let b = rand_ipoly(r, h, cmax);
            let c = rand_ipoly(r, h, cmax);
            (ipoly_mul(&b, &c), b)
        }
        3 | 4 => {
            let g = rand_ipoly(r, h, cmax);
            let x = rand_ipoly(r, h, cmax);
            let y = rand_ipoly(r, h, cmax);
            (ipoly_mul(&g, &x), ipoly_mul(&g, &y))
        }
        5 => {
            let b = rand_ipoly(r, h, cmax);
            let c = rand_ipoly(r, h, cmax);
            let e = rand_ipoly(r, 1, cmax);
            (ipoly_add(&ipoly_mul(&b, &c), &e), b)
        }
        _ => (rand_ipoly(r, maxdeg, cmax), rand_ipoly(r, maxdeg, cmax)),
    }
}

const BIN_OPS: [&str; 6] = ["div", "rem", "divides", "gcd", "gcdx", "lcm"];
const UN_OPS: [&str; 4] = ["is_unit", "inv", "nunit", "normalized"];

fn main() {
    quiet_panics();
    match parse_args() {
        Mode::Replay { file, out } => {
            let mut o = Out::new(&out);
            for l in read_lines(&file) {
                let res = run_case(&l);
                o.case(&l, &res);
            }
            o.finish();
        }
        Mode::Gen { seed, thorough, out } => {
            let mut o = Out::new(&out);
            let mut r = Rng::new(seed);
            let scale: usize = if thorough { 8 } else { 1 };
            let mut emit = |o: &mut Out, c: String| {
                let res = run_case(&c);
                o.case(&c, &res);
            };
            // every binary op on (a, b), every unary op on a and on b
            let all_ops = |o: &mut Out, emit: &mut dyn FnMut(&mut Out, String), ty: &str, a: &str, b: &str, dround: bool, bin: &[&str]| {
                for op in bin {
                    emit(o, format!("{ty} {op} {a} {b}"));
                }
                if dround {
                    emit(o, format!("{ty} div_round {a} {b}"));
                }
                for op in UN_OPS {
                    emit(o, format!("{ty} {op} {a}"));
                }
            };

            // ---- 0. fixed corpus: the witnesses of the two defects fixed in /repo, word boundaries ----
            let p53 = (1i64 << 53) + 1;
            for ty in ["i64", "i128", "big"] {
                emit(&mut o, format!("{ty} div_round {p53} 1"));
                emit(&mut o, format!("{ty} div_round {} 3", 3 * p53));
                emit(&mut o, format!("{ty} div_round {} 2", p53));
            }
            let t40 = BigInt::from(10).pow(40u32) + BigInt::one();
            emit(&mut o, format!("big div_round {} 3", &t40 * BigInt::from(3)));
            let t400 = BigInt::from(10).pow(400u32);
            emit(&mut o, format!("big div_round {} 7", &t400 * BigInt::from(7) + BigInt::from(3)));
            for ty in ["gi64", "gbig", "ei64", "ebig"] {
                emit(&mut o, format!("{ty} gcd 0 2 4 0"));
                emit(&mut o, format!("{ty} gcd 4 0 0 2"));
                emit(&mut o, format!("{ty} gcdx 0 2 4 0"));
                emit(&mut o, format!("{ty} gcdx 4 0 0 2"));
                emit(&mut o, format!("{ty} div 49 -58 7 9"));
                emit(&mut o, format!("{ty} rem 49 -58 7 9"));
            }
            emit(&mut o, "hq gcd 1 2 1 1 3 1".to_string());
            emit(&mut o, "hq gcd 1 3 1 1 2 1".to_string());
            emit(&mut o, "qbig gcd 2 3 5 1".to_string());
            for (ty, w) in [("i32", 32u32), ("i64", 64), ("i128", 128)] {
                let min = -pow2(w - 1);
                let max = pow2(w - 1) - BigInt::one();
                for a in [&min, &max, &(&min + BigInt::one())] {
                    for b in [BigInt::from(-1), BigInt::from(1), BigInt::from(0), BigInt::from(2), BigInt::from(-2), min.clone(), max.clone()] {
                        all_ops(&mut o, &mut emit, ty, &a.to_string(), &b.to_string(), true, &BIN_OPS);
                        all_ops(&mut o, &mut emit, ty, &b.to_string(), &a.to_string(), true, &BIN_OPS);
                    }
                }
            }
            // ---- 1. exhaustive small sweeps ----
            let s = if thorough { 12 } else { 7 };
            for a in -s..=s {
                for b in -s..=s {
                    for ty in ["i32", "i64", "big"] {
                        all_ops(&mut o, &mut emit, ty, &a.to_string(), &b.to_string(), true, &BIN_OPS);
                    }
                }
            }
            let s = if thorough { 4 } else { 2 };
            for a0 in -s..=s { for a1 in -s..=s { for b0 in -s..=s { for b1 in -s..=s {
                for ty in ["gi64", "ebig", "gbig", "ei64"] {
                    if !thorough && (ty == "gbig" || ty == "ei64") && (a0 + b1) % 2 != 0 { continue; }
                    all_ops(&mut o, &mut emit, ty, &format!("{a0} {a1}"), &format!("{b0} {b1}"), true, &BIN_OPS);
                }
            }}}}
            for p in [2i64, 3, 5, 7] {
                for a in -1..=p { for b in 0..p {
                    all_ops(&mut o, &mut emit, &format!("f{p}"), &a.to_string(), &b.to_string(), false, &BIN_OPS);
                }}
            }
            // ---- 2. integers ----
            for (ty, bits, n) in [("i32", 31u32, 250usize), ("i64", 63, 500), ("i128", 127, 300), ("big", 200, 250)] {
                for _ in 0..n * scale {
                    let (a, b) = int_pair(&mut r, bits);
                    all_ops(&mut o, &mut emit, ty, &a.to_string(), &b.to_string(), true, &BIN_OPS);
                }
            }
            // very large BigInt operands (10^300 and beyond): few, the model is slow there
            for _ in 0..(12 * scale) {
                let bits = *r.pick(&[600u32, 1000, 1100]);
                let (a, b) = int_pair(&mut r, bits);
                all_ops(&mut o, &mut emit, "big", &a.to_string(), &b.to_string(), true, &["div", "rem", "divides", "gcd", "lcm"]);
            }
            for _ in 0..(3 * scale) {
                let (a, b) = int_pair(&mut r, 700);
                emit(&mut o, format!("big gcdx {a} {b}"));
            }
            // ---- 3. Gaussian / Eisenstein integers ----
            // machine parts: coordinates below 2^(w/2-2) for the division operations (a*conj(b) and the norm
            // stay in range), below 2^20 (i64) / 2^40 (i128) for gcd, gcdx, lcm
            for (ty, d, divbits, gcdbits, n) in [
                ("gi64", -1, 30u32, 20u32, 300usize), ("ei64", -3, 30, 20, 300),
                ("gi128", -1, 62, 40, 100), ("ei128", -3, 62, 40, 100),
                ("gbig", -1, 100, 100, 150), ("ebig", -3, 100, 100, 150),
            ] {
                for _ in 0..n * scale {
                    let (a, b) = quad_pair(&mut r, d, divbits);
                    all_ops(&mut o, &mut emit, ty, &sq(&a), &sq(&b), true, &["div", "rem", "divides"]);
                    let (a, b) = quad_pair(&mut r, d, gcdbits);
                    all_ops(&mut o, &mut emit, ty, &sq(&a), &sq(&b), true, &["gcd", "gcdx", "lcm"]);
                }
            }
            // large common factor: a = g*u, b = g*v with |g| ~ 2^(w/2-6), small cofactors: every intermediate of the
            // algorithms (a*conj(b), the norms, x * (y / g)) stays below 2^(w-4), while a formula that multiplies before
            // dividing (x * y / g) leaves the word - an abort here is a regression, not an inherent limit of the width
            for (ty, d, gbits, n) in [("gi64", -1, 26u32, 60usize), ("ei64", -3, 26, 60), ("gi128", -1, 58, 30), ("ei128", -3, 58, 30),
                                      ("gbig", -1, 58, 20), ("ebig", -3, 58, 20)] {
                for _ in 0..n * scale {
                    let g = rand_q(&mut r, gbits);
                    let u = rand_q(&mut r, 2);
                    let v = rand_q(&mut r, 2);
                    let (a, b) = (qmul(d, &g, &u), qmul(d, &g, &v));
                    all_ops(&mut o, &mut emit, ty, &sq(&a), &sq(&b), true, &["gcd", "lcm", "divides"]);
                }
            }
            for (ty, d) in [("gbig", -1), ("ebig", -3)] {
                for _ in 0..(4 * scale) {
                    let (a, b) = quad_pair(&mut r, d, 500);
                    all_ops(&mut o, &mut emit, ty, &sq(&a), &sq(&b), true, &["div", "rem", "divides"]);
                }
                for _ in 0..(2 * scale) {
                    let (a, b) = quad_pair(&mut r, d, 300);
                    emit(&mut o, format!("{ty} gcd {} {}", sq(&a), sq(&b)));
                    emit(&mut o, format!("{ty} gcdx {} {}", sq(&a), sq(&b)));
                }
            }
            // ---- 4. fields ----
            for (ty, bits, n) in [("q64", 20u32, 200usize), ("qbig", 150, 150)] {
                for _ in 0..n * scale {
                    let a = rand_ratio(&mut r, bits);
                    let b = if r.chance(1, 8) { a.clone() } else { rand_ratio(&mut r, bits) };
                    all_ops(&mut o, &mut emit, ty, &sr(&a), &sr(&b), false, &BIN_OPS);
                }
            }
            for _ in 0..(150 * scale) {
                let a = r.range(-100000, 100000);
                let b = r.range(-100000, 100000);
                all_ops(&mut o, &mut emit, "f46337", &a.to_string(), &b.to_string(), false, &BIN_OPS);
                let p = *r.pick(&[3i64, 5, 7]);
                all_ops(&mut o, &mut emit, &format!("f{p}"), &r.range(-50, 50).to_string(), &r.range(-50, 50).to_string(), false, &BIN_OPS);
            }
            // ---- 5. polynomials over Q, F_3, F_5 and homogeneous polynomials ----
            for _ in 0..(150 * scale) {
                let (a, b) = ipoly_pair(&mut r, 6, 9);
                let wq = |v: &Vec<BigInt>, r: &mut Rng| {
                    let mut s = format!("{}", v.len());
                    for c in v {
                        // rational coefficients: sometimes a small denominator
                        let d = if r.chance(1, 5) { r.range(2, 5) } else { 1 };
                        s.push_str(&format!(" {} {}", c, d));
                    }
                    s
                };
                let wf = |v: &Vec<BigInt>| {
                    let mut s = format!("{}", v.len());
                    for c in v {
                        s.push_str(&format!(" {}", c));
                    }
                    s
                };
                // exact integer versions keep the structure (multiples, common factors)
                let (qa, qb) = if r.chance(1, 3) { (wq(&a, &mut r), wq(&b, &mut r)) } else {
                    let one = |v: &Vec<BigInt>| { let mut s = format!("{}", v.len()); for c in v { s.push_str(&format!(" {} 1", c)); } s };
                    (one(&a), one(&b))
                };
                all_ops(&mut o, &mut emit, "pq", &qa, &qb, false, &BIN_OPS);
                all_ops(&mut o, &mut emit, "pf3", &wf(&a), &wf(&b), false, &BIN_OPS);
                all_ops(&mut o, &mut emit, "pf5", &wf(&a), &wf(&b), false, &BIN_OPS);
            }
            for _ in 0..(100 * scale) {
                let (da, db) = (r.below(6), r.below(6));
                let ca = rand_ratio(&mut r, 8);
                let cb = rand_ratio(&mut r, 8);
                all_ops(&mut o, &mut emit, "hq", &format!("{da} {}", sr(&ca)), &format!("{db} {}", sr(&cb)), false, &BIN_OPS);
                all_ops(&mut o, &mut emit, "hf3", &format!("{da} {}", r.range(-3, 3)), &format!("{db} {}", r.range(-3, 3)), false, &BIN_OPS);
            }
            o.finish();
        }
    }
}
