//! C16 correspondence harness: Lc / PolyBase / monomial types / MultiDeg / HPoly vs the Coq model
//! (Model/Lc.v, Model/Mono.v, Model/Poly.v).  Case lines are the model driver's input
//! (ocaml/c16_driver.ml); result lines are what the real implementation returned, in exactly the
//! driver's output format ("P" for a panic, FORMS-DIFFER / ZERO-STORED / ... for violated API invariants).
#![allow(clippy::all)]
use num_bigint::BigInt;
use num_traits::{One, Pow, Zero};
use std::cmp::Ordering;
use std::fmt::Display;
use std::str::FromStr;
use yui::lc::*;
use yui::poly::*;
use yui::*;
use yui_verif_harness::*;

fn b01(x: bool) -> &'static str {
    if x { "1" } else { "0" }
}
fn ord_s(o: Ordering) -> &'static str {
    match o {
        Ordering::Less => "Lt",
        Ordering::Equal => "Eq",
        Ordering::Greater => "Gt",
    }
}
fn p_or(x: Option<String>) -> String {
    x.unwrap_or_else(|| "P".to_string())
}

// =====================================================================================
// coefficient rings
// =====================================================================================
trait Coef: Ring + FromStr
where
    for<'a> &'a Self: RingOps<Self>,
{
    fn cparse(s: &str) -> Self;
    fn cshow(&self) -> String;
    // eval needs &R: Pow<&usize>: only the integer rings
    fn eval1(_p: &Poly<'x', Self>, _x: &Self) -> Option<Self> {
        None
    }
    fn eval2(_p: &Poly2<'x', 'y', Self>, _x: &Self, _y: &Self) -> Option<Self> {
        None
    }
    fn eval3(_p: &Poly3<'x', 'y', 'z', Self>, _x: &Self, _y: &Self, _z: &Self) -> Option<Self> {
        None
    }
}

macro_rules! impl_coef_int {
    ($t:ty) => {
        impl Coef for $t {
            fn cparse(s: &str) -> Self {
                <$t>::from_str(s).unwrap()
            }
            fn cshow(&self) -> String {
                self.to_string()
            }
            fn eval1(p: &Poly<'x', Self>, x: &Self) -> Option<Self> {
                Some(p.eval(x))
            }
            fn eval2(p: &Poly2<'x', 'y', Self>, x: &Self, y: &Self) -> Option<Self> {
                Some(p.eval(x, y))
            }
            fn eval3(p: &Poly3<'x', 'y', 'z', Self>, x: &Self, y: &Self, z: &Self) -> Option<Self> {
                Some(p.eval(x, y, z))
            }
        }
        impl Coef for Ratio<$t> {
            fn cparse(s: &str) -> Self {
                let (n, d) = s.split_once('/').unwrap();
                Ratio::new(<$t>::from_str(n).unwrap(), <$t>::from_str(d).unwrap())
            }
            fn cshow(&self) -> String {
                format!("{}/{}", self.numer(), self.denom())
            }
        }
        impl Coef for GaussInt<$t> {
            fn cparse(s: &str) -> Self {
                let (a, b) = s.split_once(':').unwrap();
                GaussInt::<$t>::new(<$t>::from_str(a).unwrap(), <$t>::from_str(b).unwrap())
            }
            fn cshow(&self) -> String {
                format!("{}:{}", self.left(), self.right())
            }
        }
    };
}
impl_coef_int!(i64);
impl_coef_int!(BigInt);

impl Coef for FF<3> {
    fn cparse(s: &str) -> Self {
        FF::<3>::new(s.parse::<i32>().unwrap())
    }
    fn cshow(&self) -> String {
        self.rep().to_string()
    }
}

// =====================================================================================
// keys (monomials / free generators)
// =====================================================================================
trait Key: Sized + Clone + PartialEq {
    fn kparse(s: &str) -> Self;
    fn kshow(&self) -> String;
    /// MultiVar only: a stored zero exponent is visible through deg().iter()
    fn zero_exp(&self) -> bool {
        false
    }
}

fn parse_pairs<I: FromStr>(s: &str) -> Vec<(usize, I)>
where
    I::Err: std::fmt::Debug,
{
    if s == "-" {
        return vec![];
    }
    s.split(',')
        .map(|t| {
            let (i, d) = t.split_once('^').unwrap();
            (i.parse::<usize>().unwrap(), d.parse::<I>().unwrap())
        })
        .collect()
}
fn show_mdeg<I: Display>(d: &MultiDeg<I>) -> String {
    let v: Vec<String> = d.iter().map(|(i, e)| format!("{}^{}", i, e)).collect();
    if v.is_empty() { "-".to_string() } else { v.join(",") }
}
fn parse_list<I: FromStr>(s: &str, n: usize) -> Vec<I>
where
    I::Err: std::fmt::Debug,
{
    let v: Vec<I> = s.split(',').map(|x| x.parse::<I>().unwrap()).collect();
    assert!(v.len() == n);
    v
}

/// what PolyBase needs + hooks for the type-specific API
trait PKey: Mono + Key + FromStr {
    fn p_eval<R: Coef>(_p: &PolyBase<Self, R>, _pts: &[R]) -> Option<R>
    where
        for<'a> &'a R: RingOps<R>,
    {
        None
    }
    fn p_ltf<R: Coef>(_p: &PolyBase<Self, R>, _k: usize) -> Option<Option<(Self, R)>>
    where
        for<'a> &'a R: RingOps<R>,
    {
        None
    }
    fn total(&self) -> Option<String> {
        None
    }
    fn degfor(&self, _k: usize) -> Option<String> {
        None
    }
    /// Var only: the derived Ord agrees with cmp_lex
    fn ord_ok(_a: &Self, _b: &Self) -> bool {
        true
    }
    /// the six call forms of * and /
    fn m_mul(a: &Self, b: &Self) -> Vec<Option<Self>>;
    fn m_div(a: &Self, b: &Self) -> Vec<Option<Self>>;
}

/// the six call forms of a binary operator on two references
macro_rules! forms2 {
    ($a:expr, $b:expr, $op:tt, $opa:tt) => {{
        let (a, b) = ($a, $b);
        vec![
            guarded(|| a $op b),
            guarded(|| a.clone() $op b.clone()),
            guarded(|| a.clone() $op b),
            guarded(|| a $op b.clone()),
            guarded(|| { let mut t = a.clone(); t $opa b; t }),
            guarded(|| { let mut t = a.clone(); t $opa b.clone(); t }),
        ]
    }};
}
/// the call forms of the scalar product
macro_rules! forms_s {
    ($a:expr, $c:expr) => {{
        let (a, c) = ($a, $c);
        vec![
            guarded(|| a * c),
            guarded(|| a.clone() * c.clone()),
            guarded(|| a.clone() * c),
            guarded(|| a * c.clone()),
            guarded(|| { let mut t = a.clone(); t *= c; t }),
            guarded(|| { let mut t = a.clone(); t *= c.clone(); t }),
        ]
    }};
}
macro_rules! mforms {
    () => {
        fn m_mul(a: &Self, b: &Self) -> Vec<Option<Self>> {
            forms2!(a, b, *, *=)
        }
        fn m_div(a: &Self, b: &Self) -> Vec<Option<Self>> {
            forms2!(a, b, /, /=)
        }
    };
}

macro_rules! impl_keys {
    ($I:ty) => {
        impl Key for Var<'x', $I> {
            fn kparse(s: &str) -> Self {
                Var::from(s.parse::<$I>().unwrap())
            }
            fn kshow(&self) -> String {
                self.deg().to_string()
            }
        }
        impl Key for Var2<'x', 'y', $I> {
            fn kparse(s: &str) -> Self {
                let v = parse_list::<$I>(s, 2);
                Var2::from((v[0], v[1]))
            }
            fn kshow(&self) -> String {
                let (a, b) = self.deg();
                format!("{},{}", a, b)
            }
        }
        impl Key for Var3<'x', 'y', 'z', $I> {
            fn kparse(s: &str) -> Self {
                let v = parse_list::<$I>(s, 3);
                Var3::from((v[0], v[1], v[2]))
            }
            fn kshow(&self) -> String {
                let (a, b, c) = self.deg();
                format!("{},{},{}", a, b, c)
            }
        }
        impl Key for MultiVar<'x', $I> {
            fn kparse(s: &str) -> Self {
                MultiVar::from_iter(parse_pairs::<$I>(s))
            }
            fn kshow(&self) -> String {
                show_mdeg(&self.deg())
            }
            fn zero_exp(&self) -> bool {
                self.deg().iter().any(|(_, e)| e.is_zero())
            }
        }
    };
}
impl_keys!(usize);
impl_keys!(isize);

impl Key for Free<i64> {
    fn kparse(s: &str) -> Self {
        Free(s.parse::<i64>().unwrap())
    }
    fn kshow(&self) -> String {
        self.0.to_string()
    }
}

fn var_ord_ok<T: Ord + MonoOrd>(a: &T, b: &T) -> bool {
    Ord::cmp(a, b) == MonoOrd::cmp_lex(a, b) && a.partial_cmp(b) == Some(MonoOrd::cmp_lex(a, b))
}

impl PKey for Var<'x', usize> {
    fn p_eval<R: Coef>(p: &PolyBase<Self, R>, pts: &[R]) -> Option<R>
    where
        for<'a> &'a R: RingOps<R>,
    {
        assert!(pts.len() == 1);
        R::eval1(p, &pts[0])
    }
    fn ord_ok(a: &Self, b: &Self) -> bool {
        var_ord_ok(a, b)
    }
    mforms!();
}
impl PKey for Var<'x', isize> {
    fn ord_ok(a: &Self, b: &Self) -> bool {
        var_ord_ok(a, b)
    }
    mforms!();
}
impl PKey for Var2<'x', 'y', usize> {
    fn p_eval<R: Coef>(p: &PolyBase<Self, R>, pts: &[R]) -> Option<R>
    where
        for<'a> &'a R: RingOps<R>,
    {
        assert!(pts.len() == 2);
        R::eval2(p, &pts[0], &pts[1])
    }
    fn total(&self) -> Option<String> {
        Some(self.total_deg().to_string())
    }
    fn degfor(&self, k: usize) -> Option<String> {
        Some(self.deg_for(k).to_string())
    }
    mforms!();
}
impl PKey for Var2<'x', 'y', isize> {
    fn total(&self) -> Option<String> {
        Some(self.total_deg().to_string())
    }
    fn degfor(&self, k: usize) -> Option<String> {
        Some(self.deg_for(k).to_string())
    }
    mforms!();
}
impl PKey for Var3<'x', 'y', 'z', usize> {
    fn p_eval<R: Coef>(p: &PolyBase<Self, R>, pts: &[R]) -> Option<R>
    where
        for<'a> &'a R: RingOps<R>,
    {
        assert!(pts.len() == 3);
        R::eval3(p, &pts[0], &pts[1], &pts[2])
    }
    fn total(&self) -> Option<String> {
        Some(self.total_deg().to_string())
    }
    fn degfor(&self, k: usize) -> Option<String> {
        Some(self.deg_for(k).to_string())
    }
    mforms!();
}
impl PKey for Var3<'x', 'y', 'z', isize> {
    fn total(&self) -> Option<String> {
        Some(self.total_deg().to_string())
    }
    fn degfor(&self, k: usize) -> Option<String> {
        Some(self.deg_for(k).to_string())
    }
    mforms!();
}
macro_rules! impl_pkey_mvar {
    ($I:ty) => {
        impl PKey for MultiVar<'x', $I> {
            fn p_ltf<R: Coef>(p: &PolyBase<Self, R>, k: usize) -> Option<Option<(Self, R)>>
            where
                for<'a> &'a R: RingOps<R>,
            {
                Some(p.lead_term_for(k).map(|(x, r)| (x.clone(), r.clone())))
            }
            fn total(&self) -> Option<String> {
                Some(self.total_deg().to_string())
            }
            fn degfor(&self, k: usize) -> Option<String> {
                Some(self.deg_for(k).to_string())
            }
            mforms!();
        }
    };
}
impl_pkey_mvar!(usize);
impl_pkey_mvar!(isize);

// =====================================================================================
// agreement of call forms
// =====================================================================================
enum Oc<T> {
    Val(T),
    P,
    Differ,
}
/// all forms panicked -> P; otherwise all must have succeeded, be `==` (both ways) and print identically
fn agree<T: PartialEq>(fs: Vec<Option<T>>, show: &dyn Fn(&T) -> String) -> Oc<T> {
    if fs.iter().all(|f| f.is_none()) {
        return Oc::P;
    }
    if fs.iter().any(|f| f.is_none()) {
        return Oc::Differ;
    }
    let mut v: Vec<T> = fs.into_iter().map(|f| f.unwrap()).collect();
    let s0 = show(&v[0]);
    for w in &v[1..] {
        if !(v[0] == *w) || !(*w == v[0]) || (v[0] != *w) || show(w) != s0 {
            return Oc::Differ;
        }
    }
    Oc::Val(v.swap_remove(0))
}
fn agree_str<T: PartialEq>(fs: Vec<Option<T>>, show: &dyn Fn(&T) -> String) -> String {
    match guarded(|| agree(fs, show)) {
        None | Some(Oc::P) => "P".into(),
        Some(Oc::Differ) => "FORMS-DIFFER".into(),
        Some(Oc::Val(v)) => p_or(guarded(|| show(&v))),
    }
}

// =====================================================================================
// values of the register machine: PolyBase<X, R> and Lc<Free<i64>, R>
// =====================================================================================
trait Val: Sized + Clone + PartialEq {
    type X: Key;
    type C: Clone + PartialEq;
    fn cparse(s: &str) -> Self::C;
    fn cshow(c: &Self::C) -> String;
    fn c_is_zero(c: &Self::C) -> bool;
    fn v_zero() -> Self;
    fn v_from_terms(t: Vec<(Self::X, Self::C)>) -> Self;
    fn v_from_term(t: (Self::X, Self::C)) -> Self;
    fn v_add_assign(&mut self, o: Self);
    fn v_terms(&self) -> Vec<(Self::X, Self::C)>;
    fn v_nterms(&self) -> usize;
    fn v_is_zero(&self) -> bool;
    fn v_is_gen(&self) -> bool;
    fn v_as_gen(&self) -> Option<Self::X>;
    fn v_coeff(&self, x: &Self::X) -> Self::C;
    fn v_coeff_alt(&self, _x: &Self::X) -> Option<Self::C> {
        None
    }
    fn f_add(a: &Self, b: &Self) -> Vec<Option<Self>>;
    fn f_sub(a: &Self, b: &Self) -> Vec<Option<Self>>;
    fn f_neg(a: &Self) -> Vec<Option<Self>>;
    fn f_smul(a: &Self, c: &Self::C) -> Vec<Option<Self>>;
    fn f_lmul(a: &Self, b: &Self) -> Vec<Option<Self>>;
    /// single-term constructors: From<(X, R)> (any coefficient, zero included) and From<X>
    fn f_term(t: &(Self::X, Self::C)) -> Vec<Option<Self>>;
    fn f_gen(x: &Self::X) -> Vec<Option<Self>>;
    fn c_sub(a: &Self::C, b: &Self::C) -> Self::C;
    /// PolyBase only: from_const, FromStr
    fn f_const(_c: &Self::C) -> Vec<Option<Self>> {
        vec![None]
    }
    fn f_pstr(_s: &str) -> Vec<Option<Self>> {
        vec![None]
    }
    // not applicable -> a single None -> "P" (the generator never emits these)
    fn f_mul(_a: &Self, _b: &Self) -> Vec<Option<Self>> {
        vec![None]
    }
    fn f_pow(_a: &Self, _n: usize) -> Vec<Option<Self>> {
        vec![None]
    }
    /// Pow with a signed exponent (i32 / i64 / isize); a negative exponent goes through inv().unwrap()
    fn f_powz(_a: &Self, _n: i64) -> Vec<Option<Self>> {
        vec![None]
    }
    fn f_mapg(_a: &Self, _k: i64) -> Vec<Option<Self>> {
        vec![None]
    }
    fn f_filt(_a: &Self, _k: i64) -> Vec<Option<Self>> {
        vec![None]
    }
    fn f_appl(_a: &Self, _k: i64) -> Vec<Option<Self>> {
        vec![None]
    }
    fn v_extra(&self) -> String {
        String::new()
    }
    fn v_inv(&self) -> Option<Self> {
        panic!("n/a")
    }
    fn v_is_unit(&self) -> bool {
        panic!("n/a")
    }
    fn v_nunit(&self) -> Self {
        panic!("n/a")
    }
    fn v_ev(&self, _pts: &[Self::C]) -> Self::C {
        panic!("n/a")
    }
    fn v_ltf(&self, _k: usize) -> Option<(Self::X, Self::C)> {
        panic!("n/a")
    }
}

macro_rules! val_common {
    ($isgen:ident, $asgen:ident) => {
        type C = R;
        fn cparse(s: &str) -> R {
            R::cparse(s)
        }
        fn cshow(c: &R) -> String {
            c.cshow()
        }
        fn c_is_zero(c: &R) -> bool {
            c.is_zero()
        }
        fn v_zero() -> Self {
            <Self as Zero>::zero()
        }
        fn v_from_terms(t: Vec<(Self::X, R)>) -> Self {
            Self::from_iter(t)
        }
        fn v_from_term(t: (Self::X, R)) -> Self {
            Self::from(t)
        }
        fn v_add_assign(&mut self, o: Self) {
            *self += o
        }
        fn v_terms(&self) -> Vec<(Self::X, R)> {
            self.iter().map(|(x, r)| (x.clone(), r.clone())).collect()
        }
        fn v_nterms(&self) -> usize {
            self.nterms()
        }
        fn v_is_zero(&self) -> bool {
            Zero::is_zero(self)
        }
        fn v_is_gen(&self) -> bool {
            self.$isgen()
        }
        fn v_as_gen(&self) -> Option<Self::X> {
            self.$asgen()
        }
        fn v_coeff(&self, x: &Self::X) -> R {
            self.coeff(x).clone()
        }
        fn f_add(a: &Self, b: &Self) -> Vec<Option<Self>> {
            forms2!(a, b, +, +=)
        }
        fn f_sub(a: &Self, b: &Self) -> Vec<Option<Self>> {
            forms2!(a, b, -, -=)
        }
        fn f_neg(a: &Self) -> Vec<Option<Self>> {
            vec![guarded(|| -a), guarded(|| -a.clone())]
        }
        fn f_smul(a: &Self, c: &R) -> Vec<Option<Self>> {
            forms_s!(a, c)
        }
        fn f_gen(x: &Self::X) -> Vec<Option<Self>> {
            vec![
                guarded(|| Self::from(x.clone())),
                guarded(|| {
                    let v: Self = x.clone().into();
                    v
                }),
            ]
        }
        fn c_sub(a: &R, b: &R) -> R {
            a - b
        }
    };
}

impl<X: PKey, R: Coef> Val for PolyBase<X, R>
where
    for<'a> &'a R: RingOps<R>,
{
    type X = X;
    val_common!(is_mono, as_mono);

    fn v_coeff_alt(&self, x: &X) -> Option<R> {
        Some(self.coeff_for(x.deg()).clone())
    }
    fn f_term(t: &(X, R)) -> Vec<Option<Self>> {
        vec![
            guarded(|| Self::from(t.clone())),
            guarded(|| {
                let v: Self = t.clone().into();
                v
            }),
            guarded(|| PolyBase::from(Lc::from(t.clone()))),
        ]
    }
    fn f_const(c: &R) -> Vec<Option<Self>> {
        vec![guarded(|| Self::from_const(c.clone()))]
    }
    fn f_pstr(s: &str) -> Vec<Option<Self>> {
        // Err(()) is reported like a panic (the generator emits parsable strings only)
        vec![
            guarded(|| s.parse::<Self>().ok()).flatten(),
            guarded(|| <Self as FromStr>::from_str(s).ok()).flatten(),
        ]
    }
    fn f_mul(a: &Self, b: &Self) -> Vec<Option<Self>> {
        forms2!(a, b, *, *=)
    }
    fn f_lmul(a: &Self, b: &Self) -> Vec<Option<Self>> {
        let la: Lc<X, R> = Lc::from(a.clone());
        let lb: Lc<X, R> = Lc::from(b.clone());
        let (la, lb) = (&la, &lb);
        let mut v: Vec<Option<Lc<X, R>>> = forms2!(la, lb, *, *=);
        v.push(guarded(|| la.combine(lb, |x, y| x.clone() * y.clone())));
        v.into_iter().map(|o| o.and_then(|l| guarded(|| PolyBase::from(l)))).collect()
    }
    fn f_pow(a: &Self, n: usize) -> Vec<Option<Self>> {
        vec![
            guarded(|| Pow::pow(a, n)),
            guarded(|| Pow::pow(a, n as u32)),
            guarded(|| Pow::pow(a, n as u64)),
            guarded(|| Pow::pow(a, n as i32)),
            guarded(|| Pow::pow(a, n as i64)),
            guarded(|| Pow::pow(a, n as isize)),
        ]
    }
    fn f_powz(a: &Self, n: i64) -> Vec<Option<Self>> {
        vec![
            guarded(|| Pow::pow(a, n as i32)),
            guarded(|| Pow::pow(a, n)),
            guarded(|| Pow::pow(a, n as isize)),
        ]
    }
    fn v_extra(&self) -> String {
        let (x, r) = self.lead_term();
        format!(
            ";c={};o={};ct={};lt={}@{}",
            b01(self.is_const()),
            b01(One::is_one(self)),
            self.const_term().cshow(),
            x.kshow(),
            r.cshow()
        )
    }
    fn v_inv(&self) -> Option<Self> {
        <Self as Ring>::inv(self)
    }
    fn v_is_unit(&self) -> bool {
        <Self as Ring>::is_unit(self)
    }
    fn v_nunit(&self) -> Self {
        <Self as Ring>::normalizing_unit(self)
    }
    fn v_ev(&self, pts: &[R]) -> R {
        X::p_eval(self, pts).expect("n/a")
    }
    fn v_ltf(&self, k: usize) -> Option<(X, R)> {
        X::p_ltf(self, k).expect("n/a")
    }
}

impl<R: Coef> Val for Lc<Free<i64>, R>
where
    for<'a> &'a R: RingOps<R>,
{
    type X = Free<i64>;
    val_common!(is_gen, as_gen);

    fn f_lmul(a: &Self, b: &Self) -> Vec<Option<Self>> {
        vec![guarded(|| a.combine(b, |x, y| Free(x.0 + y.0)))]
    }
    fn f_term(t: &(Free<i64>, R)) -> Vec<Option<Self>> {
        vec![
            guarded(|| Self::from(t.clone())),
            guarded(|| {
                let v: Self = t.clone().into();
                v
            }),
        ]
    }
    fn f_mapg(a: &Self, k: i64) -> Vec<Option<Self>> {
        vec![
            guarded(|| a.map_gens(|x| Free(x.0.div_euclid(k)))),
            guarded(|| a.clone().into_map_gens(|x| Free(x.0.div_euclid(k)))),
        ]
    }
    fn f_filt(a: &Self, k: i64) -> Vec<Option<Self>> {
        vec![
            guarded(|| a.filter_gens(|x| x.0.rem_euclid(k) != 0)),
            guarded(|| a.clone().into_filter_gens(|x| x.0.rem_euclid(k) != 0)),
        ]
    }
    fn f_appl(a: &Self, k: i64) -> Vec<Option<Self>> {
        vec![guarded(|| {
            a.apply(|x| Lc::from_iter([(Free(x.0 + k), R::one()), (x.clone(), -R::one())]))
        })]
    }
}

// ---------- printing / invariants ----------
fn show_term<V: Val>(x: &V::X, r: &V::C) -> String {
    format!("{}@{}", x.kshow(), V::cshow(r))
}
fn show_poly<V: Val>(v: &V) -> String {
    let mut ts: Vec<String> = v.v_terms().iter().map(|(x, r)| show_term::<V>(x, r)).collect();
    if ts.is_empty() {
        return "0".into();
    }
    ts.sort();
    ts.join("+")
}
/// public-API invariants of a value
fn check<V: Val>(v: &V) -> Option<&'static str> {
    let ts = v.v_terms();
    if ts.iter().any(|(_, r)| V::c_is_zero(r)) {
        return Some("ZERO-STORED");
    }
    if v.v_nterms() != ts.len() {
        return Some("NTERMS-DIFFER");
    }
    if ts.iter().any(|(x, r)| v.v_coeff(x) != *r) {
        return Some("COEFF-DIFFER");
    }
    if !(*v == v.clone()) || (*v != v.clone()) {
        return Some("EQ-BROKEN");
    }
    if ts.iter().any(|(x, _)| x.zero_exp()) {
        return Some("ZERO-EXP-STORED");
    }
    None
}
fn observe<V: Val>(v: &V) -> String {
    match check(v) {
        Some(m) => m.to_string(),
        None => format!(
            "{}|n={};z={};g={}{}",
            show_poly(v),
            v.v_nterms(),
            b01(v.v_is_zero()),
            b01(v.v_is_gen()),
            v.v_extra()
        ),
    }
}
fn parse_terms<V: Val>(s: &str) -> Vec<(V::X, V::C)> {
    if s == "0" {
        return vec![];
    }
    s.split('+')
        .map(|t| {
            let (x, r) = t.split_once('@').unwrap();
            (V::X::kparse(x), V::cparse(r))
        })
        .collect()
}

fn op_arity(name: &str) -> usize {
    match name {
        "asmono" | "inv" | "unit" | "nunit" => 2,
        "set" | "neg" | "eq" | "coef" | "ev" | "ltf" | "term" | "gen" | "const" | "pstr" => 3,
        "dterm" => 5,
        "add" | "sub" | "mul" | "lmul" | "smul" | "pow" | "powz" | "mapg" | "filt" | "appl" => 4,
        _ => panic!("bad op {}", name),
    }
}

fn run_prog<V: Val>(t: &[&str]) -> String {
    let nregs: usize = t[0].parse().unwrap();
    let mut regs: Vec<V> = (0..nregs).map(|_| V::v_zero()).collect();
    let mut out: Vec<String> = vec![];
    let ix = |s: &str| -> usize { s.parse::<usize>().unwrap() };
    let mut k = 1;
    while k < t.len() {
        let name = t[k];
        let a = &t[k..k + op_arity(name)];
        k += a.len();
        match name {
            "set" | "add" | "sub" | "mul" | "lmul" | "neg" | "smul" | "pow" | "powz" | "mapg" | "filt" | "appl" | "term"
            | "gen" | "const" | "pstr" | "dterm" => {
                let d = ix(a[1]);
                let forms: Vec<Option<V>> = match name {
                    "set" => match guarded(|| parse_terms::<V>(a[2])) {
                        None => vec![None],
                        Some(terms) => vec![
                            guarded(|| V::v_from_terms(terms.clone())),
                            guarded(|| {
                                let mut w = V::v_zero();
                                for t in terms.clone() {
                                    w.v_add_assign(V::v_from_term(t));
                                }
                                w
                            }),
                        ],
                    },
                    // the single-term constructors: the value is used as returned (no += / collect in between)
                    "term" => match guarded(|| parse_terms::<V>(a[2])) {
                        Some(ts) if ts.len() == 1 => V::f_term(&ts[0]),
                        _ => vec![None],
                    },
                    "dterm" => match guarded(|| (V::X::kparse(a[2]), V::c_sub(&V::cparse(a[3]), &V::cparse(a[4])))) {
                        Some(t) => V::f_term(&t),
                        None => vec![None],
                    },
                    "gen" => match guarded(|| V::X::kparse(a[2])) {
                        Some(x) => V::f_gen(&x),
                        None => vec![None],
                    },
                    "const" => match guarded(|| V::cparse(a[2])) {
                        Some(c) => V::f_const(&c),
                        None => vec![None],
                    },
                    "pstr" => V::f_pstr(a[2]),
                    "add" => V::f_add(&regs[ix(a[2])], &regs[ix(a[3])]),
                    "sub" => V::f_sub(&regs[ix(a[2])], &regs[ix(a[3])]),
                    "mul" => V::f_mul(&regs[ix(a[2])], &regs[ix(a[3])]),
                    "lmul" => V::f_lmul(&regs[ix(a[2])], &regs[ix(a[3])]),
                    "neg" => V::f_neg(&regs[ix(a[2])]),
                    "smul" => match guarded(|| V::cparse(a[3])) {
                        None => vec![None],
                        Some(c) => V::f_smul(&regs[ix(a[2])], &c),
                    },
                    "pow" => V::f_pow(&regs[ix(a[2])], ix(a[3])),
                    "powz" => V::f_powz(&regs[ix(a[2])], a[3].parse().unwrap()),
                    "mapg" => V::f_mapg(&regs[ix(a[2])], a[3].parse().unwrap()),
                    "filt" => V::f_filt(&regs[ix(a[2])], a[3].parse().unwrap()),
                    "appl" => V::f_appl(&regs[ix(a[2])], a[3].parse().unwrap()),
                    _ => unreachable!(),
                };
                match guarded(|| agree(forms, &|v: &V| show_poly(v))) {
                    None | Some(Oc::P) => out.push("P".into()),
                    Some(Oc::Differ) => out.push("FORMS-DIFFER".into()),
                    Some(Oc::Val(v)) => {
                        out.push(p_or(guarded(|| observe(&v))));
                        regs[d] = v;
                    }
                }
            }
            "eq" => {
                let (x, y) = (&regs[ix(a[1])], &regs[ix(a[2])]);
                out.push(p_or(guarded(|| {
                    let (e1, e2, ne) = (x == y, y == x, x != y);
                    if e1 != e2 || ne == e1 {
                        "EQ-BROKEN".to_string()
                    } else {
                        format!("eq={}", b01(e1))
                    }
                })));
            }
            "coef" => {
                let p = &regs[ix(a[1])];
                out.push(p_or(guarded(|| {
                    let x = V::X::kparse(a[2]);
                    let c = p.v_coeff(&x);
                    match p.v_coeff_alt(&x) {
                        Some(c2) if c2 != c => "co=FORMS-DIFFER".to_string(),
                        _ => format!("co={}", V::cshow(&c)),
                    }
                })));
            }
            "asmono" => {
                let p = &regs[ix(a[1])];
                out.push(p_or(guarded(|| {
                    format!("am={}", p.v_as_gen().map(|x| x.kshow()).unwrap_or("N".into()))
                })));
            }
            "inv" => {
                let p = &regs[ix(a[1])];
                out.push(p_or(guarded(|| {
                    format!("inv={}", p.v_inv().map(|q| observe_plain(&q)).unwrap_or("N".into()))
                })));
            }
            "unit" => {
                let p = &regs[ix(a[1])];
                out.push(p_or(guarded(|| format!("unit={}", b01(p.v_is_unit())))));
            }
            "nunit" => {
                let p = &regs[ix(a[1])];
                out.push(p_or(guarded(|| format!("nu={}", observe_plain(&p.v_nunit())))));
            }
            "ev" => {
                let p = &regs[ix(a[1])];
                out.push(p_or(guarded(|| {
                    let pts: Vec<V::C> = a[2].split(',').map(|s| V::cparse(s)).collect();
                    format!("ev={}", V::cshow(&p.v_ev(&pts)))
                })));
            }
            "ltf" => {
                let p = &regs[ix(a[1])];
                out.push(p_or(guarded(|| {
                    format!(
                        "ltf={}",
                        p.v_ltf(ix(a[2])).map(|(x, r)| show_term::<V>(&x, &r)).unwrap_or("N".into())
                    )
                })));
            }
            _ => panic!("bad op"),
        }
    }
    out.join(" ")
}
/// a polynomial returned by an observer: its canonical string, or the invariant marker
fn observe_plain<V: Val>(v: &V) -> String {
    match check(v) {
        Some(m) => m.to_string(),
        None => show_poly(v),
    }
}

fn prog_ring<R: Coef>(m: &str, t: &[&str]) -> String
where
    for<'a> &'a R: RingOps<R>,
{
    match m {
        "u1" => run_prog::<Poly<'x', R>>(t),
        "i1" => run_prog::<LPoly<'x', R>>(t),
        "u2" => run_prog::<Poly2<'x', 'y', R>>(t),
        "i2" => run_prog::<LPoly2<'x', 'y', R>>(t),
        "u3" => run_prog::<Poly3<'x', 'y', 'z', R>>(t),
        "i3" => run_prog::<LPoly3<'x', 'y', 'z', R>>(t),
        "un" => run_prog::<PolyN<'x', R>>(t),
        "in" => run_prog::<LPolyN<'x', R>>(t),
        "fr" => run_prog::<Lc<Free<i64>, R>>(t),
        _ => panic!("bad mono type"),
    }
}

// =====================================================================================
// monomial cases
// =====================================================================================
fn mono_case<X: PKey>(t: &[&str]) -> String {
    let p = |s: &str| X::kparse(s);
    let show = |x: &X| x.kshow();
    match t[0] {
        "mk" => p(t[1]).kshow(),
        "mul" => agree_str(X::m_mul(&p(t[1]), &p(t[2])), &show),
        "div" => agree_str(X::m_div(&p(t[1]), &p(t[2])), &show),
        "cmp" => {
            let (a, b) = (p(t[1]), p(t[2]));
            let (l, g) = (MonoOrd::cmp_lex(&a, &b), MonoOrd::cmp_grlex(&a, &b));
            let ok = MonoOrd::cmp_lex(&b, &a) == l.reverse()
                && MonoOrd::cmp_grlex(&b, &a) == g.reverse()
                && X::ord_ok(&a, &b)
                && (a == b) == (b == a)
                && (a != b) != (a == b);
            if !ok {
                return "ORDER-INCONSISTENT".into();
            }
            format!("{},{},{}", ord_s(l), ord_s(g), b01(a == b))
        }
        "cmpmul" => {
            let (a, b, c) = (p(t[1]), p(t[2]), p(t[3]));
            let (ac, bc) = (a.clone() * c.clone(), b.clone() * c.clone());
            [
                MonoOrd::cmp_lex(&a, &b),
                MonoOrd::cmp_grlex(&a, &b),
                MonoOrd::cmp_lex(&ac, &bc),
                MonoOrd::cmp_grlex(&ac, &bc),
            ]
            .iter()
            .map(|o| ord_s(*o))
            .collect::<Vec<_>>()
            .join(",")
        }
        "unit" => b01(Mono::is_unit(&p(t[1]))).into(),
        "inv" => Mono::inv(&p(t[1])).map(|x| x.kshow()).unwrap_or("N".into()),
        "divides" => b01(Mono::divides(&p(t[1]), &p(t[2]))).into(),
        "isone" => b01(One::is_one(&p(t[1]))).into(),
        "total" => p(t[1]).total().expect("no total"),
        "degfor" => p(t[1]).degfor(t[2].parse().unwrap()).expect("no deg_for"),
        _ => panic!("bad mono case"),
    }
}

// =====================================================================================
// MultiDeg cases
// =====================================================================================
macro_rules! mdeg_case_fn {
    ($name:ident, $I:ty, $neg:expr) => {
        fn $name(t: &[&str]) -> String {
            type D = MultiDeg<$I>;
            let p = |s: &str| -> D { D::from_iter(parse_pairs::<$I>(s)) };
            let show = |d: &D| show_mdeg(d);
            let on = |x: Option<usize>| x.map(|i| i.to_string()).unwrap_or("N".into());
            match t[0] {
                "mk" => show(&p(t[1])),
                "arr" => {
                    let v: Vec<$I> =
                        if t[1] == "-" { vec![] } else { t[1].split(',').map(|x| x.parse().unwrap()).collect() };
                    let d = match v.len() {
                        0 => D::from([0 as $I; 0]),
                        1 => D::from([v[0]]),
                        2 => D::from([v[0], v[1]]),
                        3 => D::from([v[0], v[1], v[2]]),
                        4 => D::from([v[0], v[1], v[2], v[3]]),
                        5 => D::from([v[0], v[1], v[2], v[3], v[4]]),
                        _ => panic!("array too long"),
                    };
                    show(&d)
                }
                "add" => {
                    let (a, b) = (p(t[1]), p(t[2]));
                    agree_str(forms2!(&a, &b, +, +=), &show)
                }
                "sub" => {
                    let (a, b) = (p(t[1]), p(t[2]));
                    agree_str(forms2!(&a, &b, -, -=), &show)
                }
                "neg" => {
                    let a = p(t[1]);
                    let f: &dyn Fn(&D) -> D = &$neg;
                    show(&f(&a))
                }
                "total" => p(t[1]).total().to_string(),
                "at" => {
                    let a = p(t[1]);
                    a[t[2].parse::<usize>().unwrap()].to_string()
                }
                "minmax" => {
                    let a = p(t[1]);
                    format!("{},{},{},{}", on(a.min_index()), on(a.max_index()), a.ninds(), b01(Zero::is_zero(&a)))
                }
                "cmp" => {
                    let (a, b) = (p(t[1]), p(t[2]));
                    let (l, g) = (MonoOrd::cmp_lex(&a, &b), MonoOrd::cmp_grlex(&a, &b));
                    let ok = MonoOrd::cmp_lex(&b, &a) == l.reverse()
                        && MonoOrd::cmp_grlex(&b, &a) == g.reverse()
                        && (a == b) == (b == a)
                        && (a != b) != (a == b);
                    if !ok {
                        return "ORDER-INCONSISTENT".into();
                    }
                    format!("{},{},{}", ord_s(l), ord_s(g), b01(a == b))
                }
                "leq" => {
                    let (a, b) = (p(t[1]), p(t[2]));
                    let (x, y) = (a.all_leq(&b), b.all_leq(&a));
                    if a.all_geq(&b) != y || b.all_geq(&a) != x {
                        return "ORDER-INCONSISTENT".into();
                    }
                    format!("{},{}", b01(x), b01(y))
                }
                _ => panic!("bad mdeg case"),
            }
        }
    };
}
mdeg_case_fn!(mdeg_u, usize, |_a: &MultiDeg<usize>| -> MultiDeg<usize> { panic!("no neg for usize") });
mdeg_case_fn!(mdeg_i, isize, |a: &MultiDeg<isize>| -> MultiDeg<isize> { -a });

// =====================================================================================
// HPoly cases
// =====================================================================================
fn hp_case<R: Coef>(t: &[&str]) -> String
where
    for<'a> &'a R: RingOps<R>,
{
    let p = |s: &str| -> HPoly<'x', R> {
        let (d, c) = s.split_once('@').unwrap();
        HPoly::new(d.parse::<usize>().unwrap(), R::cparse(c))
    };
    let show = |h: &HPoly<'x', R>| format!("{}@{}", h.deg(), h.coeff().cshow());
    match t[0] {
        "add" => {
            let (a, b) = (p(t[1]), p(t[2]));
            agree_str(forms2!(&a, &b, +, +=), &show)
        }
        "sub" => {
            let (a, b) = (p(t[1]), p(t[2]));
            agree_str(forms2!(&a, &b, -, -=), &show)
        }
        "mul" => {
            let (a, b) = (p(t[1]), p(t[2]));
            agree_str(forms2!(&a, &b, *, *=), &show)
        }
        "neg" => {
            let a = p(t[1]);
            agree_str(vec![guarded(|| -&a), guarded(|| -a.clone())], &show)
        }
        "smul" => {
            let (a, c) = (p(t[1]), R::cparse(t[2]));
            agree_str(forms_s!(&a, &c), &show)
        }
        "eq" => {
            let (a, b) = (p(t[1]), p(t[2]));
            let (e1, e2, ne) = (a == b, b == a, a != b);
            if e1 != e2 || ne == e1 {
                return "EQ-BROKEN".into();
            }
            b01(e1).into()
        }
        "obs" => {
            let a = p(t[1]);
            format!("{},{}", b01(Zero::is_zero(&a)), b01(One::is_one(&a)))
        }
        _ => panic!("bad hp case"),
    }
}

// =====================================================================================
// dispatch
// =====================================================================================
macro_rules! with_ring {
    ($tag:expr, $f:ident, $($arg:expr),*) => {
        match $tag {
            "Zi" => $f::<i64>($($arg),*),
            "Zb" => $f::<BigInt>($($arg),*),
            "Qi" => $f::<Ratio<i64>>($($arg),*),
            "Qb" => $f::<Ratio<BigInt>>($($arg),*),
            "F3" => $f::<FF<3>>($($arg),*),
            "Gi" => $f::<GaussInt<i64>>($($arg),*),
            "Gb" => $f::<GaussInt<BigInt>>($($arg),*),
            _ => panic!("bad ring"),
        }
    };
}

fn run_case(line: &str) -> String {
    guarded(|| run_case_inner(line)).unwrap_or("TOP-PANIC".into())
}

fn run_case_inner(line: &str) -> String {
    let t: Vec<&str> = line.split_whitespace().collect();
    match t[0] {
        "prog" => with_ring!(t[1], prog_ring, t[2], &t[3..]),
        "mono" => {
            let r = &t[2..];
            // div may panic (usize underflow): the forms are guarded individually; everything else
            // is total in the model, a panic there shows up as TOP-PANIC
            match t[1] {
                "u1" => mono_case::<Var<'x', usize>>(r),
                "i1" => mono_case::<Var<'x', isize>>(r),
                "u2" => mono_case::<Var2<'x', 'y', usize>>(r),
                "i2" => mono_case::<Var2<'x', 'y', isize>>(r),
                "u3" => mono_case::<Var3<'x', 'y', 'z', usize>>(r),
                "i3" => mono_case::<Var3<'x', 'y', 'z', isize>>(r),
                "un" => mono_case::<MultiVar<'x', usize>>(r),
                "in" => mono_case::<MultiVar<'x', isize>>(r),
                _ => panic!("bad mono type"),
            }
        }
        "mdeg" => match t[1] {
            "u" => mdeg_u(&t[2..]),
            "i" => mdeg_i(&t[2..]),
            _ => panic!("bad mdeg type"),
        },
        "hp" => with_ring!(t[1], hp_case, &t[2..]),
        _ => panic!("bad case {}", line),
    }
}

// =====================================================================================
// generator (text only: it never calls the implementation)
// =====================================================================================
#[derive(Clone, Copy, PartialEq, Debug)]
enum RT {
    Zi,
    Zb,
    Qi,
    Qb,
    F3,
    Gi,
    Gb,
}
#[derive(Clone, Copy, PartialEq, Debug)]
enum MT {
    U1,
    I1,
    U2,
    I2,
    U3,
    I3,
    Un,
    In,
    Fr,
}
const RINGS: [RT; 7] = [RT::Zi, RT::Zb, RT::Qi, RT::Qb, RT::F3, RT::Gi, RT::Gb];
const MONOS: [MT; 9] = [MT::U1, MT::I1, MT::U2, MT::I2, MT::U3, MT::I3, MT::Un, MT::In, MT::Fr];
const NIDX: usize = 6; // MultiVar indices 0..5

impl RT {
    fn tag(self) -> &'static str {
        match self {
            RT::Zi => "Zi",
            RT::Zb => "Zb",
            RT::Qi => "Qi",
            RT::Qb => "Qb",
            RT::F3 => "F3",
            RT::Gi => "Gi",
            RT::Gb => "Gb",
        }
    }
    fn is_q(self) -> bool {
        matches!(self, RT::Qi | RT::Qb)
    }
    fn is_g(self) -> bool {
        matches!(self, RT::Gi | RT::Gb)
    }
    fn is_big(self) -> bool {
        matches!(self, RT::Zb | RT::Qb | RT::Gb)
    }
    fn has_units(self) -> bool {
        !self.is_g()
    }
    /// bound on log2 of the L1 norm of the (numerators of the) coefficients
    fn blim(self) -> u32 {
        match self {
            RT::Zi | RT::Gi => 55,
            RT::Qi => 45,
            RT::Zb | RT::Gb | RT::Qb => 300,
            RT::F3 => u32::MAX,
        }
    }
    /// bound on the bit length of the common denominator
    fn dlim(self) -> u32 {
        match self {
            RT::Qi => 28,
            RT::Qb => 100,
            _ => 1,
        }
    }
    fn prodlim(self) -> u64 {
        if self.is_q() { 600 } else { 2500 }
    }
}
impl MT {
    fn tag(self) -> &'static str {
        match self {
            MT::U1 => "u1",
            MT::I1 => "i1",
            MT::U2 => "u2",
            MT::I2 => "i2",
            MT::U3 => "u3",
            MT::I3 => "i3",
            MT::Un => "un",
            MT::In => "in",
            MT::Fr => "fr",
        }
    }
    fn signed(self) -> bool {
        matches!(self, MT::I1 | MT::I2 | MT::I3 | MT::In | MT::Fr)
    }
    fn is_poly(self) -> bool {
        self != MT::Fr
    }
    /// number of exponent slots of the dense generator-side representation
    fn slots(self) -> usize {
        match self {
            MT::U1 | MT::I1 | MT::Fr => 1,
            MT::U2 | MT::I2 => 2,
            MT::U3 | MT::I3 => 3,
            MT::Un | MT::In => NIDX,
        }
    }
    fn is_n(self) -> bool {
        matches!(self, MT::Un | MT::In)
    }
}

// ---------- integer / coefficient text ----------
fn neg_int(s: &str) -> String {
    if s == "0" {
        "0".into()
    } else if let Some(x) = s.strip_prefix('-') {
        x.into()
    } else {
        format!("-{}", s)
    }
}
/// the integer v as an element of the ring
fn c_int(rt: RT, v: i64) -> String {
    if rt.is_q() {
        format!("{}/1", v)
    } else if rt.is_g() {
        format!("{}:0", v)
    } else {
        v.to_string()
    }
}
fn c_neg(rt: RT, s: &str) -> String {
    if rt.is_q() {
        let (n, d) = s.split_once('/').unwrap();
        format!("{}/{}", neg_int(n), d)
    } else if rt.is_g() {
        let (a, b) = s.split_once(':').unwrap();
        format!("{}:{}", neg_int(a), neg_int(b))
    } else {
        neg_int(s)
    }
}
/// upper bound on the bit length of a decimal literal
fn dec_bits(s: &str) -> u32 {
    let t = s.trim_start_matches('-');
    if t.len() <= 18 {
        let v: u64 = t.parse().unwrap();
        64 - v.leading_zeros()
    } else {
        (t.len() as f64 * 3.3220).ceil() as u32 + 1
    }
}
/// (bits of the numerator's L1 norm, denominator)
fn c_meas(rt: RT, s: &str) -> (u32, u128) {
    match rt {
        RT::F3 => (0, 1),
        RT::Zi | RT::Zb => (dec_bits(s), 1),
        RT::Qi | RT::Qb => {
            let (n, d) = s.split_once('/').unwrap();
            (dec_bits(n), d.parse::<u128>().unwrap_or(u128::MAX))
        }
        RT::Gi | RT::Gb => {
            let (a, b) = s.split_once(':').unwrap();
            (dec_bits(a).max(dec_bits(b)) + 1, 1)
        }
    }
}
fn big_dec(r: &mut Rng, lo: u64, hi: u64) -> String {
    let n = lo + r.below(hi - lo + 1);
    let mut s = String::new();
    if r.bool() {
        s.push('-');
    }
    s.push((b'1' + r.below(9) as u8) as char);
    for _ in 1..n {
        s.push((b'0' + r.below(10) as u8) as char);
    }
    s
}
fn gen_int(r: &mut Rng, rt: RT) -> String {
    if rt.is_big() && r.chance(1, 6) {
        return big_dec(r, 19, 38);
    }
    if r.chance(1, 10) {
        return r.range(-(1 << 20), 1 << 20).to_string();
    }
    r.range(-9, 9).to_string()
}
fn gen_coef(r: &mut Rng, rt: RT) -> String {
    let special = r.below(10);
    match rt {
        RT::Zi | RT::Zb => match special {
            0 => "0".into(),
            1 => "1".into(),
            2 => "-1".into(),
            _ => gen_int(r, rt),
        },
        RT::F3 => match special {
            0 => (*r.pick(&[-6i64, -3, 0, 3, 6, 9])).to_string(),
            _ => r.range(-10, 10).to_string(),
        },
        RT::Qi => match special {
            0 => format!("0/{}", r.range(1, 4)),
            1 => {
                let d = r.range(1, 4);
                format!("{}/{}", d, d)
            }
            _ => format!("{}/{}", r.range(-6, 6), r.range(1, 4)),
        },
        RT::Qb => match special {
            0 => format!("0/{}", r.range(1, 1000)),
            1 | 2 | 3 | 4 => format!("{}/{}", r.range(-6, 6), r.range(1, 4)),
            _ => {
                let d = *r.pick(&[1u64, 2, 3, 4, 5, 6, 7, 12, 30, 1001, 65536, 999983]);
                format!("{}/{}", gen_int(r, rt), d)
            }
        },
        RT::Gi | RT::Gb => match special {
            0 => "0:0".into(),
            1 => "1:0".into(),
            2 => "0:1".into(),
            3 => format!("{}:0", r.range(-5, 5)),
            4 => format!("0:{}", r.range(-5, 5)),
            _ => {
                if rt == RT::Gb && r.chance(1, 5) {
                    format!("{}:{}", gen_int(r, rt), gen_int(r, rt))
                } else {
                    format!("{}:{}", r.range(-5, 5), r.range(-5, 5))
                }
            }
        },
    }
}
/// a small non-zero coefficient (templates)
fn small_coef(r: &mut Rng, rt: RT) -> String {
    let nz = |r: &mut Rng, m: i64| -> i64 {
        let v = r.range(1, m);
        if r.bool() { v } else { -v }
    };
    match rt {
        RT::Zi | RT::Zb => nz(r, 4).to_string(),
        RT::F3 => r.range(1, 2).to_string(),
        RT::Qi | RT::Qb => format!("{}/{}", nz(r, 4), r.range(1, 3)),
        RT::Gi | RT::Gb => {
            let (a, b) = (r.range(-3, 3), r.range(-3, 3));
            if a == 0 && b == 0 { "1:1".into() } else { format!("{}:{}", a, b) }
        }
    }
}

/// a coefficient that IS zero in the ring, in its different spellings (F_3: multiples of 3, Q: 0/k)
fn zeroish_coef(r: &mut Rng, rt: RT) -> String {
    match rt {
        RT::Zi | RT::Zb => "0".into(),
        RT::F3 => (*r.pick(&[0i64, 3, 6, -3, -6, 9])).to_string(),
        RT::Qi | RT::Qb => format!("0/{}", r.range(1, 5)),
        RT::Gi | RT::Gb => "0:0".into(),
    }
}
fn is_int_lit(s: &str) -> bool {
    let t = s.strip_prefix('-').unwrap_or(s);
    !t.is_empty() && t.bytes().all(|b| b.is_ascii_digit())
}
/// the integer literal `lit` as an element of the ring (what R::from_str returns on it)
fn c_of_lit(rt: RT, lit: &str) -> String {
    if rt.is_q() {
        format!("{}/1", lit)
    } else if rt.is_g() {
        format!("{}:0", lit)
    } else {
        lit.to_string()
    }
}
/// exponent of a one-variable monomial string "x", "x^d", "x^{d}" (the FromStr syntax of Var<'x', _>)
fn xvar_exp(s: &str) -> Option<i64> {
    if s == "x" {
        return Some(1);
    }
    let t = s.strip_prefix("x^")?;
    if let Some(u) = t.strip_prefix('{') {
        return u.strip_suffix('}')?.parse::<i64>().ok();
    }
    if t.len() == 1 { t.parse::<i64>().ok() } else { None }
}
/// a string for PolyBase::from_str: integer literals (zero in several spellings, ring-zero for F_3) and, for the
/// one-variable types, monomial strings
fn gen_pstr(r: &mut Rng, rt: RT, mt: MT, zero: bool) -> String {
    if zero {
        return match rt {
            RT::F3 => (*r.pick(&["0", "3", "6", "-3", "00", "-0", "9"])).to_string(),
            _ => (*r.pick(&["0", "0", "00", "-0"])).to_string(),
        };
    }
    if matches!(mt, MT::U1 | MT::I1) && r.chance(1, 3) {
        return match r.below(5) {
            0 => "x".into(),
            1 => format!("x^{}", r.below(10)),
            2 => format!("x^{{{}}}", r.below(30)),
            3 if mt == MT::I1 => format!("x^{{-{}}}", r.below(12)),
            _ => "x^{0}".into(),
        };
    }
    match r.below(6) {
        0 => "1".into(),
        1 => "-1".into(),
        2 if rt.is_big() => big_dec(r, 19, 30),
        _ => r.range(-12, 12).to_string(),
    }
}

// ---------- monomials (dense exponent vectors on the generator side) ----------
fn exp_range(mt: MT, small: bool) -> (i64, i64) {
    match (mt, small) {
        (MT::Fr, true) => (-3, 3),
        (MT::Fr, false) => (-20, 20),
        (m, true) if m.signed() => (-2, 2),
        (m, false) if m.signed() => (-8, 8),
        (_, true) => (0, 3),
        (_, false) => (0, 12),
    }
}
fn gen_mono_vec(r: &mut Rng, mt: MT, small: bool) -> Vec<i64> {
    let n = mt.slots();
    let (lo, hi) = exp_range(mt, small);
    let mut v = vec![0i64; n];
    if r.chance(1, 7) {
        return v; // the unit monomial
    }
    if mt.is_n() {
        let k = 1 + r.below(4) as usize;
        for _ in 0..k {
            let i = r.below(NIDX as u64) as usize;
            v[i] = r.range(lo, hi);
        }
    } else {
        for x in v.iter_mut() {
            *x = if r.chance(1, 4) { 0 } else { r.range(lo, hi) };
        }
    }
    v
}
/// text of a monomial; MultiVar keys are spelled with zero exponents, shuffled order and overridden
/// duplicates when `fancy` (from_iter drops zero exponents first, then a later duplicate wins)
fn spell(r: &mut Rng, mt: MT, v: &[i64], fancy: bool) -> String {
    if !mt.is_n() {
        return v.iter().map(|e| e.to_string()).collect::<Vec<_>>().join(",");
    }
    let mut ents: Vec<(usize, i64)> = v.iter().enumerate().filter(|(_, e)| **e != 0).map(|(i, e)| (i, *e)).collect();
    if fancy {
        // shuffle
        for i in (1..ents.len()).rev() {
            let j = r.below(i as u64 + 1) as usize;
            ents.swap(i, j);
        }
        if !ents.is_empty() && r.chance(1, 5) {
            // an overridden duplicate before the real entry
            let p = r.below(ents.len() as u64) as usize;
            let (lo, hi) = exp_range(mt, false);
            let mut e = r.range(lo, hi);
            if e == 0 {
                e = 1;
            }
            let q = r.below(p as u64 + 1) as usize;
            ents.insert(q, (ents[p].0, e));
        }
        while r.chance(1, 4) {
            // a zero exponent anywhere (also for an index that is present: it is filtered out first)
            let q = r.below(ents.len() as u64 + 1) as usize;
            ents.insert(q, (r.below(NIDX as u64) as usize, 0));
        }
    }
    if ents.is_empty() {
        return "-".into();
    }
    ents.iter().map(|(i, e)| format!("{}^{}", i, e)).collect::<Vec<_>>().join(",")
}
fn unit_mono(mt: MT) -> String {
    match mt.slots() {
        1 => "0".into(),
        2 => "0,0".into(),
        3 => "0,0,0".into(),
        _ => "-".into(),
    }
}
/// x_0^n (the first variable)
fn var_pow(mt: MT, n: i64) -> String {
    match mt.slots() {
        1 => format!("{}", n),
        2 => format!("{},0", n),
        3 => format!("{},0,0", n),
        _ => if n == 0 { "-".into() } else { format!("0^{}", n) },
    }
}

// ---------- polynomial literals ----------
fn gen_poly(r: &mut Rng, rt: RT, mt: MT, small: bool) -> String {
    // special shapes
    match r.below(24) {
        0 => return "0".into(),
        1 => return format!("{}@{}", unit_mono(mt), gen_coef(r, rt)), // a constant
        2 => {
            let v = gen_mono_vec(r, mt, small);
            return format!("{}@{}", spell(r, mt, &v, true), c_int(rt, 1)); // a monomial
        }
        3 => {
            let v = gen_mono_vec(r, mt, small);
            return format!("{}@{}", spell(r, mt, &v, true), c_int(rt, -1));
        }
        _ => {}
    }
    let nt = if small {
        1 + r.below(3) as usize
    } else {
        match r.below(100) {
            0..=9 => 1,
            10..=49 => 2 + r.below(3) as usize,
            50..=81 => 5 + r.below(6) as usize,
            _ => 11 + r.below(30) as usize,
        }
    };
    let npool = if nt <= 4 { nt } else { (nt * 3 / 4).max(1) };
    let pool: Vec<Vec<i64>> = (0..npool).map(|_| gen_mono_vec(r, mt, small && nt <= 3)).collect();
    let mut terms: Vec<(Vec<i64>, String)> = vec![];
    for i in 0..nt {
        let x = if i < npool { pool[i].clone() } else { r.pick(&pool).clone() };
        let c = if small { small_coef(r, rt) } else { gen_coef(r, rt) };
        terms.push((x, c));
    }
    if !small || r.chance(1, 6) {
        // repeated monomials whose coefficients cancel
        if r.chance(1, 4) {
            let (x, c) = r.pick(&terms).clone();
            let pos = r.below(terms.len() as u64 + 1) as usize;
            terms.insert(pos, (x, c_neg(rt, &c)));
        }
        if rt == RT::F3 && r.chance(1, 3) {
            let x = r.pick(&terms).0.clone();
            let parts: &[i64] = if r.bool() { &[1, 1, 1] } else { &[2, 1] };
            for p in parts {
                let pos = r.below(terms.len() as u64 + 1) as usize;
                terms.insert(pos, (x.clone(), p.to_string()));
            }
        }
    }
    terms.iter().map(|(x, c)| format!("{}@{}", spell(r, mt, x, true), c)).collect::<Vec<_>>().join("+")
}

// ---------- shadow: generator-side bounds of a register ----------
#[derive(Clone, Copy, Debug)]
struct Sh {
    t: u64,  // number of terms
    e: u64,  // absolute value of the exponents
    b: u32,  // log2 of the L1 norm of the numerators over the common denominator d
    d: u128, // common denominator (1 unless Q)
}
const SH_ZERO: Sh = Sh { t: 0, e: 0, b: 0, d: 1 };
const SH_ONE: Sh = Sh { t: 1, e: 0, b: 0, d: 1 };

fn bitlen(x: u128) -> u32 {
    128 - x.leading_zeros()
}
fn clog2(t: u64) -> u32 {
    if t <= 1 { 0 } else { 64 - (t - 1).leading_zeros() }
}
fn gcd128(a: u128, b: u128) -> u128 {
    if b == 0 { a } else { gcd128(b, a % b) }
}
fn lcm128(a: u128, b: u128) -> Option<u128> {
    (a / gcd128(a, b)).checked_mul(b)
}
fn mono_maxexp(s: &str) -> u64 {
    if s == "-" {
        return 0;
    }
    s.split(',')
        .map(|p| {
            let e = match p.split_once('^') {
                Some((_, e)) => e,
                None => p,
            };
            e.parse::<i64>().unwrap().unsigned_abs()
        })
        .max()
        .unwrap_or(0)
}
fn sh_poly(rt: RT, lit: &str) -> Option<Sh> {
    if lit == "0" {
        return Some(SH_ZERO);
    }
    let mut s = Sh { t: 0, e: 0, b: 0, d: 1 };
    let mut nb = 0u32;
    for term in lit.split('+') {
        let (x, c) = term.split_once('@').unwrap();
        let (b, d) = c_meas(rt, c);
        s.t += 1;
        s.e = s.e.max(mono_maxexp(x));
        nb = nb.max(b);
        s.d = lcm128(s.d, d)?;
    }
    // every numerator is scaled by at most d
    s.b = nb + clog2(s.t) + if s.d > 1 { bitlen(s.d) } else { 0 };
    if rt == RT::F3 {
        s.b = 0;
    }
    Some(s)
}
fn sh_add(rt: RT, a: Sh, b: Sh) -> Option<Sh> {
    if a.t == 0 {
        return Some(b);
    }
    if b.t == 0 {
        return Some(a);
    }
    let d = lcm128(a.d, b.d)?;
    let fb = |x: u128| if x <= 1 { 0 } else { bitlen(x) };
    let nb = (a.b + fb(d / a.d)).max(b.b + fb(d / b.d)) + 1;
    Some(Sh { t: a.t + b.t, e: a.e.max(b.e), b: if rt == RT::F3 { 0 } else { nb }, d })
}
fn sh_mul(rt: RT, a: Sh, b: Sh) -> Option<Sh> {
    if a.t == 0 || b.t == 0 {
        return Some(SH_ZERO);
    }
    if a.t * b.t > rt.prodlim() {
        return None;
    }
    Some(Sh { t: a.t * b.t, e: a.e + b.e, b: if rt == RT::F3 { 0 } else { a.b + b.b }, d: a.d.checked_mul(b.d)? })
}
fn sh_smul(rt: RT, a: Sh, c: &str) -> Option<Sh> {
    let (b, d) = c_meas(rt, c);
    Some(Sh { t: a.t, e: a.e, b: a.b + b, d: a.d.checked_mul(d)? })
}
fn sh_ok(rt: RT, mt: MT, s: &mut Sh) -> bool {
    // the number of distinct monomials with exponents bounded by e
    let per = if mt.signed() { 2 * s.e + 1 } else { s.e + 1 };
    let cap = match mt.slots() {
        1 => Some(per),
        2 => per.checked_mul(per),
        3 => per.checked_mul(per).and_then(|x| x.checked_mul(per)),
        _ => None,
    };
    if let Some(c) = cap {
        s.t = s.t.min(c);
    }
    s.t <= 64 && s.e <= 60 && s.b <= rt.blim() && bitlen(s.d) <= rt.dlim().max(1)
}

// ---------- program builder ----------
struct PB {
    rt: RT,
    mt: MT,
    sh: Vec<Sh>,
    line: String,
}
impl PB {
    fn new(rt: RT, mt: MT, nregs: usize) -> PB {
        PB { rt, mt, sh: vec![SH_ZERO; nregs], line: format!("prog {} {} {}", rt.tag(), mt.tag(), nregs) }
    }
    /// the shadow of the destination after a mutating op; None = does not fit / not applicable
    fn shadow_after(&self, a: &[&str]) -> Option<Sh> {
        let (rt, mt) = (self.rt, self.mt);
        let reg = |s: &str| -> Sh { self.sh[s.parse::<usize>().unwrap()] };
        let mut s = match a[0] {
            "set" => sh_poly(rt, a[2])?,
            "term" => sh_poly(rt, a[2])?,
            "dterm" => {
                let x = sh_poly(rt, &format!("{}@{}", a[2], a[3]))?;
                let y = sh_poly(rt, &format!("{}@{}", a[2], a[4]))?;
                Sh { t: 1, ..sh_add(rt, x, y)? }
            }
            "gen" => Sh { t: 1, e: mono_maxexp(a[2]), b: if rt == RT::F3 { 0 } else { 1 }, d: 1 },
            "const" if mt.is_poly() => sh_poly(rt, &format!("{}@{}", unit_mono(mt), a[2]))?,
            "pstr" if mt.is_poly() => {
                if is_int_lit(a[2]) {
                    sh_poly(rt, &format!("{}@{}", unit_mono(mt), c_of_lit(rt, a[2])))?
                } else {
                    let e = xvar_exp(a[2])?;
                    if !matches!(mt, MT::U1 | MT::I1) || (e < 0 && mt == MT::U1) {
                        return None;
                    }
                    Sh { t: 1, e: e.unsigned_abs(), b: if rt == RT::F3 { 0 } else { 1 }, d: 1 }
                }
            }
            "add" | "sub" => sh_add(rt, reg(a[2]), reg(a[3]))?,
            "neg" => reg(a[2]),
            "smul" => sh_smul(rt, reg(a[2]), a[3])?,
            "mul" if mt.is_poly() => sh_mul(rt, reg(a[2]), reg(a[3]))?,
            "lmul" => sh_mul(rt, reg(a[2]), reg(a[3]))?,
            "pow" if mt.is_poly() => {
                let n: usize = a[3].parse().unwrap();
                let mut s = SH_ONE;
                for _ in 0..n {
                    s = sh_mul(rt, s, reg(a[2]))?;
                    if !sh_ok(rt, mt, &mut s) {
                        return None;
                    }
                }
                s
            }
            "powz" if mt.is_poly() && rt.has_units() => {
                let n: i64 = a[3].parse().unwrap();
                let x = reg(a[2]);
                // n >= 0: as pow.  n < 0: the call succeeds only on a single term c*x^i with c a unit and
                // returns (c^-1 x^-i)^|n|; otherwise it panics and the destination keeps its value, so the
                // new shadow is the join of the old one and the would-be result.
                let base = if n >= 0 {
                    x
                } else {
                    let (b1, d1) = match rt {
                        RT::F3 => (0, 1),
                        RT::Zi | RT::Zb => (1, 1), // the units are 1, -1
                        _ => {
                            // c = p/q with |p| < 2^b and q | d:  c^-1 = q/p, |q| <= d, p divides lcm(1..2^b - 1)
                            if x.b > 4 {
                                return None;
                            }
                            let mut l: u128 = 1;
                            for k in 1..(1u128 << x.b) {
                                l = lcm128(l, k)?;
                            }
                            (bitlen(x.d), l)
                        }
                    };
                    Sh { t: 1, e: x.e, b: b1, d: d1 }
                };
                let mut s = SH_ONE;
                for _ in 0..n.unsigned_abs() {
                    s = sh_mul(rt, s, base)?;
                    if !sh_ok(rt, mt, &mut s) {
                        return None;
                    }
                }
                if n >= 0 {
                    s
                } else {
                    let old = reg(a[1]);
                    let d = lcm128(old.d, s.d)?;
                    let fb = |x: u128| if x <= 1 { 0 } else { bitlen(x) };
                    let nb = (old.b + fb(d / old.d)).max(s.b + fb(d / s.d));
                    Sh { t: old.t.max(s.t), e: old.e.max(s.e), b: if rt == RT::F3 { 0 } else { nb }, d }
                }
            }
            "mapg" | "filt" if mt == MT::Fr => {
                if a[3].parse::<i64>().unwrap() <= 0 {
                    return None;
                }
                let x = reg(a[2]);
                Sh { e: x.e + 1, ..x }
            }
            "appl" if mt == MT::Fr => {
                let x = reg(a[2]);
                Sh { t: 2 * x.t, e: x.e + a[3].parse::<i64>().unwrap().unsigned_abs(), b: x.b + 1, d: x.d }
            }
            _ => return None,
        };
        if sh_ok(rt, mt, &mut s) { Some(s) } else { None }
    }
    fn observer_ok(&self, a: &[&str]) -> bool {
        let (rt, mt) = (self.rt, self.mt);
        match a[0] {
            "eq" | "coef" | "asmono" => true,
            "inv" | "unit" | "nunit" => mt.is_poly() && rt.has_units(),
            "ltf" => mt.is_n(),
            "ev" => {
                if !matches!(rt, RT::Zi | RT::Zb) || !matches!(mt, MT::U1 | MT::U2 | MT::U3) {
                    return false;
                }
                let pts: Vec<&str> = a[2].split(',').collect();
                if pts.len() != mt.slots() {
                    return false;
                }
                let s = self.sh[a[1].parse::<usize>().unwrap()];
                let pb = pts.iter().map(|p| if matches!(*p, "0" | "1" | "-1") { 0 } else { dec_bits(p) }).max().unwrap();
                let total = s.b as u64 + pb as u64 * s.e * mt.slots() as u64;
                total <= if rt == RT::Zi { 60 } else { 1500 }
            }
            _ => false,
        }
    }
    /// validate one op group against the shadow; append it when it fits
    fn op(&mut self, text: &str) -> bool {
        let a: Vec<&str> = text.split_whitespace().collect();
        debug_assert!(a.len() == op_arity(a[0]));
        match a[0] {
            "eq" | "coef" | "asmono" | "inv" | "unit" | "nunit" | "ev" | "ltf" => {
                if !self.observer_ok(&a) {
                    return false;
                }
            }
            _ => match self.shadow_after(&a) {
                Some(s) => self.sh[a[1].parse::<usize>().unwrap()] = s,
                None => return false,
            },
        }
        self.line.push(' ');
        self.line.push_str(&a.join(" "));
        true
    }
}

fn rand_observer(r: &mut Rng, pb: &mut PB) {
    let n = pb.sh.len() as u64;
    let (rt, mt) = (pb.rt, pb.mt);
    let a = r.below(n);
    // applicable observers, the rarely applicable ones (ev, ltf) with a higher weight
    let mut kinds: Vec<&str> = vec!["eq", "eq", "coef", "coef", "asmono"];
    if mt.is_poly() && rt.has_units() {
        kinds.extend(["inv", "unit", "nunit"]);
    }
    if mt.is_n() {
        kinds.extend(["ltf", "ltf", "ltf"]);
    }
    if matches!(rt, RT::Zi | RT::Zb) && matches!(mt, MT::U1 | MT::U2 | MT::U3) {
        kinds.extend(["ev", "ev", "ev", "ev"]);
    }
    let text = match *r.pick(&kinds) {
        "eq" => format!("eq {} {}", a, r.below(n)),
        "coef" => {
            let v = gen_mono_vec(r, mt, true);
            format!("coef {} {}", a, spell(r, mt, &v, true))
        }
        "ev" => {
            let pts: Vec<String> = (0..mt.slots())
                .map(|_| if rt == RT::Zb && r.chance(1, 8) { big_dec(r, 5, 25) } else { r.range(-3, 3).to_string() })
                .collect();
            let t = format!("ev {} {}", a, pts.join(","));
            if pb.op(&t) {
                return;
            }
            // the bound does not allow these points: evaluate at a point of {0, 1, -1}^n
            let pts: Vec<String> = (0..mt.slots()).map(|_| r.range(-1, 1).to_string()).collect();
            format!("ev {} {}", a, pts.join(","))
        }
        "ltf" => format!("ltf {} {}", a, r.below(NIDX as u64 + 1)),
        k => format!("{} {}", k, a),
    };
    if !pb.op(&text) {
        pb.op(&format!("eq {} {}", a, r.below(n)));
    }
}

/// one of the single-term constructors into register d: From<(X, R)> (coefficient arbitrary, zero, or a
/// difference a - b), From<X>, from_const, FromStr
fn rand_single(r: &mut Rng, rt: RT, mt: MT, d: u64) -> String {
    let small = r.bool();
    let v = gen_mono_vec(r, mt, small);
    let x = spell(r, mt, &v, true);
    let coef = |r: &mut Rng| if r.chance(2, 5) { zeroish_coef(r, rt) } else { gen_coef(r, rt) };
    match r.below(if mt.is_poly() { 10 } else { 6 }) {
        0 | 1 | 2 => format!("term {} {}@{}", d, x, coef(r)),
        3 | 4 => {
            let a = gen_coef(r, rt);
            let b = if r.bool() { a.clone() } else { gen_coef(r, rt) };
            format!("dterm {} {} {} {}", d, x, a, b)
        }
        5 => format!("gen {} {}", d, x),
        6 | 7 => format!("const {} {}", d, coef(r)),
        _ => {
            let z = r.chance(1, 3);
            format!("pstr {} {}", d, gen_pstr(r, rt, mt, z))
        }
    }
}

fn rand_prog(r: &mut Rng, rt: RT, mt: MT) -> String {
    let nregs = 2 + r.below(4) as usize;
    let mut pb = PB::new(rt, mt, nregs);
    let n = nregs as u64;
    let maxops = if r.chance(1, 3) { 25 } else { 12 };
    let nops = 1 + r.below(maxops) as usize;
    // most registers are loaded first (the others stay zero)
    for d in 0..nregs {
        if r.chance(3, 4) {
            if r.chance(1, 6) {
                let t = rand_single(r, rt, mt, d as u64);
                if pb.op(&t) {
                    continue;
                }
            }
            let small = r.chance(1, 2);
            let p = gen_poly(r, rt, mt, small);
            if !pb.op(&format!("set {} {}", d, p)) {
                pb.op(&format!("set {} {}", d, gen_poly(r, rt, mt, true)));
            }
        }
    }
    for _ in 0..nops {
        let d = r.below(n);
        let a = r.below(n);
        let b = if r.chance(1, 3) { a } else { r.below(n) };
        let w = r.below(100);
        let text = if w < 14 {
            if r.chance(2, 5) {
                rand_single(r, rt, mt, d)
            } else {
                let small = r.bool();
                format!("set {} {}", d, gen_poly(r, rt, mt, small))
            }
        } else if w < 29 {
            format!("add {} {} {}", d, a, b)
        } else if w < 43 {
            format!("sub {} {} {}", d, a, b)
        } else if w < 50 {
            format!("neg {} {}", d, a)
        } else if w < 61 {
            let c = if r.chance(1, 3) { c_int(rt, r.range(-1, 1)) } else { gen_coef(r, rt) };
            format!("smul {} {} {}", d, a, c)
        } else if w < 70 {
            format!("lmul {} {} {}", d, a, b)
        } else if mt.is_poly() {
            if w < 90 {
                format!("mul {} {} {}", d, a, b)
            } else if rt.has_units() && r.chance(1, 3) {
                format!("powz {} {} {}", d, a, r.range(-3, 2))
            } else {
                format!("pow {} {} {}", d, a, r.below(5))
            }
        } else if w < 80 {
            format!("mapg {} {} {}", d, a, r.range(1, 4))
        } else if w < 90 {
            format!("filt {} {} {}", d, a, r.range(1, 4))
        } else {
            format!("appl {} {} {}", d, a, r.range(-3, 3))
        };
        if !pb.op(&text) {
            let p = gen_poly(r, rt, mt, true);
            if !pb.op(&format!("set {} {}", d, p)) {
                pb.op(&format!("set {} 0", d));
            }
        }
        if r.chance(1, 3) {
            rand_observer(r, &mut pb);
        }
    }
    pb.line
}

/// cancellation templates; register 5 is never written (the zero value)
const NTEMPLATES: u64 = 21;
fn template(r: &mut Rng, rt: RT, mt: MT, which: u64) -> Option<String> {
    let mut pb = PB::new(rt, mt, 6);
    let poly = mt.is_poly();
    let one = format!("{}@{}", unit_mono(mt), c_int(rt, 1));
    let a = gen_poly(r, rt, mt, true);
    let b = gen_poly(r, rt, mt, true);
    let c = gen_poly(r, rt, mt, true);
    macro_rules! op {
        ($($arg:tt)*) => { pb.op(&format!($($arg)*)) };
    }
    match which {
        0 => {
            // p - p
            op!("set 0 {}", if r.chance(1, 3) { gen_poly(r, rt, mt, false) } else { a });
            op!("sub 1 0 0");
            op!("eq 1 5");
            op!("add 2 0 1");
            op!("eq 2 0");
            op!("sub 0 0 0");
            op!("eq 0 5");
        }
        1 => {
            // p + (-p)
            op!("set 0 {}", if r.chance(1, 3) { gen_poly(r, rt, mt, false) } else { a });
            op!("neg 1 0");
            op!("add 2 0 1");
            op!("eq 2 5");
            op!("add 3 1 0");
            op!("eq 3 2");
            op!("neg 4 1");
            op!("eq 4 0");
        }
        2 if poly => {
            // p * 0, 0 * p
            op!("set 0 {}", a);
            op!("mul 1 0 5");
            op!("mul 2 5 0");
            op!("eq 1 2");
            op!("eq 1 5");
            op!("lmul 3 0 5");
            op!("eq 3 5");
            op!("lmul 3 5 0");
            op!("mul 4 5 5");
        }
        3 if poly => {
            // p * 1, 1 * p
            op!("set 0 {}", a);
            op!("set 1 {}", one);
            op!("mul 2 0 1");
            op!("mul 3 1 0");
            op!("eq 2 0");
            op!("eq 3 0");
            op!("lmul 4 0 1");
            op!("eq 4 0");
            op!("mul 4 1 1");
            op!("eq 4 1");
        }
        4 if poly => {
            // p * const, const * p
            let k = match r.below(5) {
                0 => c_int(rt, 0),
                1 => c_int(rt, 1),
                2 => c_int(rt, -1),
                _ => small_coef(r, rt),
            };
            op!("set 0 {}", a);
            op!("set 1 {}@{}", unit_mono(mt), k);
            op!("mul 2 0 1");
            op!("mul 3 1 0");
            op!("eq 2 3");
            op!("smul 4 0 {}", k);
            op!("eq 2 4");
            op!("lmul 4 1 0");
            op!("eq 4 3");
            op!("set 0 {}@{}", unit_mono(mt), small_coef(r, rt));
            op!("mul 2 0 1");
            op!("mul 3 1 0");
            op!("eq 2 3");
        }
        5 if poly => {
            // (a+b)(a-b) - a*a + b*b
            op!("set 0 {}", a);
            op!("set 1 {}", b);
            op!("add 2 0 1");
            op!("sub 3 0 1");
            op!("mul 2 2 3");
            op!("mul 3 0 0");
            op!("sub 2 2 3");
            op!("mul 3 1 1");
            op!("add 2 2 3");
            op!("eq 2 5");
        }
        6 if poly => {
            // a*b - b*a
            op!("set 0 {}", a);
            op!("set 1 {}", b);
            op!("mul 2 0 1");
            op!("mul 3 1 0");
            op!("eq 2 3");
            op!("sub 4 2 3");
            op!("eq 4 5");
        }
        7 if poly => {
            // (a*b)*c - a*(b*c)
            op!("set 0 {}", a);
            op!("set 1 {}", b);
            op!("set 2 {}", c);
            op!("mul 3 0 1");
            op!("mul 3 3 2");
            op!("mul 4 1 2");
            op!("mul 4 0 4");
            op!("eq 3 4");
            op!("sub 3 3 4");
            op!("eq 3 5");
        }
        8 if poly => {
            // a*(b+c) - a*b - a*c
            op!("set 0 {}", a);
            op!("set 1 {}", b);
            op!("set 2 {}", c);
            op!("add 3 1 2");
            op!("mul 3 0 3");
            op!("mul 4 0 1");
            op!("sub 3 3 4");
            op!("mul 4 0 2");
            op!("sub 3 3 4");
            op!("eq 3 5");
        }
        9 if poly => {
            // (a+b)^2 - a^2 - 2ab - b^2
            op!("set 0 {}", a);
            op!("set 1 {}", b);
            op!("add 2 0 1");
            op!("pow 2 2 2");
            op!("pow 3 0 2");
            op!("sub 2 2 3");
            op!("mul 3 0 1");
            op!("smul 3 3 {}", c_int(rt, 2));
            op!("sub 2 2 3");
            op!("pow 3 1 2");
            op!("sub 2 2 3");
            op!("eq 2 5");
        }
        10 => {
            // mul vs lmul of the same operands (fr: commutativity of the Lc product)
            op!("set 0 {}", a);
            op!("set 1 {}", b);
            if poly {
                op!("mul 2 0 1");
                op!("lmul 3 0 1");
                op!("eq 2 3");
                op!("mul 2 0 0");
                op!("lmul 3 0 0");
                op!("eq 2 3");
            } else {
                op!("lmul 2 0 1");
                op!("lmul 3 1 0");
                op!("eq 2 3");
                op!("lmul 4 0 5");
                op!("eq 4 5");
            }
        }
        11 if rt == RT::F3 => {
            // characteristic 3: a+a+a, (a+b)^3 - a^3 - b^3
            op!("set 0 {}", a);
            op!("add 1 0 0");
            op!("add 1 1 0");
            op!("eq 1 5");
            op!("smul 1 0 3");
            op!("eq 1 5");
            if poly {
                op!("set 1 {}", b);
                op!("add 2 0 1");
                op!("pow 2 2 3");
                op!("pow 3 0 3");
                op!("sub 2 2 3");
                op!("pow 3 1 3");
                op!("sub 2 2 3");
                op!("eq 2 5");
            }
        }
        12 if poly => {
            // (x-1)(1+x+..+x^(n-1)) - x^n + 1
            let n = r.range(1, 6);
            let o1 = c_int(rt, 1);
            let m1 = c_int(rt, -1);
            op!("set 0 {}@{}+{}@{}", var_pow(mt, 1), o1, unit_mono(mt), m1);
            let geo: Vec<String> = (0..n).map(|i| format!("{}@{}", var_pow(mt, i), o1)).collect();
            op!("set 1 {}", geo.join("+"));
            op!("mul 2 0 1");
            op!("set 3 {}@{}+{}@{}", var_pow(mt, n), o1, unit_mono(mt), m1);
            op!("eq 2 3");
            op!("sub 2 2 3");
            op!("eq 2 5");
            op!("lmul 4 1 0");
            op!("eq 4 3");
        }
        13 if poly && mt.signed() => {
            // Laurent: x * x^-1 = 1, (x + x^-1)^2 - x^2 - x^-2 - 2
            let o1 = c_int(rt, 1);
            op!("set 0 {}@{}", var_pow(mt, 1), o1);
            op!("set 1 {}@{}", var_pow(mt, -1), o1);
            op!("mul 2 0 1");
            op!("set 3 {}", one);
            op!("eq 2 3");
            op!("inv 0");
            op!("unit 1");
            if rt.has_units() {
                // x^-2 = (x^-1)^2, (x + x^-1)^-1 panics
                op!("powz 4 0 -2");
                op!("pow 3 1 2");
                op!("eq 3 4");
                op!("add 2 0 1");
                op!("powz 4 2 -1");
            }
            op!("add 2 0 1");
            op!("pow 2 2 2");
            op!("set 3 {}@{}+{}@{}+{}@{}", var_pow(mt, 2), o1, var_pow(mt, -2), o1, unit_mono(mt), c_int(rt, 2));
            op!("sub 2 2 3");
            op!("eq 2 5");
        }
        14 if poly && rt.is_g() => {
            // (x+i)(x-i) - x^2 - 1
            op!("set 0 {}@1:0+{}@0:1", var_pow(mt, 1), unit_mono(mt));
            op!("set 1 {}@1:0+{}@0:-1", var_pow(mt, 1), unit_mono(mt));
            op!("mul 2 0 1");
            op!("set 3 {}@1:0+{}@1:0", var_pow(mt, 2), unit_mono(mt));
            op!("eq 2 3");
            op!("sub 2 2 3");
            op!("eq 2 5");
            op!("smul 4 0 0:1");
            op!("smul 4 4 0:1");
            op!("add 4 4 0");
            op!("eq 4 5");
        }
        15 => {
            // smul by 0, 1, -1 (Q: by c then by 1/c)
            op!("set 0 {}", if r.chance(1, 3) { gen_poly(r, rt, mt, false) } else { a });
            op!("smul 1 0 {}", c_int(rt, 0));
            op!("eq 1 5");
            op!("smul 2 0 {}", c_int(rt, 1));
            op!("eq 2 0");
            op!("smul 3 0 {}", c_int(rt, -1));
            op!("neg 4 0");
            op!("eq 3 4");
            if rt.is_q() {
                let (p, q) = (r.range(1, 5), r.range(1, 5));
                let neg = r.bool();
                op!("smul 1 0 {}{}/{}", if neg { "-" } else { "" }, p, q);
                op!("smul 1 1 {}{}/{}", if neg { "-" } else { "" }, q, p);
                op!("eq 1 0");
            }
        }
        16 if poly => {
            // pow 0 and pow 1
            op!("set 0 {}", a);
            op!("pow 1 0 0");
            op!("set 2 {}", one);
            op!("eq 1 2");
            op!("pow 3 0 1");
            op!("eq 3 0");
            op!("pow 4 5 0");
            op!("eq 4 2");
            op!("pow 4 5 2");
            op!("eq 4 5");
            op!("pow 4 2 4");
            op!("eq 4 2");
        }
        17 if !poly => {
            // map_gens with collisions that cancel, filter_gens, telescoping apply
            let m = 1 + r.below(4);
            let mut ts: Vec<String> = vec![];
            for _ in 0..m {
                let k = r.range(-5, 5);
                let co = small_coef(r, rt);
                ts.push(format!("{}@{}", 2 * k, co));
                ts.push(format!("{}@{}", 2 * k + 1, c_neg(rt, &co)));
            }
            let extra = r.chance(1, 3);
            if extra {
                ts.push(format!("{}@{}", r.range(-12, 12), small_coef(r, rt)));
            }
            op!("set 0 {}", ts.join("+"));
            op!("mapg 1 0 2");
            op!("eq 1 5");
            op!("filt 2 0 2");
            op!("filt 3 0 1");
            op!("eq 3 5");
            let n = r.range(1, 8);
            let s0 = r.range(-4, 4);
            let tel: Vec<String> = (0..n).map(|i| format!("{}@{}", s0 + i, c_int(rt, 1))).collect();
            op!("set 0 {}", tel.join("+"));
            op!("appl 1 0 1");
            op!("set 2 {}@{}+{}@{}", s0 + n, c_int(rt, 1), s0, c_int(rt, -1));
            op!("eq 1 2");
            op!("appl 3 0 0");
            op!("eq 3 5");
        }
        18 => {
            // single-term constructor From<(X, R)> with a coefficient that is zero in the ring; `* 1` keeps the
            // value as it is; r |-> r*x is additive; From<X> is From<(X, 1)>
            let small = r.bool();
            let v = gen_mono_vec(r, mt, small);
            let x = spell(r, mt, &v, true);
            op!("term 0 {}@{}", x, zeroish_coef(r, rt));
            op!("eq 0 5");
            op!("coef 0 {}", x);
            op!("asmono 0");
            op!("smul 1 0 {}", c_int(rt, 1));
            op!("eq 1 5");
            op!("neg 1 0");
            op!("eq 1 0");
            let k = if r.bool() { small_coef(r, rt) } else { gen_coef(r, rt) };
            op!("term 1 {}@{}", x, k);
            op!("term 2 {}@{}", x, c_neg(rt, &k));
            op!("add 3 1 2");
            op!("eq 3 0");
            op!("eq 3 5");
            op!("dterm 4 {} {} {}", x, k, k);
            op!("eq 4 5");
            op!("eq 4 0");
            op!("gen 2 {}", x);
            op!("term 3 {}@{}", x, c_int(rt, 1));
            op!("eq 2 3");
            op!("asmono 2");
            op!("sub 2 2 3");
            op!("eq 2 0");
            if poly {
                op!("mul 4 0 1");
                op!("eq 4 5");
                op!("mul 4 1 0");
                op!("eq 4 0");
            } else {
                op!("lmul 4 0 1");
                op!("eq 4 5");
            }
        }
        19 if poly => {
            // from_const: r |-> r is a ring homomorphism into the polynomials, from_const(0) == 0
            op!("const 0 {}", zeroish_coef(r, rt));
            op!("eq 0 5");
            op!("smul 1 0 {}", c_int(rt, 1));
            op!("eq 1 5");
            if rt.has_units() {
                op!("unit 0");
                op!("inv 0");
            }
            let k = if r.bool() { small_coef(r, rt) } else { gen_coef(r, rt) };
            op!("const 1 {}", k);
            op!("const 2 {}", c_neg(rt, &k));
            op!("add 3 1 2");
            op!("eq 3 0");
            op!("eq 3 5");
            op!("mul 3 0 1");
            op!("eq 3 5");
            op!("mul 3 1 0");
            op!("eq 3 0");
            op!("set 4 {}", a);
            op!("mul 3 4 0");
            op!("eq 3 5");
            op!("mul 3 0 4");
            op!("eq 3 0");
            op!("add 3 4 0");
            op!("eq 3 4");
            op!("sub 3 0 4");
            op!("pow 2 0 2");
            op!("eq 2 5");
            op!("pow 2 0 0");
            op!("dterm 2 {} {} {}", unit_mono(mt), k, k);
            op!("eq 2 0");
        }
        20 if poly => {
            // FromStr: "0" (and the other spellings of zero) is the zero polynomial; an integer literal is
            // from_const; a monomial string is From<X>
            let z = gen_pstr(r, rt, mt, true);
            op!("pstr 0 {}", z);
            op!("eq 0 5");
            op!("const 1 {}", c_of_lit(rt, &z));
            op!("eq 0 1");
            op!("smul 1 0 {}", c_int(rt, 1));
            op!("eq 1 5");
            let l = gen_pstr(r, rt, mt, false);
            op!("pstr 2 {}", l);
            if is_int_lit(&l) {
                op!("const 3 {}", c_of_lit(rt, &l));
                op!("eq 2 3");
                let nl = neg_int(&l);
                op!("pstr 4 {}", nl);
                op!("add 4 4 2");
                op!("eq 4 0");
                op!("eq 4 5");
            } else if let Some(e) = xvar_exp(&l) {
                op!("gen 3 {}", e);
                op!("eq 2 3");
                op!("asmono 2");
            }
            op!("set 3 {}", a);
            op!("mul 4 3 0");
            op!("eq 4 5");
            op!("add 4 3 0");
            op!("eq 4 3");
        }
        _ => return None,
    }
    for _ in 0..r.below(3) {
        rand_observer(r, &mut pb);
    }
    Some(pb.line)
}

// ---------- monomial / MultiDeg cases ----------
/// a monomial related to `a`: equal, one exponent changed, same total degree, unit, a divisor, unrelated
fn variant(r: &mut Rng, mt: MT, a: &[i64]) -> Vec<i64> {
    let n = a.len();
    let mut b = a.to_vec();
    match r.below(7) {
        0 => {}
        1 => {
            let i = r.below(n as u64) as usize;
            b[i] += if r.bool() { 1 } else { -1 };
            if !mt.signed() && b[i] < 0 {
                b[i] = 1;
            }
        }
        2 if n >= 2 => {
            // move one unit of degree from slot i to slot j
            let i = r.below(n as u64) as usize;
            let j = r.below(n as u64) as usize;
            if i != j && (mt.signed() || b[i] > 0) {
                b[i] -= 1;
                b[j] += 1;
            }
        }
        3 => b = vec![0; n],
        4 => {
            for x in b.iter_mut() {
                if *x > 0 {
                    *x = r.range(0, *x);
                } else if *x < 0 {
                    *x = r.range(*x, 0);
                }
            }
        }
        5 => {
            for x in b.iter_mut() {
                *x = -*x;
            }
            if !mt.signed() {
                b = a.to_vec();
                b.reverse();
            }
        }
        _ => {
            let small = r.bool();
            b = gen_mono_vec(r, mt, small)
        }
    }
    b
}
fn gen_mono_case(r: &mut Rng) -> String {
    let mt = MONOS[r.below(8) as usize];
    let small = r.bool();
    let a = gen_mono_vec(r, mt, small);
    let b = variant(r, mt, &a);
    let c = gen_mono_vec(r, mt, true);
    let sa = spell(r, mt, &a, true);
    let sb = spell(r, mt, &b, true);
    let sc = spell(r, mt, &c, true);
    let multi = mt.slots() > 1;
    let body = match r.below(if multi { 14 } else { 12 }) {
        0 => format!("mk {}", sa),
        1 | 2 => format!("mul {} {}", sa, sb),
        3 | 4 => format!("div {} {}", sa, sb),
        5 | 6 => format!("cmp {} {}", sa, sb),
        7 => format!("cmpmul {} {} {}", sa, sb, sc),
        8 => format!("unit {}", sb),
        9 => format!("inv {}", sb),
        10 => format!("divides {} {}", sb, sa),
        11 => format!("isone {}", sb),
        12 => format!("total {}", sa),
        _ => {
            let k = if mt.is_n() { r.below(NIDX as u64 + 2) } else { r.below(mt.slots() as u64) };
            format!("degfor {} {}", sa, k)
        }
    };
    format!("mono {} {}", mt.tag(), body)
}
fn gen_mdeg_case(r: &mut Rng) -> String {
    let signed = r.bool();
    let mt = if signed { MT::In } else { MT::Un };
    let small = r.bool();
    let a = gen_mono_vec(r, mt, small);
    let b = variant(r, mt, &a);
    let sa = spell(r, mt, &a, true);
    let sb = spell(r, mt, &b, true);
    let body = match r.below(if signed { 13 } else { 12 }) {
        0 => format!("mk {}", sa),
        1 => {
            let n = r.below(6) as usize;
            let (lo, hi) = exp_range(mt, r.bool());
            let v: Vec<String> =
                (0..n).map(|_| if r.chance(1, 3) { "0".to_string() } else { r.range(lo, hi).to_string() }).collect();
            format!("arr {}", if n == 0 { "-".to_string() } else { v.join(",") })
        }
        2 | 3 => {
            if signed && r.chance(1, 3) {
                // a + (-a)
                let na: Vec<i64> = a.iter().map(|x| -x).collect();
                format!("add {} {}", sa, spell(r, mt, &na, true))
            } else {
                format!("add {} {}", sa, sb)
            }
        }
        4 | 5 | 6 => format!("sub {} {}", sa, sb),
        7 => format!("total {}", sa),
        8 => format!("at {} {}", sa, r.below(NIDX as u64 + 2)),
        9 => format!("minmax {}", sb),
        10 => format!("cmp {} {}", sa, sb),
        11 => format!("leq {} {}", sa, sb),
        _ => format!("neg {}", sa),
    };
    format!("mdeg {} {}", if signed { "i" } else { "u" }, body)
}

// ---------- HPoly cases ----------
fn gen_hp_case(r: &mut Rng) -> String {
    let rt = *r.pick(&RINGS);
    let val = |r: &mut Rng, deg: u64| -> String {
        let c = match r.below(6) {
            0 => c_int(rt, 0),
            1 => c_int(rt, 1),
            _ => gen_coef(r, rt),
        };
        format!("{}@{}", deg, c)
    };
    let da = r.below(7);
    let db = if r.chance(3, 5) { da } else { r.below(7) };
    let a = val(r, da);
    let b = match r.below(6) {
        // the negative / for F3 a complement: sums reaching zero
        0 => {
            let (_, c) = a.split_once('@').unwrap();
            format!("{}@{}", db, c_neg(rt, c))
        }
        1 => a.clone(),
        _ => val(r, db),
    };
    let body = match r.below(10) {
        0 | 1 | 2 => format!("add {} {}", a, b),
        3 | 4 => format!("sub {} {}", a, b),
        5 => format!("neg {}", a),
        6 => {
            let c = match r.below(4) {
                0 => c_int(rt, 1),
                1 => c_int(rt, 0),
                _ => gen_coef(r, rt),
            };
            format!("smul {} {}", a, c)
        }
        7 => format!("mul {} {}", a, b),
        8 => format!("eq {} {}", a, b),
        _ => format!("obs {}", a),
    };
    format!("hp {} {}", rt.tag(), body)
}

// ---------- fixed corpus ----------
const CORPUS: &[&str] = &[
    "prog Zi u1 3 set 0 1@1+0@1 set 1 1@1+0@-1 mul 2 0 1 sub 2 2 2 pow 2 0 3 ev 2 2 eq 0 1 coef 2 2 inv 0 unit 0 nunit 1",
    "prog Qi in 2 set 0 0^1,2^-3@1/2+-@3/6+0^0@1/2 smul 1 0 2/1 mul 1 1 0 ltf 1 0 ltf 1 2",
    "prog Zi fr 2 set 0 5@2+7@3+8@-1 mapg 1 0 2 filt 1 0 5 appl 1 0 1 lmul 1 0 0",
    "prog Zi u1 2 set 0 1@3+2@0+1@-3 asmono 0 set 1 4@1 asmono 1 unit 1 inv 1 set 1 0@-1 unit 1 inv 1 nunit 1 eq 0 1",
    "prog Zb u2 3 set 0 1,0@12345678901234567890123+0,1@-1 mul 1 0 0 lmul 2 0 0 eq 1 2 ev 1 2,-3 neg 2 1 add 2 2 1 eq 2 0",
    "prog Zb i1 2 set 0 -1@1+1@1 pow 1 0 4 coef 1 0 coef 1 -4 unit 0 asmono 1 nunit 1",
    "prog Qi u1 3 set 0 0@2/4+1@-3/3+1@1/1 set 1 0@2/1 mul 2 0 1 inv 1 unit 0 nunit 0 smul 2 2 1/2 eq 2 0",
    "prog Qb i2 3 set 0 1,-1@123456789012345678901/7+0,0@0/5 set 1 -1,1@7/123456789012345678901 mul 2 0 1 asmono 2 inv 0 inv 2 sub 2 2 2",
    "prog F3 u1 3 set 0 1@1+1@1+1@1+0@2 add 1 0 0 add 1 1 0 eq 1 2 set 1 1@1+0@1 pow 2 1 3 inv 0 nunit 0 unit 0",
    "prog F3 u3 2 set 0 1,0,0@4+0,1,0@-1+0,0,1@3 pow 1 0 3 coef 1 3,0,0 coef 1 0,0,3 smul 1 1 2 smul 1 1 2 eq 1 0",
    "prog Gi u1 3 set 0 1@1:0+0@0:1 set 1 1@1:0+0@0:-1 mul 2 0 1 coef 2 1 coef 2 0 smul 2 2 0:1 asmono 2",
    "prog Gb i3 2 set 0 1,-1,0@12345678901234567890:1+0,0,0@0:0 mul 1 0 0 lmul 1 1 0 neg 1 1 sub 1 1 1 eq 1 0",
    "prog Zi un 3 set 0 0^1,1^0@2+1^0,0^1@-2+3^2@5 set 1 0^5,0^1@1+-@1 mul 2 0 1 ltf 2 0 ltf 2 3 ltf 2 4 asmono 0 coef 2 0^1,3^2 pow 2 1 3 ltf 2 0",
    "prog Zi in 2 set 0 0^-1@1 set 1 0^1@1 mul 1 0 1 asmono 1 inv 0 unit 0 ltf 0 0 ltf 1 0",
    "prog Zi i3 2 set 0 1,-1,0@1+-1,1,0@1+0,0,0@-2 pow 1 0 2 coef 1 0,0,0 nunit 1 sub 1 1 1",
    "prog Zi u3 2 set 0 1,2,3@2+0,0,0@-7 ev 0 2,1,-1 ev 0 0,0,0 mul 1 0 0 ev 1 1,1,1",
    "prog Zi i2 2 set 0 -1,-1@3 inv 0 unit 0 set 0 -1,-1@-1 inv 0 unit 0 nunit 0 asmono 0",
    "prog Zi u2 2 set 0 0 mul 1 0 0 pow 1 0 0 pow 1 0 1 asmono 1 inv 1 unit 1 nunit 0 eq 0 1 lmul 1 0 1",
    "prog Zi i1 3 set 0 2@-1 powz 1 0 -3 powz 2 0 2 mul 2 2 1 powz 2 0 0 set 0 2@-1+0@1 powz 1 0 -1 set 0 1@2 powz 1 0 -2 set 0 0 powz 1 0 -1",
    "prog Zi u1 2 set 0 0@-1 powz 1 0 -3 set 0 1@1 powz 1 0 -1 powz 1 0 3",
    "prog Qi i2 2 set 0 1,-2@-2/3 powz 1 0 -2 powz 1 1 -1 set 0 1,-2@-2/3+0,0@1/2 powz 1 0 -1",
    "prog F3 in 2 set 0 0^1,3^-2@2 powz 1 0 -3 mul 1 1 0 powz 1 0 -1 mul 1 1 0",
    "prog Qb un 2 set 0 -@5/7 powz 1 0 -2 set 0 2^1@5/7 powz 1 0 -2",
    "prog F3 fr 3 set 0 1@1+1@1+1@1+2@2 set 1 2@1 add 2 0 1 eq 2 0 sub 2 0 1 smul 2 2 3 lmul 2 0 1 mapg 2 0 2 filt 2 0 2 appl 2 0 0 asmono 1 coef 0 2",
    "prog Qi fr 2 set 0 -4@1/2+-3@-1/2+7@0/3 mapg 1 0 2 asmono 1 filt 1 0 3 appl 1 0 -2 neg 1 1 smul 1 1 -2/4",
    "prog Gi fr 2 set 0 0@1:1+1@-1:-1 mapg 1 0 2 eq 1 0 appl 1 0 1 lmul 1 1 0",
    "prog Zb fr 2 set 0 3@99999999999999999999999+3@-99999999999999999999999+4@1 asmono 0 lmul 1 0 0 asmono 1",
    "prog Qb un 2 set 0 2^3,2^0@5/10+2^3@-1/2+-@4/2 asmono 0 nunit 0 inv 0 unit 0",
    "prog Gb u1 2 set 0 2@0:1 mul 1 0 0 mul 1 1 1 asmono 1 coef 1 8",
    "prog Zi u1 4 const 0 0 eq 0 3 term 1 2@0 eq 1 3 dterm 2 2 5 5 eq 2 3 pstr 0 0 eq 0 3 gen 1 3 pstr 2 x^3 eq 1 2 const 0 4 const 1 -4 add 2 0 1 eq 2 3",
    "prog F3 i2 3 const 0 3 eq 0 2 term 1 1,-1@6 eq 1 2 smul 1 1 1 eq 1 2 pstr 0 6 eq 0 2 unit 0 inv 0 dterm 1 0,2 1 4 eq 1 2",
    "prog Qi fr 3 term 0 7@0/3 eq 0 2 gen 1 7 term 0 7@-1/1 add 0 0 1 eq 0 2 dterm 0 -1 1/2 2/4 eq 0 2 asmono 1",
    "prog Gb un 3 term 0 0^1,2^0@0:0 eq 0 2 const 1 0:0 eq 1 2 pstr 1 -0 eq 1 2 gen 1 3^2,1^1 asmono 1 pstr 0 12345678901234567890123 mul 0 0 1",
    "prog Zb i1 3 pstr 0 x^{-3} pstr 1 x^{3} mul 0 0 1 pstr 1 1 eq 0 1 pstr 1 x^{0} eq 0 1 pstr 1 00 eq 1 2 pstr 1 x eq 1 2",
    "mono u1 mk 5", "mono u1 mul 3 4", "mono u1 div 3 4", "mono u1 div 4 3", "mono i1 div 3 4", "mono i1 inv -3", "mono u1 inv 0",
    "mono u1 inv 2", "mono u1 cmp 2 3", "mono i1 cmp -2 -3", "mono u1 divides 2 3", "mono u1 divides 3 2", "mono i1 divides 3 2",
    "mono u2 mk 0,0", "mono u2 isone 0,0", "mono u2 isone 0,1", "mono u2 cmp 2,1 1,2", "mono u2 cmp 0,2 1,0", "mono i2 cmp 0,2 1,0",
    "mono u2 total 2,5", "mono u2 degfor 2,5 1", "mono i2 inv 1,-2", "mono i2 unit 1,-2", "mono u2 unit 1,0", "mono u2 div 1,2 3,4",
    "mono u3 cmp 1,2,3 1,3,2", "mono u3 cmpmul 1,0,0 0,1,1 0,0,2", "mono i3 total 1,-2,-3", "mono i3 degfor 1,-2,-3 2",
    "mono u3 div 3,3,3 1,2,3", "mono u3 div 3,3,3 1,2,4", "mono i3 mul 1,-1,0 -1,1,0", "mono i3 isone 0,0,0",
    "mono un mk 0^0,1^2,1^0,3^1,3^4", "mono un mk -", "mono un mk 2^0", "mono un mul 0^1,1^2 1^1,4^3", "mono un div 0^1,1^2 1^2",
    "mono un div 0^1,1^2 2^1", "mono in div 0^1,1^2 2^1", "mono in mul 0^1,1^-2 0^-1,1^2", "mono in isone 0^1,0^0",
    "mono un cmpmul 0^1,1^2 0^2 3^1", "mono un cmp 5^1 0^1", "mono in cmp 0^-1 1^-1", "mono in cmp 1^-1 -", "mono un divides 0^1 0^2,1^1",
    "mono un divides 0^1,2^1 0^2,1^1", "mono in divides 0^5 -", "mono un total 0^1,5^7", "mono un degfor 0^1,5^7 5", "mono un degfor 0^1,5^7 6",
    "mono in inv 0^1,5^-7", "mono un inv 0^1", "mono un inv -", "mono un unit 3^0", "mono in unit 3^1",
    "mdeg u mk 3^1,0^2,3^0", "mdeg u arr -", "mdeg u arr 0", "mdeg u arr 0,0,3,0,1", "mdeg i arr 1,0,-3", "mdeg u add 0^1 0^2,1^1",
    "mdeg i add 0^1,1^-2 0^-1,1^2", "mdeg u sub 0^1,1^2 1^2", "mdeg u sub 0^1,1^2 2^2", "mdeg u sub 0^1 0^1", "mdeg i sub - 0^1,4^-2",
    "mdeg i neg 0^1,4^-2", "mdeg i neg -", "mdeg u total 0^1,4^2", "mdeg i total 0^1,4^-1", "mdeg u at 0^1,4^2 4", "mdeg u at 0^1,4^2 3",
    "mdeg i minmax 3^1,1^-2", "mdeg u minmax -", "mdeg u cmp 0^1 1^1", "mdeg u cmp 1^2 0^1", "mdeg i cmp 0^-1,1^1 -", "mdeg u cmp - -",
    "mdeg u leq 0^1 0^1,1^1", "mdeg u leq 0^2 1^1", "mdeg i leq 0^-1 -", "mdeg i leq - 0^-1",
    "hp Zi add 2@3 2@-3", "hp Zi add 2@3 1@3", "hp Zi add 2@0 1@3", "hp Zi add 1@3 2@0", "hp Zi sub 2@0 1@3", "hp Zi sub 2@3 1@3",
    "hp Zi sub 2@3 2@3", "hp Zi mul 2@3 0@1", "hp Zi mul 2@3 1@1", "hp Zi mul 2@0 3@5", "hp Zi eq 2@0 5@0", "hp Zi eq 2@1 5@1", "hp Zi eq 2@1 2@1",
    "hp Zi obs 0@1", "hp Zi obs 1@1", "hp Zi obs 3@0", "hp Zi neg 3@0", "hp Zi smul 3@2 1", "hp Zi smul 3@2 0", "hp Zb mul 3@99999999999999999999 4@-99999999999999999999",
    "hp Qi add 1@1/2 1@2/4", "hp Qi add 1@1/2 1@-3/6", "hp Qi smul 2@2/3 3/2", "hp Qi obs 0@5/5", "hp Qb sub 0@1/3 0@1/3", "hp Qb mul 1@1/3 2@3/1",
    "hp F3 add 1@1 1@2", "hp F3 add 1@2 2@2", "hp F3 sub 1@1 1@4", "hp F3 mul 1@2 1@2", "hp F3 obs 0@4", "hp F3 eq 1@3 2@0", "hp F3 smul 1@2 2",
    "hp Gi add 1@1:1 1@-1:-1", "hp Gi mul 1@0:1 1@0:1", "hp Gi obs 0@1:0", "hp Gi obs 0@0:1", "hp Gb neg 2@1:-1", "hp Gb smul 2@1:-1 0:1", "hp Gi eq 1@0:0 2@0:0",
];

fn generate(r: &mut Rng, thorough: bool, emit: &mut dyn FnMut(String)) {
    let scale = if thorough { 10 } else { 1 };
    // 1. fixed corpus
    for c in CORPUS {
        emit(c.to_string());
    }
    // 2. every template once for every ring / key type
    for rt in RINGS {
        for mt in MONOS {
            for w in 0..NTEMPLATES {
                if let Some(c) = template(r, rt, mt, w) {
                    emit(c);
                }
            }
            emit(rand_prog(r, rt, mt));
        }
    }
    // 3. random programs and random template instances
    for _ in 0..3000 * scale {
        let rt = *r.pick(&RINGS);
        let mt = *r.pick(&MONOS);
        emit(rand_prog(r, rt, mt));
    }
    let mut n = 0;
    while n < 2500 * scale {
        let rt = *r.pick(&RINGS);
        let mt = *r.pick(&MONOS);
        let w = if mt == MT::Fr { *r.pick(&[0u64, 1, 10, 11, 15, 17, 17, 18]) } else { r.below(NTEMPLATES) };
        if let Some(c) = template(r, rt, mt, w) {
            emit(c);
            n += 1;
        }
    }
    // 4. monomials, MultiDeg, HPoly
    for _ in 0..15000 * scale {
        emit(gen_mono_case(r));
    }
    for _ in 0..10000 * scale {
        emit(gen_mdeg_case(r));
    }
    for _ in 0..3000 * scale {
        emit(gen_hp_case(r));
    }
}

fn main() {
    quiet_panics();
    match parse_args() {
        Mode::Replay { file, out } => {
            let mut o = Out::new(&out);
            for l in read_lines(&file) {
                let res = run_case(&l);
                o.case(&l, &res);
            }
            o.finish();
        }
        Mode::Gen { seed, thorough, out } => {
            let mut o = Out::new(&out);
            let mut r = Rng::new(seed);
            generate(&mut r, thorough, &mut |c: String| {
                let res = run_case(&c);
                o.case(&c, &res);
            });
            o.finish();
        }
    }
}
