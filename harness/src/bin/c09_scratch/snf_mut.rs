use core::panic;
use std::cmp::min;
macro_rules! debug { ($($t:tt)*) => {} }
macro_rules! trace { ($($t:tt)*) => {} }
pub fn mutant() -> u32 { static M: std::sync::OnceLock<u32> = std::sync::OnceLock::new(); *M.get_or_init(|| std::env::var("C09_MUT").ok().and_then(|s| s.parse().ok()).unwrap_or(0)) }
use yui::{EucRing, EucRingOps};
use yui_matrix::dense::*;
use yui_matrix::dense::lll::{LLLRing, LLLRingOps, lll_hnf_in_place};

pub type SnfFlags = [bool; 4];

pub fn snf<R>(target: &Mat<R>, flags: SnfFlags) -> SnfResult<R>
where R: EucRing, for<'a> &'a R: EucRingOps<R> {
    let copy = target.clone();
    snf_in_place(copy, flags)
}

pub fn snf_in_place<R>(target: Mat<R>, flags: SnfFlags) -> SnfResult<R>
where R: EucRing, for<'a> &'a R: EucRingOps<R> {
    debug!("start snf: {:?}, flags: {:?}.", target.shape(), flags);
    trace!("{}", target);

    let mut calc = SnfCalc::new(target, flags);

    calc.process();

    debug!("snf done.");
    trace!("{}", calc.target);

    calc.result()
}

#[derive(Debug)]
pub struct SnfResult<R>
where R: EucRing, for<'a> &'a R: EucRingOps<R> { 
    result: Mat<R>,
    p:    Option<Mat<R>>,
    pinv: Option<Mat<R>>,
    q:    Option<Mat<R>>,
    qinv: Option<Mat<R>>
}

impl<R> SnfResult<R>
where R: EucRing, for<'a> &'a R: EucRingOps<R> { 
    pub fn result(&self) -> &Mat<R> { 
        &self.result
    }

    pub fn p(&self) -> Option<&Mat<R>> {
        self.p.as_ref()
    }

    pub fn pinv(&self) -> Option<&Mat<R>> {
        self.pinv.as_ref()
    }

    pub fn q(&self) -> Option<&Mat<R>> {
        self.q.as_ref()
    }

    pub fn qinv(&self) -> Option<&Mat<R>> {
        self.qinv.as_ref()
    }

    pub fn trans(&self) -> [Option<&Mat<R>>; 4] {
        [self.p.as_ref(),
         self.pinv.as_ref(),
         self.q.as_ref(),
         self.qinv.as_ref()]
    }

    pub fn destruct(self) -> (Mat<R>, [Option<Mat<R>>; 4]) {
        (self.result, [self.p, self.pinv, self.q, self.qinv])
    }

    pub fn rank(&self) -> usize {
        let n = min(self.result.nrows(), self.result.ncols());
        for i in 0..n { 
            if self.result[(i, i)].is_zero() { 
                return i
            }
        }
        n
    }

    pub fn factors(&self) -> Vec<&R> { 
        let n = min(self.result.nrows(), self.result.ncols());
        (0..n).filter_map(|i| { 
            let a = &self.result[(i, i)];
            if !a.is_zero() { 
                Some(a)
            } else {
                None
            }
         }).collect()
    }
}

#[derive(Debug)]
pub struct SnfCalc<R>
where R: EucRing, for<'a> &'a R: EucRingOps<R> {
    target: Mat<R>,
    p:    Option<Mat<R>>,
    pinv: Option<Mat<R>>,
    q:    Option<Mat<R>>,
    qinv: Option<Mat<R>>
}

impl<R> SnfCalc<R>
where R: EucRing, for<'a> &'a R: EucRingOps<R> {
    pub fn new(target: Mat<R>, flags: SnfFlags) -> Self { 
        let id_opt = |size, flag| {
            if flag{ Some(Mat::id(size)) } else { None }
        };

        let (m, n) = target.shape();
        let p    = id_opt(m, flags[0]);
        let pinv = id_opt(m, flags[1]);
        let q    = id_opt(n, flags[2]);
        let qinv = id_opt(n, flags[3]);

        SnfCalc{ target, p, pinv, q, qinv }
    }

    pub fn result(self) -> SnfResult<R> {
        SnfResult { 
            result: self.target, 
            p: self.p,
            pinv: self.pinv,
            q: self.q,
            qinv: self.qinv
        }
    }

    pub fn process(&mut self) { 
        if self.target.is_zero() || (mutant() == 6 && self.target.nrows() > 0 && (0..self.target.ncols()).all(|j| self.target[(0, j)].is_zero())) { 
            return
        }
        
        self.preprocess();
        self.eliminate_all();
        self.diag_normalize();
    }

    fn preprocess(&mut self) {
        use num_bigint::BigInt;
        use yui::{GaussInt, EisenInt};        
        preprocess_lll_for!(self, 
            i64, i128, BigInt, 
            GaussInt<i64>, GaussInt<i128>, GaussInt<BigInt>, 
            EisenInt<i64>, EisenInt<i128>, EisenInt<BigInt>
        );
    }

    fn eliminate_all(&mut self) {
        let (m, n) = self.target.shape();
        let mut i = 0;

        for j in 0..n { 
            if i >= m { break }
            if self.eliminate_step(i, j) { 
                i += 1;
            }
        }
    }

    fn eliminate_step(&mut self, i: usize, j: usize) -> bool {
        // select pivot
        let Some(i_p) = self.select_pivot(i, j) else { 
            return false 
        };

        trace!("select-pivot: ({i_p}, {j})");

        // swap rows
        if i_p > i { 
            self.swap_rows(i, i_p);
        }

        // swap cols
        if j > i { 
            self.swap_cols(i, j);
        }

        // normalize pivot
        let u = self.target[(i, i)].normalizing_unit();
        if !u.is_one() { 
            self.mul_col(i, &u);
        }

        // eliminate row and col
        self.eliminate_at(i, i);

        true
    }

    fn row_nz(&self, i: usize) -> usize { 
        self.target.inner().row(i).iter().filter(|a| !a.is_zero()).count()
    }

    fn col_nz(&self, j: usize) -> usize { 
        self.target.inner().column(j).iter().filter(|a| !a.is_zero()).count()
    }

    fn swap_rows(&mut self, i: usize, j: usize) {
        self.target.swap_rows(i, j);
        if let Some(p) = self.p.as_mut() { 
            p.swap_rows(i, j) 
        }
        if let Some(pinv) = self.pinv.as_mut() { 
            pinv.swap_cols(i, j) 
        }

        trace!("swap-rows: ({i}, {j})\n{}", self.target);
    }

    fn swap_cols(&mut self, i: usize, j: usize) {
        self.target.swap_cols(i, j);
        if let Some(q) = self.q.as_mut() { 
            q.swap_cols(i, j) 
        }
        if let Some(qinv) = self.qinv.as_mut() { 
            if mutant() != 7 { qinv.swap_rows(i, j) }
        }

        trace!("swap-cols: ({i}, {j})\n{}", self.target);
    }

    fn mul_row(&mut self, i: usize, u: &R) {
        self.target.mul_row(i, u);
        if let Some(p) = self.p.as_mut() { 
            p.mul_row(i, u) 
        }
        
        if let Some(pinv) = self.pinv.as_mut() {
            let Some(uinv) = &u.inv() else { panic!("`u` is not invertible.") };
            pinv.mul_col(i, uinv) 
        }

        trace!("mul-row: {i} by {u})\n{}", self.target);
    }
    
    fn mul_col(&mut self, i: usize, u: &R) {
        self.target.mul_col(i, u);
        if let Some(q) = self.q.as_mut() { 
            q.mul_col(i, u) 
        }
        if let Some(qinv) = self.qinv.as_mut() {
            let Some(uinv) = &u.inv() else { panic!("`u` is not invertible.") };
            qinv.mul_row(i, uinv) 
        }

        trace!("mul-col: {i} by {u})\n{}", self.target);
    }

    // Multiply [a, b; c, d] from left, assuming det = 1.
    pub fn left_elementary(&mut self, comps: [&R; 4], i: usize, j: usize) { 
        let [a, b, c, d] = comps;
        debug_assert!((a * d - b * c).is_one());

        self.target.left_elementary(comps, i, j);
        if let Some(p) = self.p.as_mut() {
            p.left_elementary(comps, i, j) 
        } 
        if let Some(pinv) = self.pinv.as_mut() { 
            let inv_t = if mutant() == 2 { [d, &-b, &-c, a] } else { [d, &-c, &-b, a] };
            pinv.right_elementary(inv_t, i, j) 
        }

        trace!("left-elem: [{a}, {b}; {c}, {d}] for rows ({i}, {j})).\n{}", self.target);
    }

    // Multiply [a, c; b, d] from right, assuming det = 1. 
    pub fn right_elementary(&mut self, comps: [&R; 4], i: usize, j: usize) { 
        let [a, b, c, d] = comps;
        debug_assert!((a * d - b * c).is_one());
        
        self.target.right_elementary(comps, i, j);
        if let Some(q) = self.q.as_mut() { 
            q.right_elementary(comps, i, j) 
        } 
        if let Some(qinv) = self.qinv.as_mut() { 
            let inv_t = [d, &-c, &-b, a];
            qinv.left_elementary(inv_t, i, j) 
        }

        trace!("right-elem: [{a}, {b}; {c}, {d}] for cols ({i}, {j})).\n{}", self.target);
    }

    fn select_pivot(&self, below_i: usize, j: usize) -> Option<usize> { 
        // find row `i` below `below_i` with minimum nnz. 
        (below_i..self.target.nrows())
            .filter( |i| !self.target[(*i, j)].is_zero() )
            .map( |i| (i, self.row_nz(i)) )
            .min_by( |e1, e2| if mutant() == 4 { e1.1.cmp(&e2.1).then(std::cmp::Ordering::Greater) } else { e1.1.cmp(&e2.1) } )
            .map( |(i, _)| i )
    }

    fn eliminate_at(&mut self, i: usize, j: usize) {
        assert!(!self.target[(i, j)].is_zero());

        while self.row_nz(i) > 1 || self.col_nz(j) > 1 { 
            let modified = self.eliminate_col(i, j)
                         | self.eliminate_row(i, j);
            if !modified {
                panic!("Detect endless loop");
            }
        }
    }

    fn eliminate_row(&mut self, i: usize, j: usize) -> bool { 
        let mut modified = false;

        for j1 in 0..self.target.ncols() {
            if j == j1 || self.target[(i, j1)].is_zero() { continue }

            // d = sx + ty,
            // a = x/d,
            // b = y/d.
        
            // [x y][s -b] = [d 0]
            //      [t  a]   

            let x = &self.target[(i, j )];
            let y = &self.target[(i, j1)];

            let (d, s, t) = Self::gcdx(x, y);
            let (a, b) = (x / &d, y / &d);

            self.right_elementary(
                [&s, &t, &-b, &a], 
                j, j1
            );
            modified = true
        }

        modified
    }
    
    fn eliminate_col(&mut self, i: usize, j: usize) -> bool { 
        let mut modified = false;

        for i1 in 0..self.target.nrows() {
            if i == i1 || self.target[(i1, j)].is_zero() { continue }

            // d = sx + ty,
            // a = x/d,
            // b = y/d.
        
            // [ s t][x] < i  = [d]
            // [-b a][y] < i1   [0]

            let x = &self.target[(i , j)];
            let y = &self.target[(i1, j)];

            let (d, s, t) = Self::gcdx(x, y);
            let (a, b) = (x / &d, y / &d);

            self.left_elementary(
                [&s, &t, &-b, &a], 
                i, i1
            );
            modified = true
        }
        
        modified
    }
    
    fn diag_normalize(&mut self) {
        debug_assert!(self.target.is_diag());

        let n = min(self.target.nrows(), self.target.ncols());
        let r = (0..n).filter(|&i| 
            self.target[(i, i)].is_zero()
        ).next().unwrap_or(n);

        if r == 0 { 
            return
        }

        'outer: loop { 
            for i in 0..r-1 { 
                if !self.diag_normalize_step(i) { 
                    continue 'outer
                }
            }
            break
        }

        for i in 0..r { 
            let a = &self.target[(i, i)];
            let u = a.normalizing_unit();
            if !u.is_one() && mutant() != 3 {
                self.mul_row(i, &u);
            }
        }
    }

    fn diag_normalize_step(&mut self, i: usize) -> bool {
        let x = &self.target[(i, i)];
        let y = &self.target[(i + 1, i + 1)];

        assert!(!x.is_zero());
        assert!(!y.is_zero());

        if x.divides(y) { 
            return true
        }

        if y.divides(x) { 
            if mutant() == 5 { return true }
            self.swap_rows(i, i + 1);
            self.swap_cols(i, i + 1);
            return false
        }

        // perform gcd:
        //
        // sx + ty = d, a = x/d, b = y/d.
        //
        // [1   1 ][x   ][s  -b] = [d      ]
        // [-tb sa][   y][t   a]   [   xy/d]

        let (d, s, t) = Self::gcdx(x, y);
        let (a, b) = (x / &d, y / &d);
        let (tb, sa) = (&t * &b, &s * &a);

        self.left_elementary(
            [&R::one(), &R::one(), &-tb, &sa], 
            i, i + 1
        );
        self.right_elementary(
            [&s, &t, &-b, &a], 
            i, i + 1
        );

        false
    }

    fn gcdx(x: &R, y: &R) -> (R, R, R) { 
        let (d, s, t) = EucRing::gcdx(x, y);

        let a = x / &d;
        if let Some(ainv) = a.inv() { 
            if mutant() == 1 { return (d, a, R::zero()) }
            (d, ainv, R::zero())
        } else {
            (d, s, t)
        }
    }
}

impl<R> SnfCalc<R>
where R: LLLRing, for<'a> &'a R: LLLRingOps<R> {
    fn preprocess_lll(&mut self) {
        debug!("start lll-preprocess, type = {}", std::any::type_name::<R>());

        let flag = [self.p.is_some(), self.pinv.is_some()];
        
        let b = std::mem::take(&mut self.target);
        let (res, p, pinv) = lll_hnf_in_place(b, flag);

        self.target = res;
        self.p = p;
        self.pinv = pinv;

        debug!("preprocess done.");
        trace!("{}", self.target);
    }
}

macro_rules! preprocess_lll_expand {
    ($any:ident) => {};
    ($any:ident, $t:ty $(,$next:ty)*) => {{
        if let Some(_self) = $any.downcast_mut::<SnfCalc<$t>>() {
            _self.preprocess_lll()
        } else {
            preprocess_lll_expand!($any $(,$next)*);
        }
    }};
}

macro_rules! preprocess_lll_for {
    ($self:ident, $t:ty $(,$next:ty)*) => {{
        let any: &mut dyn std::any::Any = $self;
        preprocess_lll_expand!(any, $t, $($next),*);
    }};
}

use {preprocess_lll_for, preprocess_lll_expand};

