//! C10 correspondence harness: LLL and LLL-based Hermite normal form (yui-matrix/src/dense/lll.rs)
//! vs the Coq model (Model/Lll.v).
//!
//! case line (= the model driver's input, see ocaml/c10_driver.ml):
//!     <alg> <ring> <m> <n> <flags> <tag> e_1 e_2 ...
//!     alg = lll | hnf, ring = Z | G | E (two integers per entry for G, E), flags = 0|1 resp. 00..11,
//!     tag = <generator class>:<ind1|ind0|na>  (ind1: the rows are independent - full rank modulo
//!     the prime 1000000009 or by construction; only meaningful for lll)
//! result line:
//!     <main> # w=<i64>,<i128>
//!     main = T|P|Pinv (hnf) or B|P (lll) computed over BigInt ("P" = panic, "TIMEOUT" = no answer
//!     within the time limit, "FORMS-DIFFER" = the by-reference and the in-place entry points disagree);
//!     w = what the same input gives over i64 / i128: same | P (panic, i.e. overflow) | skip (entries
//!     do not fit) | DIFF (a different answer: reported as a violation by the check).
use num_bigint::BigInt;
use num_traits::{One, Signed, ToPrimitive, Zero};
use std::sync::mpsc;
use std::time::Duration;
use yui::{EisenInt, GaussInt};
use yui_matrix::dense::lll::{lll, lll_hnf, lll_hnf_in_place, lll_in_place, LLLRing, LLLRingOps};
use yui_matrix::dense::Mat;
use yui_matrix::MatTrait;
use yui_verif_harness::*;

type BB = (BigInt, BigInt);

// ---------------------------------------------------------------------------------------------
// conversion of entries
// ---------------------------------------------------------------------------------------------
trait Conv: Sized {
    fn from_big(a: &BigInt, b: &BigInt) -> Option<Self>;
    fn show(&self) -> String;
}
impl Conv for BigInt {
    fn from_big(a: &BigInt, _b: &BigInt) -> Option<Self> { Some(a.clone()) }
    fn show(&self) -> String { self.to_string() }
}
impl Conv for i64 {
    fn from_big(a: &BigInt, _b: &BigInt) -> Option<Self> { a.to_i64().filter(|x| x.abs() < (1i64 << 62)) }
    fn show(&self) -> String { self.to_string() }
}
impl Conv for i128 {
    fn from_big(a: &BigInt, _b: &BigInt) -> Option<Self> { a.to_i128().filter(|x| x.abs() < (1i128 << 126)) }
    fn show(&self) -> String { self.to_string() }
}
macro_rules! conv_quad {
    ($t:ident, $i:ty) => {
        impl Conv for $t<$i> {
            fn from_big(a: &BigInt, b: &BigInt) -> Option<Self> {
                let z = BigInt::zero();
                Some(<$t<$i>>::new(<$i as Conv>::from_big(a, &z)?, <$i as Conv>::from_big(b, &z)?))
            }
            fn show(&self) -> String { format!("{} {}", self.left().show(), self.right().show()) }
        }
    };
}
conv_quad!(GaussInt, BigInt);
conv_quad!(GaussInt, i64);
conv_quad!(GaussInt, i128);
conv_quad!(EisenInt, BigInt);
conv_quad!(EisenInt, i64);
conv_quad!(EisenInt, i128);

fn show_mat<R: Conv>(a: &Mat<R>, m: usize, n: usize) -> String {
    if a.shape() != (m, n) {
        return format!("!shape{:?}", a.shape());
    }
    if m * n == 0 {
        return ".".into();
    }
    let mut v = Vec::with_capacity(m * n);
    for i in 0..m {
        for j in 0..n {
            v.push(a[(i, j)].show());
        }
    }
    v.join(" ")
}
fn show_omat<R: Conv>(a: &Option<Mat<R>>, m: usize, n: usize) -> String {
    match a {
        None => "-".into(),
        Some(a) => show_mat(a, m, n),
    }
}

/// run the real code over the entry type R; None = the entries do not fit R
fn run_ring<R>(alg: &str, m: usize, n: usize, flags: &str, es: &[BB]) -> Option<String>
where
    R: LLLRing + Conv + Clone,
    for<'x> &'x R: LLLRingOps<R>,
{
    let mut data = Vec::with_capacity(es.len());
    for (a, b) in es {
        data.push(R::from_big(a, b)?);
    }
    let a: Mat<R> = Mat::from_data((m, n), data);
    let f: Vec<bool> = flags.chars().map(|c| c == '1').collect();
    let res = match alg {
        "hnf" => {
            let fl = [f[0], f[1]];
            let fmt = |r: (Mat<R>, Option<Mat<R>>, Option<Mat<R>>)| {
                if r.1.is_some() != fl[0] || r.2.is_some() != fl[1] {
                    return "FLAGS-IGNORED".to_string();
                }
                format!("{}|{}|{}", show_mat(&r.0, m, n), show_omat(&r.1, m, m), show_omat(&r.2, m, m))
            };
            let r1 = guarded(|| lll_hnf(&a, fl)).map(fmt).unwrap_or("P".into());
            let r2 = guarded(|| lll_hnf_in_place(a.clone(), fl)).map(fmt).unwrap_or("P".into());
            if r1 != r2 { "FORMS-DIFFER".into() } else { r1 }
        }
        "lll" => {
            let fl = f[0];
            let fmt = |r: (Mat<R>, Option<Mat<R>>)| {
                if r.1.is_some() != fl {
                    return "FLAGS-IGNORED".to_string();
                }
                format!("{}|{}", show_mat(&r.0, m, n), show_omat(&r.1, m, m))
            };
            let r1 = guarded(|| lll(&a, fl)).map(fmt).unwrap_or("P".into());
            let r2 = guarded(|| lll_in_place(a.clone(), fl)).map(fmt).unwrap_or("P".into());
            if r1 != r2 { "FORMS-DIFFER".into() } else { r1 }
        }
        _ => panic!("bad alg"),
    };
    Some(res)
}

/// run `f` on a fresh thread; None when it does not answer in time (the thread is abandoned)
fn with_timeout<T: Send + 'static>(ms: u64, f: impl FnOnce() -> T + Send + 'static) -> Option<T> {
    let (tx, rx) = mpsc::channel();
    std::thread::Builder::new()
        .stack_size(64 << 20)
        .spawn(move || {
            let r = guarded(f);
            let _ = tx.send(r);
        })
        .unwrap();
    match rx.recv_timeout(Duration::from_millis(ms)) {
        Ok(Some(r)) => Some(r),
        Ok(None) => panic!("harness panic outside the guarded calls"),
        Err(_) => None,
    }
}

struct Case {
    alg: String,
    ring: String,
    m: usize,
    n: usize,
    flags: String,
    es: Vec<BB>,
}

fn parse_case(line: &str) -> Case {
    let t: Vec<&str> = line.split_whitespace().collect();
    let ring = t[1].to_string();
    let vals: Vec<BigInt> = t[6..].iter().map(|s| s.parse::<BigInt>().unwrap()).collect();
    let es: Vec<BB> = if ring == "Z" {
        vals.into_iter().map(|a| (a, BigInt::zero())).collect()
    } else {
        vals.chunks(2).map(|c| (c[0].clone(), c[1].clone())).collect()
    };
    Case { alg: t[0].into(), ring, m: t[2].parse().unwrap(), n: t[3].parse().unwrap(), flags: t[4].into(), es }
}

static mut TIMEOUTS: usize = 0;

fn run_case(line: &str) -> String {
    let c = parse_case(line);
    assert!(c.es.len() == c.m * c.n);
    let (alg, ring, m, n, flags, es) = (c.alg, c.ring, c.m, c.n, c.flags, c.es);
    let budget = 20_000u64;
    if unsafe { TIMEOUTS } >= 10 {
        return "TIMEOUT-SKIPPED".into();
    }
    let r = with_timeout(budget, move || {
        let (big, w64, w128) = match ring.as_str() {
            "Z" => (
                run_ring::<BigInt>(&alg, m, n, &flags, &es),
                run_ring::<i64>(&alg, m, n, &flags, &es),
                run_ring::<i128>(&alg, m, n, &flags, &es),
            ),
            "G" => (
                run_ring::<GaussInt<BigInt>>(&alg, m, n, &flags, &es),
                run_ring::<GaussInt<i64>>(&alg, m, n, &flags, &es),
                run_ring::<GaussInt<i128>>(&alg, m, n, &flags, &es),
            ),
            "E" => (
                run_ring::<EisenInt<BigInt>>(&alg, m, n, &flags, &es),
                run_ring::<EisenInt<i64>>(&alg, m, n, &flags, &es),
                run_ring::<EisenInt<i128>>(&alg, m, n, &flags, &es),
            ),
            _ => panic!("bad ring"),
        };
        let big = big.unwrap();
        let st = |w: Option<String>| match w {
            None => "skip",
            Some(s) if s == big => "same",
            Some(s) if s == "P" => "P",
            Some(_) => "DIFF",
        };
        format!("{} # w={},{}", big, st(w64), st(w128))
    });
    match r {
        Some(s) => s,
        None => {
            unsafe { TIMEOUTS += 1 };
            "TIMEOUT".into()
        }
    }
}

// ---------------------------------------------------------------------------------------------
// generator side: own ring arithmetic on coordinate pairs (never calls the implementation)
// ---------------------------------------------------------------------------------------------
#[derive(Clone, Copy, PartialEq)]
enum Ring { Z, G, E }
impl Ring {
    fn name(self) -> &'static str { match self { Ring::Z => "Z", Ring::G => "G", Ring::E => "E" } }
}
fn rmul(r: Ring, x: &BB, y: &BB) -> BB {
    let (a, b) = x;
    let (c, d) = y;
    match r {
        Ring::Z => (a * c, BigInt::zero()),
        Ring::G => (a * c - b * d, a * d + b * c),
        Ring::E => (a * c - b * d, a * d + b * c + b * d),
    }
}
fn radd(x: &BB, y: &BB) -> BB { (&x.0 + &y.0, &x.1 + &y.1) }
fn rzero() -> BB { (BigInt::zero(), BigInt::zero()) }
fn rone() -> BB { (BigInt::one(), BigInt::zero()) }
fn small(a: i64, b: i64) -> BB { (BigInt::from(a), BigInt::from(b)) }
fn units(r: Ring) -> Vec<BB> {
    match r {
        Ring::Z => vec![small(1, 0), small(-1, 0)],
        Ring::G => vec![small(1, 0), small(-1, 0), small(0, 1), small(0, -1)],
        Ring::E => vec![small(1, 0), small(-1, 0), small(0, 1), small(0, -1), small(1, -1), small(-1, 1)],
    }
}
type M = Vec<Vec<BB>>;

fn mmul(r: Ring, x: &M, y: &M, p: usize) -> M {
    x.iter()
        .map(|row| {
            (0..p)
                .map(|j| {
                    let mut s = rzero();
                    for (k, a) in row.iter().enumerate() {
                        s = radd(&s, &rmul(r, a, &y[k][j]));
                    }
                    s
                })
                .collect()
        })
        .collect()
}

// ---- rank modulo a prime (sufficient test for independent rows) ----
const PR: u64 = 1_000_000_009; // = 1 mod 12
fn pw(mut b: u64, mut e: u64) -> u64 {
    let mut r = 1u64;
    b %= PR;
    while e > 0 {
        if e & 1 == 1 { r = (r as u128 * b as u128 % PR as u128) as u64; }
        b = (b as u128 * b as u128 % PR as u128) as u64;
        e >>= 1;
    }
    r
}
fn root_of(r: Ring) -> u64 {
    // image of w: w^2 = -1 (G) resp. w^2 - w + 1 = 0 (E)
    for g in 2..200u64 {
        match r {
            Ring::G => {
                let x = pw(g, (PR - 1) / 4);
                if (x as u128 * x as u128 % PR as u128) as u64 == PR - 1 { return x; }
            }
            Ring::E => {
                let x = pw(g, (PR - 1) / 6);
                let v = ((x as u128 * x as u128 + 1 + (PR - x) as u128) % PR as u128) as u64;
                if v == 0 { return x; }
            }
            Ring::Z => return 0,
        }
    }
    panic!("no root")
}
fn rank_mod_p(r: Ring, a: &M, n: usize) -> usize {
    let w = root_of(r);
    let red = |x: &BigInt| -> u64 {
        let p = BigInt::from(PR);
        let v = ((x % &p) + &p) % &p;
        v.to_u64().unwrap()
    };
    let mut t: Vec<Vec<u64>> = a
        .iter()
        .map(|row| row.iter().map(|(x, y)| ((red(x) as u128 + red(y) as u128 * w as u128) % PR as u128) as u64).collect())
        .collect();
    let m = t.len();
    let mut rank = 0;
    for j in 0..n {
        if rank == m { break; }
        let Some(pi) = (rank..m).find(|&i| t[i][j] != 0) else { continue };
        t.swap(rank, pi);
        let inv = pw(t[rank][j], PR - 2);
        for i in rank + 1..m {
            if t[i][j] != 0 {
                let f = (t[i][j] as u128 * inv as u128 % PR as u128) as u64;
                for k in j..n {
                    let s = (t[rank][k] as u128 * f as u128 % PR as u128) as u64;
                    t[i][k] = (t[i][k] + PR - s) % PR;
                }
            }
        }
        rank += 1;
    }
    rank
}

// ---- entries ----
#[derive(Clone, Copy, PartialEq)]
enum Mag { Tiny, Small, Mid, Big(usize, usize) }   // Big(lo, hi): lo..=hi decimal digits

fn rand_int(r: &mut Rng, mag: Mag) -> BigInt {
    match mag {
        Mag::Tiny => BigInt::from(r.range(-2, 2)),
        Mag::Small => {
            if r.chance(1, 4) { BigInt::zero() } else { BigInt::from(r.range(-9, 9)) }
        }
        Mag::Mid => match r.below(6) {
            0 => BigInt::zero(),
            1 => BigInt::from(r.range(-9, 9)),
            2 => BigInt::from(if r.bool() { 1i64 << 30 } else { -(1i64 << 30) }) + r.range(-2, 2),
            _ => BigInt::from(r.range(-(1i64 << 31), 1i64 << 31)),
        },
        Mag::Big(lo, hi) => {
            if r.chance(1, 8) { return BigInt::from(r.range(-9, 9)); }
            let digits = lo + r.below((hi - lo + 1) as u64) as usize;
            let mut s = String::with_capacity(digits + 1);
            if r.bool() { s.push('-'); }
            s.push((b'1' + r.below(9) as u8) as char);
            for _ in 1..digits { s.push((b'0' + r.below(10) as u8) as char); }
            s.parse().unwrap()
        }
    }
}
fn rand_elem(r: &mut Rng, ring: Ring, mag: Mag) -> BB {
    match ring {
        Ring::Z => (rand_int(r, mag), BigInt::zero()),
        _ => {
            if !matches!(mag, Mag::Big(..)) && r.chance(1, 10) {
                // a unit or a rational / purely "imaginary" element: the boundary of normalizing_unit
                let u = units(ring);
                let k = rand_int(r, mag);
                let u = r.pick(&u).clone();
                return rmul(ring, &u, &(k, BigInt::zero()));
            }
            (rand_int(r, mag), rand_int(r, mag))
        }
    }
}
fn rand_mat(r: &mut Rng, ring: Ring, m: usize, n: usize, mag: Mag) -> M {
    (0..m).map(|_| (0..n).map(|_| rand_elem(r, ring, mag)).collect()).collect()
}
fn zero_mat(m: usize, n: usize) -> M { vec![vec![rzero(); n]; m] }

/// multiply from the left by a random product of elementary matrices (keeps rank and row space)
fn scramble(r: &mut Rng, ring: Ring, a: &mut M, steps: usize, mag: Mag) {
    let m = a.len();
    if m == 0 { return; }
    for _ in 0..steps {
        match r.below(4) {
            0 if m >= 2 => {
                let (i, j) = (r.below(m as u64) as usize, r.below(m as u64) as usize);
                a.swap(i, j);
            }
            1 => {
                let i = r.below(m as u64) as usize;
                let us = units(ring);
                let u = r.pick(&us).clone();
                for x in a[i].iter_mut() { *x = rmul(ring, x, &u); }
            }
            _ if m >= 2 => {
                let i = r.below(m as u64) as usize;
                let mut j = r.below(m as u64) as usize;
                if i == j { j = (j + 1) % m; }
                let c = rand_elem(r, ring, if matches!(mag, Mag::Big(..)) { Mag::Small } else { Mag::Tiny });
                let add: Vec<BB> = a[i].iter().map(|x| rmul(ring, x, &c)).collect();
                for (x, y) in a[j].iter_mut().zip(add.iter()) { *x = radd(x, y); }
            }
            _ => {}
        }
    }
}

/// a matrix of any rank, from a family chosen at random
fn gen_any(r: &mut Rng, ring: Ring, m: usize, n: usize, mag: Mag) -> (M, &'static str) {
    let k = r.below(12);
    match k {
        0 => (zero_mat(m, n), "zero"),
        1 => {
            // sparse
            let mut a = zero_mat(m, n);
            for row in a.iter_mut() { for x in row.iter_mut() { if r.chance(1, 3) { *x = rand_elem(r, ring, mag); } } }
            (a, "sparse")
        }
        2 | 3 => {
            // low rank product
            let rk = if m.min(n) == 0 { 0 } else { r.below(m.min(n) as u64) as usize };
            let fm = if matches!(mag, Mag::Big(..)) { mag } else { Mag::Small };
            let x = rand_mat(r, ring, m, rk, Mag::Small);
            let y = rand_mat(r, ring, rk, n, fm);
            (mmul(ring, &x, &y, n), "lowrank")
        }
        4 => {
            // duplicate / proportional / zero rows
            let mut a = rand_mat(r, ring, m, n, mag);
            if m >= 2 {
                for _ in 0..1 + r.below(2) {
                    let (i, j) = (r.below(m as u64) as usize, r.below(m as u64) as usize);
                    match r.below(3) {
                        0 => a[j] = a[i].clone(),
                        1 => { let c = rand_elem(r, ring, Mag::Tiny); a[j] = a[i].iter().map(|x| rmul(ring, x, &c)).collect(); }
                        _ => a[j] = vec![rzero(); n],
                    }
                }
            }
            (a, "duprows")
        }
        5 => {
            // zero columns (leading ones in particular)
            let mut a = rand_mat(r, ring, m, n, mag);
            if n >= 1 {
                let z = 1 + r.below(n as u64) as usize;
                for row in a.iter_mut() { for j in 0..z.min(n) { if r.chance(3, 4) || j == 0 { row[j] = rzero(); } } }
            }
            (a, "zerocols")
        }
        6 => {
            // unit-scaled permutation / diagonal: exercises normalizing_unit only
            let mut a = zero_mat(m, n);
            let us = units(ring);
            for i in 0..m.min(n) {
                let j = (i + r.below(n as u64) as usize) % n;
                let d = if r.bool() { r.pick(&us).clone() } else { rand_elem(r, ring, mag) };
                a[i][j] = d;
            }
            (a, "diagperm")
        }
        7 => {
            // echelon matrix scrambled by a unimodular matrix
            let mut a = zero_mat(m, n);
            let mut j = 0usize;
            for i in 0..m {
                j += r.below(2) as usize;
                if j >= n { break; }
                for l in j..n { a[i][l] = rand_elem(r, ring, mag); }
                if a[i][j] == rzero() { a[i][j] = rone(); }
                j += 1;
            }
            scramble(r, ring, &mut a, 2 * m + 2, mag);
            (a, "scrambled")
        }
        8 => {
            // [I | x]: the extended-gcd shape of the paper
            let mut a = zero_mat(m, n);
            for i in 0..m { for j in 0..n { if i == j { a[i][j] = rone(); } else if j + 1 == n || j >= m { a[i][j] = rand_elem(r, ring, mag); } } }
            (a, "idcol")
        }
        _ => (rand_mat(r, ring, m, n, mag), "dense"),
    }
}

/// rows independent by construction: a triangular m x m minor with non-zero diagonal on m chosen columns
fn gen_indep(r: &mut Rng, ring: Ring, m: usize, n: usize, mag: Mag) -> (M, &'static str) {
    assert!(m <= n);
    match r.below(4) {
        0 => {
            let mut a = zero_mat(m, n);
            for i in 0..m { for j in 0..n { if i == j { a[i][j] = rone(); } else if j >= m { a[i][j] = rand_elem(r, ring, mag); } } }
            (a, "idcols")
        }
        1 | 2 => {
            let mut cols: Vec<usize> = (0..n).collect();
            for i in (1..n).rev() { let j = r.below(i as u64 + 1) as usize; cols.swap(i, j); }
            let mut a = rand_mat(r, ring, m, n, mag);
            for i in 0..m {
                for l in i + 1..m { a[i][cols[l]] = rzero(); }
                if a[i][cols[i]] == rzero() { a[i][cols[i]] = rone(); }
            }
            scramble(r, ring, &mut a, m + 1, mag);
            (a, "planted")
        }
        _ => (rand_mat(r, ring, m, n, mag), "dense"),
    }
}

fn case_line(alg: &str, ring: Ring, m: usize, n: usize, flags: &str, tag: &str, a: &M) -> String {
    let mut s = format!("{} {} {} {} {} {}", alg, ring.name(), m, n, flags, tag);
    for row in a {
        assert!(row.len() == n);
        for (x, y) in row {
            s.push(' ');
            s.push_str(&x.to_string());
            if ring != Ring::Z { s.push(' '); s.push_str(&y.to_string()); }
        }
    }
    s
}

const HNF_FLAGS: [&str; 4] = ["11", "10", "01", "00"];
const LLL_FLAGS: [&str; 2] = ["1", "0"];

fn main() {
    quiet_panics();
    match parse_args() {
        Mode::Replay { file, out } => {
            let mut o = Out::new(&out);
            for l in read_lines(&file) {
                let res = guarded(|| run_case(&l)).unwrap_or("TOP-PANIC".into());
                o.case(&l, &res);
            }
            o.finish();
            std::process::exit(0);
        }
        Mode::Gen { seed, thorough, out } => {
            let o = Out::new(&out);
            let mut r = Rng::new(seed);
            // cases are collected first and run in a shuffled order (balances the model's shards)
            let mut all: Vec<String> = vec![];
            let emit = |o: &mut Vec<String>, c: String| o.push(c);
            let mut outp = o;
            let mut o = std::mem::take(&mut all);
            let rings = [Ring::Z, Ring::G, Ring::E];
            let ind_tag = |ring: Ring, a: &M, m: usize, n: usize| -> &'static str {
                if m <= n && rank_mod_p(ring, a, n) == m { "ind1" } else { "ind0" }
            };

            // 1. exhaustive sweep over Z: every matrix with entries in {-1,0,1} (quick) / {-2..2} (thorough, up to 4 entries)
            for (m, n) in [(1usize, 1usize), (1, 2), (2, 1), (2, 2), (1, 3), (3, 1), (2, 3), (3, 2)] {
                let cells = m * n;
                let vals: Vec<i64> = if thorough && cells <= 4 { vec![-2, -1, 0, 1, 2] } else { vec![-1, 0, 1] };
                let total = (vals.len() as u64).pow(cells as u32);
                for code in 0..total {
                    let mut c = code;
                    let mut a = zero_mat(m, n);
                    for i in 0..m { for j in 0..n { a[i][j] = small(vals[(c % vals.len() as u64) as usize], 0); c /= vals.len() as u64; } }
                    let fl: &[&str] = if cells <= 4 { &HNF_FLAGS } else { &HNF_FLAGS[..1] };
                    for f in fl { emit(&mut o, case_line("hnf", Ring::Z, m, n, f, "sweep:na", &a)); }
                    if m <= n {
                        let tag = format!("sweep:{}", ind_tag(Ring::Z, &a, m, n));
                        let fl: &[&str] = if cells <= 4 { &LLL_FLAGS } else { &LLL_FLAGS[..1] };
                        for f in fl { emit(&mut o, case_line("lll", Ring::Z, m, n, f, &tag, &a)); }
                    }
                }
            }
            // 1b. every 1x1 and 1x2 / 2x1 matrix over Z[i], Z[w] with coordinates in {-2..2}: all unit classes
            for ring in [Ring::G, Ring::E] {
                let mut elems = vec![];
                for a in -2..=2 { for b in -2..=2 { elems.push(small(a, b)); } }
                for x in &elems {
                    for f in HNF_FLAGS { emit(&mut o, case_line("hnf", ring, 1, 1, f, "sweep:na", &vec![vec![x.clone()]])); }
                    let a = vec![vec![x.clone()]];
                    let tag = format!("sweep:{}", ind_tag(ring, &a, 1, 1));
                    emit(&mut o, case_line("lll", ring, 1, 1, "1", &tag, &a));
                    for y in &elems {
                        emit(&mut o, case_line("hnf", ring, 2, 1, "11", "sweep:na", &vec![vec![x.clone()], vec![y.clone()]]));
                        let a = vec![vec![x.clone(), y.clone()]];
                        emit(&mut o, case_line("hnf", ring, 1, 2, "11", "sweep:na", &a));
                    }
                }
            }
            // 2. empty shapes
            for ring in rings {
                for (m, n) in [(0usize, 0usize), (0, 1), (0, 3), (1, 0), (3, 0)] {
                    let a = zero_mat(m, n);
                    for f in HNF_FLAGS { emit(&mut o, case_line("hnf", ring, m, n, f, "empty:na", &a)); }
                    // a 0 x n matrix has (vacuously) independent rows; an m x 0 matrix with m >= 1 has not
                    let tag = if m == 0 { "empty:ind1" } else { "empty:ind0" };
                    for f in LLL_FLAGS { emit(&mut o, case_line("lll", ring, m, n, f, tag, &a)); }
                }
            }
            // 3. random HNF cases: every shape 0..6 x 0..6, every rank family
            let reps_small = if thorough { 40 } else { 5 };
            for ring in rings {
                for m in 0..=6usize {
                    for n in 0..=6usize {
                        for rep in 0..reps_small {
                            let mag = if rep % 5 == 4 { Mag::Mid } else if rep % 5 == 3 { Mag::Tiny } else { Mag::Small };
                            // Z[i], Z[w] cost four times as much in the model: fewer repetitions of the large shapes
                            if ring != Ring::Z && m * n > 16 && rep % 2 == 1 && !thorough { continue; }
                            let (a, fam) = gen_any(&mut r, ring, m, n, mag);
                            let tag = format!("{}:na", fam);
                            let all = m * n <= 16 || rep == 0;
                            if all {
                                for f in HNF_FLAGS { emit(&mut o, case_line("hnf", ring, m, n, f, &tag, &a)); }
                            } else {
                                let f = *r.pick(&HNF_FLAGS);
                                emit(&mut o, case_line("hnf", ring, m, n, f, &tag, &a));
                            }
                        }
                    }
                }
            }
            // 4. random LLL cases: independent rows (m <= n), plus a few dependent ones
            for ring in rings {
                for m in 1..=6usize {
                    for n in m..=6usize {
                        for rep in 0..reps_small {
                            let mag = if rep % 5 == 4 { Mag::Mid } else if rep % 5 == 3 { Mag::Tiny } else { Mag::Small };
                            if ring != Ring::Z && m * n > 16 && rep % 2 == 1 && !thorough { continue; }
                            let (a, fam) = gen_indep(&mut r, ring, m, n, mag);
                            let tag = format!("{}:{}", fam, ind_tag(ring, &a, m, n));
                            for f in LLL_FLAGS { emit(&mut o, case_line("lll", ring, m, n, f, &tag, &a)); }
                        }
                    }
                }
                // dependent rows (outside the property's domain: exact correspondence only)
                for _ in 0..(if thorough { 60 } else { 12 }) {
                    let m = 1 + r.below(4) as usize;
                    let n = 1 + r.below(4) as usize;
                    let (a, fam) = gen_any(&mut r, ring, m, n, Mag::Small);
                    let tag = format!("{}:{}", fam, ind_tag(ring, &a, m, n));
                    emit(&mut o, case_line("lll", ring, m, n, "1", &tag, &a));
                }
            }
            // 5. entries beyond every machine width.  The extracted model's arithmetic is quadratic in the
            //    operand size and the Gram data are far larger than the entries, so these cases are few and small.
            //    (alg, m, n, digits lo..hi, rings, count quick, count thorough)
            let z_only = [Ring::Z];
            let big_plan: Vec<(&str, usize, usize, (usize, usize), &[Ring], usize, usize)> = vec![
                ("hnf", 1, 1, (100, 300), &rings, 2, 8),
                ("hnf", 1, 2, (100, 300), &rings, 2, 8),
                ("hnf", 2, 1, (100, 300), &rings, 1, 6),
                ("hnf", 1, 3, (100, 200), &rings, 1, 4),
                ("hnf", 2, 2, (100, 120), &z_only, 1, 6),
                ("hnf", 2, 2, (100, 300), &rings, 0, 2),
                ("hnf", 2, 2, (40, 60), &rings, 2, 8),
                ("hnf", 2, 3, (40, 60), &rings, 1, 6),
                ("hnf", 3, 2, (40, 45), &z_only, 1, 4),
                ("hnf", 3, 3, (40, 50), &z_only, 1, 4),
                ("hnf", 3, 3, (100, 110), &z_only, 0, 2),
                ("hnf", 4, 4, (40, 42), &z_only, 0, 2),
                ("lll", 1, 1, (100, 300), &rings, 1, 4),
                ("lll", 1, 2, (100, 300), &rings, 1, 6),
                ("lll", 2, 2, (100, 300), &rings, 1, 6),
                ("lll", 2, 3, (100, 200), &z_only, 1, 4),
                ("lll", 2, 2, (40, 60), &rings, 2, 8),
                ("lll", 2, 3, (40, 60), &rings, 1, 6),
                ("lll", 3, 3, (40, 60), &rings, 1, 6),
                ("lll", 3, 4, (100, 200), &z_only, 0, 3),
                ("lll", 4, 4, (40, 60), &z_only, 0, 3),
            ];
            let mut kf = 0usize;
            for (alg, m, n, (lo, hi), rs, cq, ct) in big_plan {
                for &ring in rs {
                    for _ in 0..(if thorough { ct } else { cq }) {
                        kf += 1;
                        if alg == "hnf" {
                            let (a, fam) = gen_any(&mut r, ring, m, n, Mag::Big(lo, hi));
                            emit(&mut o, case_line("hnf", ring, m, n, HNF_FLAGS[kf % 4], &format!("big-{}:na", fam), &a));
                        } else {
                            let (b, fam) = gen_indep(&mut r, ring, m, n, Mag::Big(lo, hi));
                            let tag = format!("big-{}:{}", fam, ind_tag(ring, &b, m, n));
                            emit(&mut o, case_line("lll", ring, m, n, LLL_FLAGS[kf % 2], &tag, &b));
                        }
                    }
                }
            }
            // 6. the repository's own examples
            let ex = |v: &[i64], n: usize| -> M { v.chunks(n).map(|c| c.iter().map(|&x| small(x, 0)).collect()).collect() };
            emit(&mut o, case_line("lll", Ring::Z, 3, 3, "1", "repo:ind1", &ex(&[1, -1, 3, 1, 0, 5, 1, 2, 6], 3)));
            emit(&mut o, case_line("lll", Ring::Z, 3, 4, "1", "repo:ind1", &ex(&[1, 0, 0, 40, 0, 1, 0, 60, 0, 0, 1, 90], 4)));
            emit(&mut o, case_line("hnf", Ring::Z, 4, 3, "11", "repo:na", &ex(&[8, 44, 43, 4, 10, 43, 56, -550, -328, 76, 10, 42], 3)));
            emit(&mut o, case_line("hnf", Ring::Z, 1, 1, "11", "repo:na", &ex(&[-2], 1)));
            emit(&mut o, case_line("hnf", Ring::Z, 3, 4, "11", "repo:na", &ex(&[0, 3, 10, -7, 0, 0, 0, -1, -1, 0, 1, 0], 4)));
            let q: M = [(-2, 3), (7, 3), (7, 3), (3, 3), (-2, 4), (6, 2), (2, 2), (-8, 0), (-9, 1)]
                .chunks(3).map(|c| c.iter().map(|&(a, b)| small(a, b)).collect()).collect();
            for ring in [Ring::G, Ring::E] {
                emit(&mut o, case_line("hnf", ring, 3, 3, "11", "repo:na", &q));
                emit(&mut o, case_line("lll", ring, 3, 3, "1", &format!("repo:{}", ind_tag(ring, &q, 3, 3)), &q));
            }
            let mut sh = Rng::new(seed ^ 0x5151);
            for i in (1..o.len()).rev() {
                let j = sh.below(i as u64 + 1) as usize;
                o.swap(i, j);
            }
            for c in &o {
                let res = guarded(|| run_case(c)).unwrap_or("TOP-PANIC".into());
                outp.case(c, &res);
            }
            outp.finish();
            // abandoned (timed-out) worker threads must not keep the process alive
            std::process::exit(0);
        }
    }
}
