//! C09 correspondence harness: yui_matrix::dense::snf::snf vs the Coq model (Model/Snf.v).
//!
//! Case lines (input of ocaml/c09_driver.ml):
//!   snf <ring> <flags> <m> <n> <m*n entries>                 flags = 4 chars 0/1 (p, pinv, q, qinv)
//!   chk <ring> <minors> <m> <n> <A> <D> <P> <Pinv> <Q> <Qinv> the implementation's own output, to be fed
//!                                                            to the verified checker (minors = 0/1)
//! Entries are single tokens: integers `-12`, quadratic integers `a:b` (= a + b*omega), rationals `n/d`.
//! Result line of an `snf` case:  D | P | Pinv | Q | Qinv | rank | factors   (matrix = `mxn:r;r;..`,
//! row = `e,e,..`, untracked = `-`), or `P` when the call panicked.  Result line of a `chk` case is the
//! verdict the checker must reach: `pq=1 pinv=1 qinv=1 shape=1 minors=1|-`.
//! The generator is text-only: it never calls the implementation to construct inputs.
use num_bigint::BigInt;
use num_traits::{One, Zero};
use yui::{EisenInt, EucRing, EucRingOps, GaussInt, Ratio, FF, FF2};
use yui_matrix::dense::snf::{snf, snf_in_place};
use yui_matrix::dense::Mat;
use yui_matrix::MatTrait;
use yui_verif_harness::*;

// ------------------------------------------------------------------------------------------------
// entry I/O per ring type
// ------------------------------------------------------------------------------------------------
trait Elt: Sized {
    fn parse(s: &str) -> Self;
    fn show(&self) -> String;
}
macro_rules! elt_int {
    ($t:ty) => {
        impl Elt for $t {
            fn parse(s: &str) -> Self { s.parse::<$t>().expect("int entry") }
            fn show(&self) -> String { self.to_string() }
        }
    };
}
elt_int!(i32);
elt_int!(i64);
elt_int!(i128);
elt_int!(BigInt);

fn split2<'a>(s: &'a str, c: char) -> (&'a str, &'a str) {
    let k = s.find(c).expect("pair entry");
    (&s[..k], &s[k + 1..])
}
macro_rules! elt_quad {
    ($q:ident, $t:ty) => {
        impl Elt for $q<$t> {
            fn parse(s: &str) -> Self {
                let (a, b) = split2(s, ':');
                $q::new(<$t as Elt>::parse(a), <$t as Elt>::parse(b))
            }
            fn show(&self) -> String { format!("{}:{}", self.left().show(), self.right().show()) }
        }
    };
}
elt_quad!(GaussInt, i32);
elt_quad!(GaussInt, i64);
elt_quad!(GaussInt, BigInt);
elt_quad!(EisenInt, i32);
elt_quad!(EisenInt, i64);
elt_quad!(EisenInt, BigInt);
macro_rules! elt_ratio {
    ($t:ty) => {
        impl Elt for Ratio<$t> {
            fn parse(s: &str) -> Self {
                let (a, b) = split2(s, '/');
                Ratio::new(<$t as Elt>::parse(a), <$t as Elt>::parse(b))
            }
            fn show(&self) -> String { format!("{}/{}", self.numer().show(), self.denom().show()) }
        }
    };
}
elt_ratio!(i64);
elt_ratio!(BigInt);
impl<const P: i32> Elt for FF<P> {
    fn parse(s: &str) -> Self {
        // entries are small integers; reduce on the generator's side of the API (FF::new = rem_euclid)
        let v: i64 = s.parse().expect("ff entry");
        FF::new(v.rem_euclid(P as i64) as i32)
    }
    fn show(&self) -> String { self.rep().to_string() }
}
impl Elt for FF2 {
    fn parse(s: &str) -> Self {
        let v: i64 = s.parse().expect("f2 entry");
        FF2::from(v)
    }
    fn show(&self) -> String { if self.is_zero() { "0".into() } else { "1".into() } }
}

// ------------------------------------------------------------------------------------------------
// running the implementation
// ------------------------------------------------------------------------------------------------
fn show_mat<R: Elt>(a: &Mat<R>) -> String {
    let (m, n) = a.shape();
    let rows: Vec<String> = (0..m)
        .map(|i| (0..n).map(|j| a[(i, j)].show()).collect::<Vec<_>>().join(","))
        .collect();
    format!("{}x{}:{}", m, n, rows.join(";"))
}
fn show_opt<R: Elt>(a: Option<&Mat<R>>) -> String {
    a.map(show_mat).unwrap_or("-".into())
}
fn flat<R: Elt>(a: &Mat<R>) -> String {
    let (m, n) = a.shape();
    let mut v = vec![];
    for i in 0..m {
        for j in 0..n {
            v.push(a[(i, j)].show());
        }
    }
    v.join(" ")
}

fn parse_mat<R>(m: usize, n: usize, toks: &[&str]) -> Mat<R>
where
    R: Elt + EucRing,
    for<'a> &'a R: EucRingOps<R>,
{
    assert!(toks.len() == m * n, "entry count");
    Mat::from_data((m, n), toks.iter().map(|t| R::parse(t)))
}

fn run_snf<R>(flags: [bool; 4], m: usize, n: usize, toks: &[&str]) -> String
where
    R: Elt + EucRing,
    for<'a> &'a R: EucRingOps<R>,
{
    let a: Mat<R> = parse_mat(m, n, toks);
    let one = |r: &yui_matrix::dense::snf::SnfResult<R>| {
        let fs: Vec<String> = r.factors().iter().map(|x| x.show()).collect();
        format!(
            "{} | {} | {} | {} | {} | {} | {}",
            show_mat(r.result()),
            show_opt(r.p()),
            show_opt(r.pinv()),
            show_opt(r.q()),
            show_opt(r.qinv()),
            r.rank(),
            fs.join(",")
        )
    };
    // the accessor forms must agree: single accessors, trans() and destruct()
    let via_trans = |r: &yui_matrix::dense::snf::SnfResult<R>| {
        let t = r.trans();
        format!("{} | {} | {} | {}", show_opt(t[0]), show_opt(t[1]), show_opt(t[2]), show_opt(t[3]))
    };
    let single = |r: &yui_matrix::dense::snf::SnfResult<R>| {
        format!("{} | {} | {} | {}", show_opt(r.p()), show_opt(r.pinv()), show_opt(r.q()), show_opt(r.qinv()))
    };
    let r1 = guarded(|| {
        let r = snf(&a, flags);
        let s0 = one(&r);
        let (s1, s2) = (single(&r), via_trans(&r));
        let (d, ts) = r.destruct();
        let s3 = format!("{} | {} | {} | {}", show_opt(ts[0].as_ref()), show_opt(ts[1].as_ref()), show_opt(ts[2].as_ref()), show_opt(ts[3].as_ref()));
        if s1 != s2 || s1 != s3 || !s0.starts_with(&show_mat(&d)) { "FORMS-DIFFER".to_string() } else { s0 }
    });
    let r2 = guarded(|| one(&snf_in_place(a.clone(), flags)));
    match (r1, r2) {
        (Some(x), Some(y)) => if x == y { x } else { "FORMS-DIFFER".into() },
        (None, None) => "P".into(),
        _ => "FORMS-DIFFER".into(),
    }
}

/// the implementation's output as a `chk` case (None when the call panics)
fn make_chk<R>(ring: &str, minors: bool, m: usize, n: usize, toks: &[&str]) -> Option<String>
where
    R: Elt + EucRing,
    for<'a> &'a R: EucRingOps<R>,
{
    let a: Mat<R> = guarded(|| parse_mat(m, n, toks))?;
    let r = guarded(|| snf(&a, [true; 4]))?;
    let parts = [
        flat(r.result()),
        flat(r.p()?),
        flat(r.pinv()?),
        flat(r.q()?),
        flat(r.qinv()?),
    ];
    // shapes are implied by (m, n); a wrong shape changes the token count and is caught by the driver
    let ok_shapes = r.result().shape() == (m, n)
        && r.p()?.shape() == (m, m)
        && r.pinv()?.shape() == (m, m)
        && r.q()?.shape() == (n, n)
        && r.qinv()?.shape() == (n, n);
    if !ok_shapes {
        return Some(format!("chk {} {} {} {} BAD-SHAPES", ring, minors as u8, m, n));
    }
    let mut line = format!("chk {} {} {} {} {}", ring, minors as u8, m, n, toks.join(" "));
    for p in parts.iter() {
        if !p.is_empty() {
            line.push(' ');
            line.push_str(p);
        }
    }
    Some(line)
}

macro_rules! dispatch {
    ($ring:expr, $f:ident, $($args:expr),*) => {
        match $ring {
            "i32" => $f::<i32>($($args),*),
            "i64" => $f::<i64>($($args),*),
            "i128" => $f::<i128>($($args),*),
            "big" => $f::<BigInt>($($args),*),
            "gi32" => $f::<GaussInt<i32>>($($args),*),
            "gi64" => $f::<GaussInt<i64>>($($args),*),
            "gbig" => $f::<GaussInt<BigInt>>($($args),*),
            "ei32" => $f::<EisenInt<i32>>($($args),*),
            "ei64" => $f::<EisenInt<i64>>($($args),*),
            "ebig" => $f::<EisenInt<BigInt>>($($args),*),
            "q64" => $f::<Ratio<i64>>($($args),*),
            "qbig" => $f::<Ratio<BigInt>>($($args),*),
            "f2" => $f::<FF2>($($args),*),
            "ff2" => $f::<FF<2>>($($args),*),
            "f3" => $f::<FF<3>>($($args),*),
            "f5" => $f::<FF<5>>($($args),*),
            "f7" => $f::<FF<7>>($($args),*),
            r => panic!("unknown ring {}", r),
        }
    };
}

fn run_case(line: &str) -> String {
    guarded(|| run_case_inner(line)).unwrap_or("TOP-PANIC".into())
}

fn run_case_inner(line: &str) -> String {
    let t: Vec<&str> = line.split_whitespace().collect();
    match t[0] {
        "snf" => {
            let ring = t[1];
            let fl: Vec<bool> = t[2].chars().map(|c| c == '1').collect();
            let flags = [fl[0], fl[1], fl[2], fl[3]];
            let (m, n): (usize, usize) = (t[3].parse().unwrap(), t[4].parse().unwrap());
            let e = &t[5..];
            dispatch!(ring, run_snf, flags, m, n, e)
        }
        "chk" => {
            // the expected verdict; the content of the line is the implementation's recorded output
            if t.len() == 6 && t[5] == "BAD-SHAPES" {
                return "pq=1 pinv=1 qinv=1 shape=1 minors=-".into();
            }
            let minors = t[2] == "1";
            format!("pq=1 pinv=1 qinv=1 shape=1 minors={}", if minors { "1" } else { "-" })
        }
        _ => panic!("bad case {}", line),
    }
}

// ------------------------------------------------------------------------------------------------
// text-only generator (own arithmetic on BigInt pairs; the implementation is not used)
// ------------------------------------------------------------------------------------------------
/// generator-side ring element: a + b*omega (b = 0 for the integer family), omega^2 = t*omega + e
#[derive(Clone, Debug, PartialEq)]
struct G(BigInt, BigInt);
#[derive(Clone, Copy, PartialEq)]
enum Fam {
    Int,
    Gauss,
    Eisen,
}
impl Fam {
    fn te(self) -> (i32, i32) {
        match self {
            Fam::Int => (0, 0),
            Fam::Gauss => (0, -1),
            Fam::Eisen => (1, -1),
        }
    }
}
fn gz() -> G { G(BigInt::zero(), BigInt::zero()) }
fn gone() -> G { G(BigInt::one(), BigInt::zero()) }
fn gadd(x: &G, y: &G) -> G { G(&x.0 + &y.0, &x.1 + &y.1) }
fn gmul(f: Fam, x: &G, y: &G) -> G {
    let (t, e) = f.te();
    let bd = &x.1 * &y.1;
    G(&x.0 * &y.0 + &bd * BigInt::from(e), &x.0 * &y.1 + &x.1 * &y.0 + &bd * BigInt::from(t))
}
type GM = Vec<Vec<G>>;
fn gm_mul(f: Fam, a: &GM, b: &GM, m: usize, k: usize, n: usize) -> GM {
    let mut c = vec![vec![gz(); n]; m];
    for i in 0..m {
        for j in 0..n {
            let mut s = gz();
            for l in 0..k {
                s = gadd(&s, &gmul(f, &a[i][l], &b[l][j]));
            }
            c[i][j] = s;
        }
    }
    c
}
fn gm_id(n: usize) -> GM {
    (0..n).map(|i| (0..n).map(|j| if i == j { gone() } else { gz() }).collect()).collect()
}
fn small_g(r: &mut Rng, f: Fam, bound: i64) -> G {
    let a = BigInt::from(r.range(-bound, bound));
    let b = if f == Fam::Int { BigInt::zero() } else { BigInt::from(r.range(-bound, bound)) };
    G(a, b)
}
fn unit_g(r: &mut Rng, f: Fam) -> G {
    let pm = |r: &mut Rng| BigInt::from(if r.bool() { 1 } else { -1 });
    match f {
        Fam::Int => G(pm(r), BigInt::zero()),
        Fam::Gauss => if r.bool() { G(pm(r), BigInt::zero()) } else { G(BigInt::zero(), pm(r)) },
        Fam::Eisen => match r.below(3) {
            0 => G(pm(r), BigInt::zero()),
            1 => G(BigInt::zero(), pm(r)),
            _ => if r.bool() { G(BigInt::from(1), BigInt::from(-1)) } else { G(BigInt::from(-1), BigInt::from(1)) },
        },
    }
}
/// random unimodular matrix: product of `steps` elementary operations applied to the identity
fn unimodular(r: &mut Rng, f: Fam, n: usize, steps: usize, bound: i64) -> GM {
    let mut u = gm_id(n);
    if n == 0 {
        return u;
    }
    for _ in 0..steps {
        match r.below(4) {
            0 if n > 1 => {
                let (i, j) = (r.below(n as u64) as usize, r.below(n as u64) as usize);
                u.swap(i, j);
            }
            1 => {
                let i = r.below(n as u64) as usize;
                let c = unit_g(r, f);
                for x in u[i].iter_mut() {
                    *x = gmul(f, x, &c);
                }
            }
            _ if n > 1 => {
                let i = r.below(n as u64) as usize;
                let mut j = r.below(n as u64) as usize;
                if i == j {
                    j = (j + 1) % n;
                }
                let c = small_g(r, f, bound);
                let rowj = u[j].clone();
                for (x, y) in u[i].iter_mut().zip(rowj.iter()) {
                    *x = gadd(x, &gmul(f, &c, y));
                }
            }
            _ => {}
        }
    }
    u
}
fn big_rand(r: &mut Rng, bits: u64) -> BigInt {
    let mut x = BigInt::zero();
    let mut got = 0;
    while got < bits {
        let k = (bits - got).min(32);
        x = (x << k) + BigInt::from(r.next_u64() & ((1u64 << k) - 1));
        got += k;
    }
    if r.bool() { -x } else { x }
}
fn tok_g(f: Fam, x: &G) -> String {
    if f == Fam::Int { x.0.to_string() } else { format!("{}:{}", x.0, x.1) }
}

const PLANT_INT: [i64; 14] = [1, 1, 2, 2, 3, 4, 5, 6, 8, 9, 12, 30, -1, -6];

/// a random m x n matrix over the family, returned as entry tokens
fn gen_matrix(r: &mut Rng, f: Fam, m: usize, n: usize, kind: u64, bits: u64) -> Vec<G> {
    let mn = m.min(n);
    let mat: GM = match kind {
        // zero matrix
        0 => vec![vec![gz(); n]; m],
        // sparse small entries (many zeros -> rank deficient)
        1 => (0..m).map(|_| (0..n).map(|_| if r.chance(1, 2) { gz() } else { small_g(r, f, 3) }).collect()).collect(),
        // dense small entries
        2 => (0..m).map(|_| (0..n).map(|_| small_g(r, f, 9)).collect()).collect(),
        // planted invariant factors: U * diag * V
        3 | 4 => {
            let rank = r.below(mn as u64 + 1) as usize;
            let mut dg = vec![vec![gz(); n]; m];
            for i in 0..rank {
                let mut x = G(BigInt::from(*r.pick(&PLANT_INT)), BigInt::zero());
                if f != Fam::Int && r.chance(1, 2) {
                    // Gaussian / Eisenstein primes and composites
                    x = gmul(f, &x, &small_g(r, f, 3));
                    if x == gz() {
                        x = gone();
                    }
                }
                // scatter: not sorted, not a divisibility chain, at an arbitrary diagonal position
                dg[i][i] = x;
            }
            let st = if kind == 3 { 3 } else { 8 };
            let u = unimodular(r, f, m, st, 2);
            let v = unimodular(r, f, n, st, 2);
            gm_mul(f, &gm_mul(f, &u, &dg, m, m, n), &v, m, n, n)
        }
        // diagonal input (exercises diag_normalize only): non-chain entries, units, zeros in between
        5 => {
            let mut dg = vec![vec![gz(); n]; m];
            for i in 0..mn {
                dg[i][i] = match r.below(6) {
                    0 => gz(),
                    1 => unit_g(r, f),
                    _ => {
                        let mut x = G(BigInt::from(*r.pick(&PLANT_INT)), BigInt::zero());
                        if f != Fam::Int && r.bool() {
                            x = gmul(f, &x, &small_g(r, f, 2));
                        }
                        x
                    }
                };
            }
            dg
        }
        // big entries (`bits` bits), low rank products so that the factors are non-trivial
        6 => {
            let k = 1 + r.below(mn.max(1) as u64) as usize;
            let mk = |r: &mut Rng, a: usize, b: usize| -> GM {
                (0..a).map(|_| (0..b).map(|_| {
                    let x = big_rand(r, bits / 2);
                    let y = if f == Fam::Int { BigInt::zero() } else { big_rand(r, bits / 2) };
                    G(x, y)
                }).collect()).collect()
            };
            let a = mk(r, m, k);
            let b = mk(r, k, n);
            gm_mul(f, &a, &b, m, k, n)
        }
        // big independent entries
        _ => (0..m).map(|_| (0..n).map(|_| {
            let x = big_rand(r, bits);
            let y = if f == Fam::Int { BigInt::zero() } else { big_rand(r, bits) };
            G(x, y)
        }).collect()).collect(),
    };
    mat.into_iter().flatten().collect()
}

fn flags_str(k: u64) -> String {
    (0..4).map(|b| if (k >> (3 - b)) & 1 == 1 { '1' } else { '0' }).collect()
}

struct Plan {
    ring: &'static str,
    fam: Fam,
    count: usize,     // matrices
    maxdim: usize,
    kinds: &'static [u64],
    bits: u64,
    rational: bool,   // print entries as n/d
}

fn main() {
    quiet_panics();
    match parse_args() {
        Mode::Replay { file, out } => {
            let mut o = Out::new(&out);
            for l in read_lines(&file) {
                // a recorded `chk` case carries the implementation's output of the recording run: re-run the
                // implementation on its input matrix so that the replay judges the code as it is now
                let t: Vec<&str> = l.split_whitespace().collect();
                if t.len() >= 5 && t[0] == "chk" {
                    let ring = t[1];
                    let minors = t[2] == "1";
                    let (m, n): (usize, usize) = (t[3].parse().unwrap_or(0), t[4].parse().unwrap_or(0));
                    if t.len() >= 5 + m * n {
                        let a: Vec<&str> = t[5..5 + m * n].to_vec();
                        let again: Option<String> =
                            guarded(|| dispatch!(ring, make_chk, ring, minors, m, n, &a)).flatten();
                        let c = match again {
                            Some(c) => c,
                            None => format!("snf {} 1111 {} {} {}", ring, m, n, a.join(" ")).trim_end().to_string(),
                        };
                        let res = run_case(&c);
                        o.case(&c, &res);
                        continue;
                    }
                }
                let res = run_case(&l);
                o.case(&l, &res);
            }
            o.finish();
        }
        Mode::Gen { seed, thorough, out } => {
            let mut o = Out::new(&out);
            let mut r = Rng::new(seed);
            let s = if thorough { 20 } else { 3 };
            // plans with 400 / 1000-bit entries: the extracted model (binary positives, LLL preprocessing) needs
            // 5 .. 20 s per case there, so their number is kept small and independent of `s`
            let h = if thorough { 5 } else { 1 };
            let small: &[u64] = &[0, 1, 1, 2, 3, 3, 4, 5, 5];
            let tiny: &[u64] = &[1, 1, 3, 5];
            let bigk: &[u64] = &[6, 7, 3];
            let hugek: &[u64] = &[6, 7];
            let plans = vec![
                // no LLL preprocessing in the implementation: the model is exact from eliminate_all on
                Plan { ring: "i32", fam: Fam::Int, count: 500 * s, maxdim: 6, kinds: small, bits: 0, rational: false },
                Plan { ring: "gi32", fam: Fam::Gauss, count: 250 * s, maxdim: 4, kinds: small, bits: 0, rational: false },
                Plan { ring: "ei32", fam: Fam::Eisen, count: 250 * s, maxdim: 4, kinds: small, bits: 0, rational: false },
                Plan { ring: "q64", fam: Fam::Int, count: 250 * s, maxdim: 5, kinds: tiny, bits: 0, rational: true },
                Plan { ring: "qbig", fam: Fam::Int, count: 300 * s, maxdim: 7, kinds: small, bits: 0, rational: true },
                Plan { ring: "f2", fam: Fam::Int, count: 300 * s, maxdim: 7, kinds: small, bits: 0, rational: false },
                Plan { ring: "ff2", fam: Fam::Int, count: 100 * s, maxdim: 7, kinds: small, bits: 0, rational: false },
                Plan { ring: "f3", fam: Fam::Int, count: 300 * s, maxdim: 7, kinds: small, bits: 0, rational: false },
                Plan { ring: "f5", fam: Fam::Int, count: 300 * s, maxdim: 7, kinds: small, bits: 0, rational: false },
                Plan { ring: "f7", fam: Fam::Int, count: 100 * s, maxdim: 7, kinds: small, bits: 0, rational: false },
                // LLL-preprocessed rings
                Plan { ring: "i64", fam: Fam::Int, count: 250 * s, maxdim: 6, kinds: small, bits: 0, rational: false },
                Plan { ring: "i128", fam: Fam::Int, count: 150 * s, maxdim: 6, kinds: small, bits: 0, rational: false },
                Plan { ring: "big", fam: Fam::Int, count: 400 * s, maxdim: 7, kinds: small, bits: 0, rational: false },
                Plan { ring: "big", fam: Fam::Int, count: 40 * h, maxdim: 4, kinds: bigk, bits: 60, rational: false },
                Plan { ring: "big", fam: Fam::Int, count: 4 * h, maxdim: 2, kinds: bigk, bits: 400, rational: false },
                Plan { ring: "big", fam: Fam::Int, count: h, maxdim: 2, kinds: hugek, bits: 1000, rational: false },
                Plan { ring: "gi64", fam: Fam::Gauss, count: 120 * s, maxdim: 4, kinds: small, bits: 0, rational: false },
                Plan { ring: "gbig", fam: Fam::Gauss, count: 200 * s, maxdim: 5, kinds: small, bits: 0, rational: false },
                Plan { ring: "gbig", fam: Fam::Gauss, count: 15 * h, maxdim: 3, kinds: bigk, bits: 60, rational: false },
                Plan { ring: "gbig", fam: Fam::Gauss, count: h, maxdim: 2, kinds: hugek, bits: 400, rational: false },
                Plan { ring: "ei64", fam: Fam::Eisen, count: 120 * s, maxdim: 4, kinds: small, bits: 0, rational: false },
                Plan { ring: "ebig", fam: Fam::Eisen, count: 200 * s, maxdim: 5, kinds: small, bits: 0, rational: false },
                Plan { ring: "ebig", fam: Fam::Eisen, count: 15 * h, maxdim: 3, kinds: bigk, bits: 60, rational: false },
                Plan { ring: "ebig", fam: Fam::Eisen, count: h, maxdim: 2, kinds: hugek, bits: 400, rational: false },
            ];
            // (key, seq, case, result): the lines of a plan are spread evenly over the whole case file, so that the
            // few expensive plans (big entries) do not end up in one shard of the model run
            let mut lines: Vec<(f64, usize, String, String)> = vec![];
            for p in plans.iter() {
                let start = lines.len();
                for k in 0..p.count {
                    // shapes: every (m, n) in 0..=maxdim is visited systematically, then random
                    let d = p.maxdim + 1;
                    let (m, n) = if p.bits >= 400 {
                        (1 + r.below(p.maxdim as u64) as usize, 1 + r.below(p.maxdim as u64) as usize)
                    } else if k < d * d {
                        (k / d, k % d)
                    } else {
                        (r.below(d as u64) as usize, r.below(d as u64) as usize)
                    };
                    let kind = *r.pick(p.kinds);
                    let ents = gen_matrix(&mut r, p.fam, m, n, kind, p.bits);
                    let toks: Vec<String> = ents
                        .iter()
                        .map(|x| {
                            if p.rational {
                                // a fraction with a small positive denominator (not necessarily reduced)
                                let den = if r.chance(1, 2) { 1 } else { r.range(1, 6) };
                                format!("{}/{}", x.0, den)
                            } else {
                                tok_g(p.fam, x)
                            }
                        })
                        .collect();
                    let body = format!("{} {} {}", m, n, toks.join(" "));
                    let body = body.trim_end().to_string();
                    // flag subsets: all four always; every subset for a quarter of the matrices; two random otherwise
                    let mut subsets: Vec<u64> = vec![15];
                    if k % 4 == 0 && p.bits == 0 {
                        subsets = (0..16).rev().collect();
                    } else if p.bits >= 400 {
                        subsets.push(r.below(15));
                    } else {
                        subsets.push(r.below(15));
                        subsets.push(r.below(15));
                    }
                    for fl in subsets {
                        let c = format!("snf {} {} {}", p.ring, flags_str(fl), body);
                        let res = run_case(&c);
                        let sq = lines.len();
                        lines.push((0.0, sq, c, res));
                    }
                    // the implementation's own certificate, for the verified checker
                    let tr: Vec<&str> = toks.iter().map(|s| s.as_str()).collect();
                    let minors = m.min(n) <= 4 && m.max(n) <= 6 && p.bits <= 60;
                    let ring = p.ring;
                    let chk: Option<String> =
                        guarded(|| dispatch!(ring, make_chk, ring, minors, m, n, &tr)).flatten();
                    if let Some(c) = chk {
                        let res = run_case(&c);
                        let sq = lines.len();
                        lines.push((0.0, sq, c, res));
                    }
                }
                let len = lines.len() - start;
                for (j, l) in lines[start..].iter_mut().enumerate() {
                    l.0 = (j as f64 + 0.5) / (len as f64);
                }
            }
            lines.sort_by(|a, b| a.0.partial_cmp(&b.0).unwrap().then(a.1.cmp(&b.1)));
            for (_, _, c, res) in lines.iter() {
                o.case(c, res);
            }
            o.finish();
        }
    }
}
