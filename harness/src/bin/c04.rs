//! C04 correspondence harness: yui_link::util::jones_polynomial and the bigraded Khovanov homology of the
//! library vs the Coq model (Model/Jones.v).  Case lines are the model driver's input
//! (ocaml/c04_driver.ml); result lines are what the real implementation returned.
//!   jones <link>            jones_polynomial                      -> polynomial | P | DIVERGE
//!   kh <link>               jones_polynomial + sum (-1)^i q^j rank Kh^{i,j} (KhComplexBigraded::homology over Z = BigInt)
//!                                                                  -> "<polynomial> EULER-OK" | "... EULER-DIFF <euler>"
//!   khbig <link>            the same for diagrams too large for the model: "EULER-OK" | "EULER-DIFF .."
//!   jinv same|mirror <l1> <l2>   invariance under moves / q -> q^-1 under mirroring (implementation and model)
//!   jinvbig same|mirror <l1> <l2> the same, implementation only
//! (the generator-side code below is the same as in c18.rs)
#![allow(dead_code)]
use std::collections::BTreeMap;
use std::panic::{catch_unwind, AssertUnwindSafe};
use yui::poly::Mono;
use yui_homology::{isize2, GridTrait, SummandTrait};
use yui_kh::kh::{KhComplexBigraded, KhHomologyBigraded};
use yui_link::util::jones_polynomial;
use yui_link::{Crossing, CrossingType, Link, State};
use num_bigint::BigInt;
use yui_verif_harness::*;

// ---------------------------------------------------------------------------------------------
// generator-side diagrams: plain data, no call into the implementation
// ---------------------------------------------------------------------------------------------
type PD = Vec<(char, [usize; 4])>;

fn pd_of_code(code: &[[usize; 4]]) -> PD {
    code.iter().map(|x| ('X', *x)).collect()
}
fn fmt_pd(pd: &PD) -> String {
    let mut s = format!("{}", pd.len());
    for (t, e) in pd {
        s.push_str(&format!(" {} {} {} {} {}", t, e[0], e[1], e[2], e[3]));
    }
    s
}
fn parse_pd<'a>(t: &[&'a str]) -> (PD, usize) {
    let n: usize = t[0].parse().unwrap();
    let mut pd = vec![];
    for k in 0..n {
        let b = 1 + 5 * k;
        let ty = t[b].chars().next().unwrap();
        let e = [t[b + 1].parse().unwrap(), t[b + 2].parse().unwrap(), t[b + 3].parse().unwrap(), t[b + 4].parse().unwrap()];
        pd.push((ty, e));
    }
    (pd, 1 + 5 * n)
}
fn ctype(c: char) -> CrossingType {
    match c {
        'X' => CrossingType::X,
        'M' => CrossingType::Xm,
        'V' => CrossingType::V,
        'H' => CrossingType::H,
        _ => panic!("ctype"),
    }
}
fn cchar(t: CrossingType) -> char {
    match t {
        CrossingType::X => 'X',
        CrossingType::Xm => 'M',
        CrossingType::V => 'V',
        CrossingType::H => 'H',
    }
}
fn mk_link(pd: &PD) -> Link {
    Link::new(pd.iter().map(|(t, e)| Crossing::new(ctype(*t), *e)).collect())
}
fn max_label(pd: &PD) -> usize {
    pd.iter().flat_map(|(_, e)| e.iter().cloned()).max().unwrap_or(0)
}

/// generator-side braid closure (independent of the library): labels are made per strand segment
fn gen_closure(strands: usize, word: &[i32]) -> Option<Vec<[usize; 4]>> {
    let mut cur: Vec<usize> = (0..strands).collect();
    let mut next = strands;
    let mut code = vec![];
    for &s in word {
        let i = (s.unsigned_abs() as usize).checked_sub(1)?;
        if i + 1 >= strands {
            return None;
        }
        let (a, b, c, d) = (cur[i], cur[i + 1], next, next + 1);
        next += 2;
        code.push(if s > 0 { [a, c, d, b] } else { [b, a, c, d] });
        cur[i] = c;
        cur[i + 1] = d;
    }
    if (0..strands).any(|i| cur[i] == i) {
        return None;
    }
    let ren = |x: usize| cur.iter().position(|&y| y == x).unwrap_or(x);
    Some(code.iter().map(|x| [ren(x[0]), ren(x[1]), ren(x[2]), ren(x[3])]).collect())
}

/// generator-side orientation of an all-X/Xm code: role[i][j] = true when the strand enters crossing i
/// through slot j.  None when the code is not consistently oriented (or not a closed valid code).
fn orient(pd: &PD) -> Option<Vec<[bool; 4]>> {
    let n = pd.len();
    let mut role: Vec<[Option<bool>; 4]> = vec![[None; 4]; n];
    let other = |i: usize, j: usize| -> Option<(usize, usize)> {
        let e = pd[i].1[j];
        let mut found = None;
        let mut cnt = 0;
        for (i2, (_, es)) in pd.iter().enumerate() {
            for j2 in 0..4 {
                if es[j2] == e {
                    cnt += 1;
                    if (i2, j2) != (i, j) {
                        found = Some((i2, j2));
                    }
                }
            }
        }
        if cnt == 2 { found } else { None }
    };
    for i in 0..n {
        if pd[i].0 != 'X' && pd[i].0 != 'M' {
            return None;
        }
        role[i][0] = Some(true);
        role[i][2] = Some(false);
    }
    loop {
        let mut changed = false;
        for i in 0..n {
            for j in 0..4 {
                if let Some(r) = role[i][j] {
                    let (i2, j2) = other(i, j)?;
                    match role[i2][j2] {
                        None => {
                            role[i2][j2] = Some(!r);
                            changed = true;
                        }
                        Some(r2) => if r2 == r { return None },
                    }
                    let j3 = (j + 2) % 4;
                    match role[i][j3] {
                        None => {
                            role[i][j3] = Some(!r);
                            changed = true;
                        }
                        Some(r3) => if r3 == r { return None },
                    }
                }
            }
        }
        if !changed {
            // components that only pass over: pick a direction for one of them and propagate
            let mut picked = false;
            'outer: for i in 0..n {
                for j in 0..4 {
                    if role[i][j].is_none() {
                        role[i][j] = Some(true);
                        picked = true;
                        break 'outer;
                    }
                }
            }
            if !picked {
                break;
            }
        }
    }
    Some(role.iter().map(|r| [r[0].unwrap(), r[1].unwrap(), r[2].unwrap(), r[3].unwrap()]).collect())
}

/// Reidemeister I: a kink on a random edge (4 shapes; the crossing repeats a label)
fn add_kink(r: &mut Rng, pd: &PD) -> Option<PD> {
    let role = orient(pd)?;
    let n = pd.len();
    if n == 0 {
        return None;
    }
    let (i, j) = (r.below(n as u64) as usize, r.below(4) as usize);
    let e = pd[i].1[j];
    // the end of e at which the strand arrives gets the new label e'
    let mut out = pd.clone();
    let m = max_label(pd);
    let (x, e2) = (m + 1, m + 2);
    let mut done = false;
    for (i2, (_, es)) in out.iter_mut().enumerate() {
        for j2 in 0..4 {
            if es[j2] == e && role[i2][j2] && !done {
                es[j2] = e2;
                done = true;
            }
        }
    }
    if !done {
        return None;
    }
    // the strand runs e -> kink -> e2
    let k = match r.below(4) {
        0 => [e, x, x, e2],
        1 => [e, e2, x, x],
        2 => [x, e, e2, x],
        _ => [x, x, e2, e],
    };
    let t = if r.chance(1, 4) { 'M' } else { 'X' };
    let at = r.below(out.len() as u64 + 1) as usize;
    out.insert(at, (t, k));
    Some(out)
}

fn relabel_random(r: &mut Rng, pd: &PD) -> PD {
    // injective map of the labels into 0..bound, random
    let mut labels: Vec<usize> = pd.iter().flat_map(|(_, e)| e.iter().cloned()).collect();
    labels.sort();
    labels.dedup();
    let bound = labels.len() + 1 + r.below(40) as usize;
    let mut pool: Vec<usize> = (0..bound).collect();
    for k in (1..pool.len()).rev() {
        let j = r.below(k as u64 + 1) as usize;
        pool.swap(k, j);
    }
    let f = |x: usize| pool[labels.binary_search(&x).unwrap()];
    pd.iter().map(|(t, e)| (*t, [f(e[0]), f(e[1]), f(e[2]), f(e[3])])).collect()
}
fn reorder_random(r: &mut Rng, pd: &PD) -> PD {
    let mut out = pd.clone();
    for k in (1..out.len()).rev() {
        let j = r.below(k as u64 + 1) as usize;
        out.swap(k, j);
    }
    out
}
fn mirror_pd(pd: &PD) -> PD {
    pd.iter().map(|(t, e)| (match t { 'X' => 'M', 'M' => 'X', o => *o }, *e)).collect()
}
fn split_union(r: &mut Rng, a: &PD, b: &PD) -> PD {
    let off = max_label(a) + 1 + r.below(3) as usize;
    let mut out = a.clone();
    for (t, e) in b {
        let x = (*t, [e[0] + off, e[1] + off, e[2] + off, e[3] + off]);
        let at = if r.bool() { out.len() } else { r.below(out.len() as u64 + 1) as usize };
        out.insert(at, x);
    }
    out
}
/// partially resolve: turn a random subset of the crossings into V / H (generator-side)
fn partial_resolve(r: &mut Rng, pd: &PD) -> PD {
    pd.iter().map(|(t, e)| if r.chance(1, 3) { (if r.bool() { 'V' } else { 'H' }, *e) } else { (*t, *e) }).collect()
}
fn random_word(r: &mut Rng, strands: usize, len: usize) -> Vec<i32> {
    (0..len).map(|_| {
        let i = 1 + r.below(strands as u64 - 1) as i32;
        if r.bool() { i } else { -i }
    }).collect()
}
/// a word whose closure contains a component that only passes over: the last strand travels left above
/// everything and comes back
fn over_component_word(r: &mut Rng, strands: usize, len: usize) -> (usize, Vec<i32>) {
    let mut w = random_word(r, strands, len);
    let s = strands as i32; // new strand s+1 sits at position s (1-based generator index s)
    let depth = 1 + r.below(strands as u64) as i32; // how far left it travels
    let at = r.below(w.len() as u64 + 1) as usize;
    let mut ins = vec![];
    for k in 0..depth { ins.push(s - k); }       // positive: the strand coming from the right passes over
    for k in (0..depth).rev() { ins.push(-(s - k)); } // negative: the strand coming from the left passes over
    let tail = w.split_off(at);
    w.extend(ins);
    w.extend(tail);
    (strands + 1, w)
}


// ---------------------------------------------------------------------------------------------
// the real implementation
// ---------------------------------------------------------------------------------------------
type Poly = BTreeMap<isize, i64>;
fn fmt_poly(p: &Poly) -> String {
    let v: Vec<String> = p.iter().filter(|(_, c)| **c != 0).map(|(e, c)| format!("{}:{}", e, c)).collect();
    if v.is_empty() { "0".into() } else { v.join(",") }
}
fn clean(p: Poly) -> Poly { p.into_iter().filter(|(_, c)| *c != 0).collect() }
fn jones_impl(l: &Link) -> Option<Poly> {
    guarded(|| {
        let p = jones_polynomial(l);
        let mut m = Poly::new();
        for (x, c) in p.iter() { *m.entry(x.deg()).or_insert(0) += *c as i64; }
        clean(m)
    })
}
fn pinv(p: &Poly) -> Poly { p.iter().map(|(e, c)| (-*e, *c)).collect() }

struct Stop;
fn traverse_guarded(l: &Link, start: (usize, usize)) -> bool {
    let n = l.data().len();
    let mut k = 0usize;
    let r = catch_unwind(AssertUnwindSafe(|| {
        l.traverse_edges(start, |_, _| {
            k += 1;
            if k > 4 * n + 2 { std::panic::panic_any(Stop); }
        })
    }));
    match r {
        Ok(()) => true,
        Err(e) => if e.is::<Stop>() { false } else { std::panic::resume_unwind(e) },
    }
}
fn diverges(l: &Link) -> bool {
    let n = l.data().len();
    (0..3).any(|j| (0..n).any(|i| !traverse_guarded(l, (i, j))))
}
fn valid_pd(pd: &PD) -> bool {
    let mut cnt = BTreeMap::new();
    for (_, e) in pd { for x in e { *cnt.entry(*x).or_insert(0usize) += 1; } }
    cnt.values().all(|&c| c == 2)
}
/// the guard (same rule as in the model driver): for an invalid or a small code, look for a traversal
/// that would never end, in the diagram and in every resolution
fn jdiverges(pd: &PD, l: &Link) -> bool {
    if valid_pd(pd) && pd.len() > 6 { return false; }
    if diverges(l) { return true; }
    let n = l.crossing_num();
    if n > 12 { return false; }
    for v in 0..(1u64 << n) {
        let s = State::new(v, n);
        if let Some(l2) = guarded(|| l.resolved_by(&s)) {
            if diverges(&l2) { return true; }
        }
    }
    false
}

/// sum over the support of (-1)^i q^j rank Kh^{i,j}, bigraded complex route (and, when `both`, the
/// KhHomologyBigraded::new route, which must give the same polynomial)
fn euler_impl(l: &Link, both: bool) -> Option<Result<Poly, String>> {
    guarded(|| {
        // BigInt is the exact instance (with i64 the LLL/SNF step overflows - a loud abort - on some
        // multi-component diagrams, e.g. a 14-crossing 4-component split union)
        let z = BigInt::from(0);
        let c = KhComplexBigraded::<BigInt>::new(l, &z, &z, false);
        let h = c.homology();
        let mut m = Poly::new();
        for idx in h.support() {
            let isize2(i, j) = idx;
            let r = h[(i, j)].rank() as i64;
            *m.entry(j).or_insert(0) += if i.rem_euclid(2) == 0 { r } else { -r };
        }
        let m = clean(m);
        if both {
            let h2 = KhHomologyBigraded::<BigInt>::new(l, &z, &z, false);
            let mut m2 = Poly::new();
            for idx in h2.support() {
                let isize2(i, j) = idx;
                let r = h2[(i, j)].rank() as i64;
                *m2.entry(j).or_insert(0) += if i.rem_euclid(2) == 0 { r } else { -r };
            }
            let m2 = clean(m2);
            if m2 != m { return Err(format!("EULER-ROUTES-DIFFER {} / {}", fmt_poly(&m), fmt_poly(&m2))); }
        }
        Ok(m)
    })
}

fn kh_line(pd: &PD, big: bool) -> String {
    let l = mk_link(pd);
    if jdiverges(pd, &l) { return "DIVERGE".into(); }
    let j = jones_impl(&l);
    let Some(j) = j else { return "P".into() };
    let e = euler_impl(&l, pd.len() <= 12);
    let verdict = match e {
        None => "EULER-DIFF KH-PANIC".to_string(),
        Some(Err(s)) => s,
        Some(Ok(e)) => if e == j { "EULER-OK".into() } else { format!("EULER-DIFF {}", fmt_poly(&e)) },
    };
    if big { if verdict == "EULER-OK" { verdict } else { format!("{} jones={}", verdict, fmt_poly(&j)) } }
    else { format!("{} {}", fmt_poly(&j), verdict) }
}

fn jinv_line(kind: &str, pd1: &PD, pd2: &PD, big: bool) -> String {
    let (l1, l2) = (mk_link(pd1), mk_link(pd2));
    if jdiverges(pd1, &l1) || jdiverges(pd2, &l2) { return "DIVERGE".into(); }
    if kind == "mirror" && l1.mirror().data() != l2.data() { return "MIRROR-DATA-DIFFER".into(); }
    let (p1, p2) = (jones_impl(&l1), jones_impl(&l2));
    let ok = match (kind, &p1, &p2) {
        ("same", Some(a), Some(b)) => a == b,
        ("mirror", Some(a), Some(b)) => *b == pinv(a),
        (_, None, None) => true,
        _ => false,
    };
    let f = |p: &Option<Poly>| p.as_ref().map(fmt_poly).unwrap_or("P".into());
    if big && ok { "INV-OK".into() } else { format!("{} {} {}", if ok { "INV-OK" } else { "INV-DIFF" }, f(&p1), f(&p2)) }
}

fn run_case(line: &str) -> String {
    guarded(|| run_case_inner(line)).unwrap_or("TOP-PANIC".into())
}
fn run_case_inner(line: &str) -> String {
    let t: Vec<&str> = line.split_whitespace().collect();
    match t[0] {
        "jones" => {
            let (pd, _) = parse_pd(&t[1..]);
            let l = mk_link(&pd);
            if jdiverges(&pd, &l) { return "DIVERGE".into(); }
            // both construction forms for all-X codes
            if pd.iter().all(|(t, _)| *t == 'X') {
                let l2 = Link::from_pd_code(pd.iter().map(|(_, e)| *e));
                if jones_impl(&l2) != jones_impl(&l) { return "FORMS-DIFFER".into(); }
            }
            jones_impl(&l).map(|p| fmt_poly(&p)).unwrap_or("P".into())
        }
        "kh" => { let (pd, _) = parse_pd(&t[1..]); kh_line(&pd, false) }
        "khbig" => { let (pd, _) = parse_pd(&t[1..]); kh_line(&pd, true) }
        "khhuge" => {
            // Euler characteristic of the library's bigraded homology of a diagram far above the 2^n limits
            // (33..48 crossings); the model evaluates jones_model on the small isotopic diagram that follows
            let (pd1, _k) = parse_pd(&t[1..]);
            let l = mk_link(&pd1);
            match euler_impl(&l, false) {
                None => "EULER-DIFF KH-PANIC".to_string(),
                Some(Err(s)) => s,
                Some(Ok(e)) => fmt_poly(&e),
            }
        }
        "jinv" | "jinvbig" => {
            let (pd1, k) = parse_pd(&t[2..]);
            let (pd2, _) = parse_pd(&t[2 + k..]);
            jinv_line(t[1], &pd1, &pd2, t[0] == "jinvbig")
        }
        _ => panic!("bad case {}", line),
    }
}

// ---------------------------------------------------------------------------------------------
// corpus and generators
// ---------------------------------------------------------------------------------------------
fn repo() -> String { std::env::var("VERIF_REPO").unwrap_or("/repo".into()) }
fn parse_json_code(s: &str) -> Option<Vec<[usize; 4]>> {
    let mut nums = vec![];
    let mut cur = String::new();
    for ch in s.chars() {
        if ch.is_ascii_digit() { cur.push(ch); } else {
            if !cur.is_empty() { nums.push(cur.parse::<usize>().ok()?); cur.clear(); }
            if !(ch == '[' || ch == ']' || ch == ',' || ch.is_whitespace()) { return None; }
        }
    }
    if nums.len() % 4 != 0 { return None; }
    Some(nums.chunks(4).map(|c| [c[0], c[1], c[2], c[3]]).collect())
}
fn corpus() -> Vec<(String, Vec<[usize; 4]>)> {
    let dir = format!("{}/yui-link/resources/links", repo());
    let mut names: Vec<String> = std::fs::read_dir(&dir).map(|d| d.filter_map(|e| e.ok())
        .filter_map(|e| e.file_name().to_str().map(|s| s.to_string()))
        .filter(|s| s.ends_with(".json")).collect()).unwrap_or_default();
    names.sort();
    names.into_iter().filter_map(|f| {
        let s = std::fs::read_to_string(format!("{}/{}", dir, f)).ok()?;
        Some((f.trim_end_matches(".json").to_string(), parse_json_code(&s)?))
    }).collect()
}
fn malformed(r: &mut Rng) -> PD {
    let n = 1 + r.below(4) as usize;
    let pool = 1 + r.below(2 * n as u64 + 2) as usize;
    (0..n).map(|_| {
        let t = *r.pick(&['X', 'X', 'X', 'M', 'V', 'H']);
        (t, [r.below(pool as u64) as usize, r.below(pool as u64) as usize, r.below(pool as u64) as usize, r.below(pool as u64) as usize])
    }).collect()
}
fn random_valid(r: &mut Rng, n: usize, types: bool) -> PD {
    let mut slots: Vec<usize> = (0..4 * n).collect();
    for k in (1..slots.len()).rev() {
        let j = r.below(k as u64 + 1) as usize;
        slots.swap(k, j);
    }
    let mut lab = vec![0usize; 4 * n];
    for k in 0..2 * n {
        lab[slots[2 * k]] = k;
        lab[slots[2 * k + 1]] = k;
    }
    (0..n).map(|i| {
        let t = if types { *r.pick(&['X', 'M', 'V', 'H']) } else { 'X' };
        (t, [lab[4 * i], lab[4 * i + 1], lab[4 * i + 2], lab[4 * i + 3]])
    }).collect()
}

/// a braid word with every generator present (no free loop)
fn full_word(r: &mut Rng, strands: usize, len: usize) -> Vec<i32> {
    let mut w = random_word(r, strands, len);
    for g in 1..strands as i32 {
        if !w.iter().any(|x| x.abs() == g) {
            let at = r.below(w.len() as u64 + 1) as usize;
            w.insert(at, if r.bool() { g } else { -g });
        }
    }
    w
}
/// one random move that does not change the closure up to isotopy; returns (strands, word)
fn braid_move(r: &mut Rng, strands: usize, w: &[i32]) -> (usize, Vec<i32>) {
    let mut w = w.to_vec();
    match r.below(5) {
        0 => { // conjugation
            let g = 1 + r.below(strands as u64 - 1) as i32;
            let g = if r.bool() { g } else { -g };
            w.insert(0, g);
            w.push(-g);
            (strands, w)
        }
        1 => { // Markov stabilisation
            let g = strands as i32;
            w.push(if r.bool() { g } else { -g });
            (strands + 1, w)
        }
        2 => { // insert sigma sigma^-1
            let g = 1 + r.below(strands as u64 - 1) as i32;
            let g = if r.bool() { g } else { -g };
            let at = r.below(w.len() as u64 + 1) as usize;
            w.insert(at, g);
            w.insert(at + 1, -g);
            (strands, w)
        }
        3 => { // far commutation, first applicable place
            for k in 0..w.len().saturating_sub(1) {
                if (w[k].abs() - w[k + 1].abs()).abs() >= 2 { w.swap(k, k + 1); break; }
            }
            (strands, w)
        }
        _ => { // braid relation aba -> bab, first applicable place, else cyclic rotation (a conjugation)
            for k in 0..w.len().saturating_sub(2) {
                let (a, b, c) = (w[k], w[k + 1], w[k + 2]);
                if a == c && (a.abs() - b.abs()).abs() == 1 && (a > 0) == (b > 0) {
                    w[k] = b; w[k + 1] = a; w[k + 2] = b;
                    return (strands, w);
                }
            }
            if !w.is_empty() { let x = w.remove(0); w.push(x); }
            (strands, w)
        }
    }
}

fn main() {
    quiet_panics();
    match parse_args() {
        Mode::Replay { file, out } => {
            let mut o = Out::new(&out);
            for l in read_lines(&file) {
                let res = run_case(&l);
                o.case(&l, &res);
            }
            o.finish();
        }
        Mode::Gen { seed, thorough, out } => {
            let mut o = Out::new(&out);
            let mut r = Rng::new(seed);
            let mut emit = |o: &mut Out, c: String| {
                let res = run_case(&c);
                o.case(&c, &res);
            };
            let small = if thorough { 12 } else { 10 }; // model limit (2^n states in the extracted model)
            // battery on a genuine diagram
            let battery = |o: &mut Out, r: &mut Rng, pd: &PD, emit: &mut dyn FnMut(&mut Out, String)| {
                let n = pd.len();
                let big = n > small;
                let (kh, ji) = if big { ("khbig", "jinvbig") } else { ("kh", "jinv") };
                emit(o, format!("{} {}", kh, fmt_pd(pd)));
                emit(o, format!("{} mirror {} {}", ji, fmt_pd(pd), fmt_pd(&mirror_pd(pd))));
                let v0 = relabel_random(r, pd);
                let v = reorder_random(r, &v0);
                emit(o, format!("{} same {} {}", ji, fmt_pd(pd), fmt_pd(&v)));
                if let Some(k) = add_kink(r, pd) {
                    let big2 = k.len() > small;
                    emit(o, format!("{} same {} {}", if big2 { "jinvbig" } else { "jinv" }, fmt_pd(pd), fmt_pd(&k)));
                    if !big2 { emit(o, format!("kh {}", fmt_pd(&k))); }
                }
                if !big {
                    emit(o, format!("jones {}", fmt_pd(&partial_resolve(r, pd))));
                }
            };
            // 0. fixed small cases
            for c in ["jones 0", "kh 0", "jones 1 X 0 0 1 1", "jones 1 X 0 1 1 0", "jones 1 H 0 1 1 0", "jones 1 V 0 1 1 0",
                      "kh 1 H 0 1 1 0", "kh 1 V 0 1 1 0", "kh 1 X 0 0 1 1", "kh 3 X 1 4 2 5 X 3 6 4 1 X 5 2 6 3",
                      "kh 4 X 4 2 5 1 X 8 6 1 5 X 6 3 7 4 X 2 7 3 8", "kh 2 X 4 1 3 2 X 2 3 1 4",
                      "jones 2 X 0 2 0 3 X 1 3 1 2", "jones 1 X 0 1 0 1"] {
                emit(&mut o, c.to_string());
            }
            // 1. corpus
            let cps = corpus();
            let mut pool: Vec<PD> = vec![];
            for (idx, (_name, code)) in cps.iter().enumerate() {
                let n = code.len();
                let take = if thorough { n <= 10 || idx % 4 == (seed % 4) as usize }
                           else { n <= 7 || (n <= 9 && idx % 4 == (seed % 4) as usize) || idx % 60 == (seed % 60) as usize };
                if !take { continue; }
                let pd = pd_of_code(code);
                battery(&mut o, &mut r, &pd, &mut emit);
                pool.push(pd);
            }
            // 2. braid closures and braid moves
            let nb = if thorough { 1500 } else { 160 };
            for k in 0..nb {
                let strands = 2 + r.below(if k % 3 == 0 { 5 } else { 3 }) as usize;
                let maxlen = if k % 8 == 0 { if thorough { 16 } else { 13 } } else { 9 };
                let len = (strands - 1 + r.below(maxlen as u64 - strands as u64 + 2) as usize).min(maxlen);
                let (strands, w) = if k % 6 == 5 { over_component_word(&mut r, strands.min(4), len.min(8)) } else { (strands, full_word(&mut r, strands, len)) };
                let Some(code) = gen_closure(strands, &w) else { continue };
                let pd = pd_of_code(&code);
                if pd.len() > (if thorough { 16 } else { 14 }) { continue; }
                battery(&mut o, &mut r, &pd, &mut emit);
                // a sequence of moves
                let (mut s2, mut w2) = (strands, w.clone());
                for _ in 0..1 + r.below(3) { let (a, b) = braid_move(&mut r, s2, &w2); s2 = a; w2 = b; }
                if let Some(code2) = gen_closure(s2, &w2) {
                    let pd2 = pd_of_code(&code2);
                    if pd2.len() <= 16 {
                        let big = pd.len() > small || pd2.len() > small;
                        emit(&mut o, format!("{} same {} {}", if big { "jinvbig" } else { "jinv" }, fmt_pd(&pd), fmt_pd(&pd2)));
                    }
                }
                if pd.len() <= 8 { pool.push(pd); }
            }
            // 3. split unions (Jones multiplies; here only the identity Euler = Jones and invariance)
            let nsu = if thorough { 150 } else { 25 };
            for _ in 0..nsu {
                if pool.len() < 2 { break; }
                let a = r.pick(&pool).clone();
                let b = r.pick(&pool).clone();
                if a.len() + b.len() > 14 { continue; }
                let u = split_union(&mut r, &a, &b);
                battery(&mut o, &mut r, &u, &mut emit);
            }
            // 4. random valid (mostly non-planar) codes, all crossing types: exact correspondence of jones
            let nrv = if thorough { 3000 } else { 400 };
            for k in 0..nrv {
                let n = 1 + r.below(if k % 10 == 0 { 9 } else { 6 }) as usize;
                let pd = random_valid(&mut r, n, k % 2 == 0);
                emit(&mut o, format!("jones {}", fmt_pd(&pd)));
                if k % 5 == 0 { emit(&mut o, format!("jinv mirror {} {}", fmt_pd(&pd), fmt_pd(&mirror_pd(&pd)))); }
            }
            // 6. diagrams with more than 32 crossings (state words longer than 32 bits): a braid word u u^-1 v or a
            //    shuffled 2-strand word, isotopic to the closure of the short word v; Euler characteristic of the
            //    library's homology of the long closure vs the model's Jones polynomial of the short one
            let nh = if thorough { 24 } else { 6 };
            for k in 0..nh {
                let (strands, long, short): (usize, Vec<i32>, Vec<i32>) = if k % 2 == 0 {
                    let m = 1 + r.below(4) as i32;
                    let sg: i32 = if r.bool() { 1 } else { -1 };
                    let extra = 16 + r.below(6) as usize;
                    let mut w: Vec<i32> = vec![];
                    for _ in 0..(m as usize + extra) { w.push(sg); }
                    for _ in 0..extra { w.push(-sg); }
                    // shuffle
                    for i in (1..w.len()).rev() { let j = r.below(i as u64 + 1) as usize; w.swap(i, j); }
                    (2, w, vec![sg; m as usize])
                } else {
                    let lv = 2 + r.below(3) as usize;
                    let v = full_word(&mut r, 3, lv);
                    let lu = 16 + r.below(4) as usize;
                    let u = random_word(&mut r, 3, lu);
                    let mut w = u.clone();
                    for x in u.iter().rev() { w.push(-*x); }
                    w.extend(v.iter());
                    (3, w, v)
                };
                let (Some(c1), Some(c2)) = (gen_closure(strands, &long), gen_closure(strands, &short)) else { continue };
                emit(&mut o, format!("khhuge {} {}", fmt_pd(&pd_of_code(&c1)), fmt_pd(&pd_of_code(&c2))));
            }
            // 5. malformed stream
            let nm = if thorough { 3000 } else { 400 };
            for _ in 0..nm {
                let pd = malformed(&mut r);
                emit(&mut o, format!("jones {}", fmt_pd(&pd)));
            }
            o.finish();
        }
    }
}
