//! C02 harness: pairs of diagrams of the same oriented link (related by random sequences of braid
//! relations, Markov moves, conjugation, Reidemeister I kinks, relabelling, crossing reordering, global
//! orientation reversal) or a diagram and its mirror; the library's bigraded tables of both.
//! case line:  rel <SAME|MIRROR> <np1> <nn1> <np2> <nn2> <oracle:0|1> ; <link1> ; <link2>
//! result   :  <tables of link1> || <tables of link2>      (segments Z<red>[..] Q<red>[..] F2<red>[..] F3<red>[..])
use yui_link::Link;
use yui_verif_harness::khutil::*;
use yui_verif_harness::*;

fn tables(l: &Link) -> String {
    let mut out = vec![];
    let knot = l.components().len() == 1;
    for red in [false, true] {
        if red && (!knot || l.is_empty()) { continue; }
        let r = red as u8;
        out.push(format!("Z{}[{}]", r, kh_table_bigraded::<i64>(l, red, true, false)));
        out.push(format!("Q{}[{}]", r, kh_table_bigraded::<Q>(l, red, false, false)));
        out.push(format!("F2{}[{}]", r, kh_table_bigraded::<F2>(l, red, false, false)));
        out.push(format!("F3{}[{}]", r, kh_table_bigraded::<F3>(l, red, false, false)));
    }
    out.join(" ")
}

fn run_case(line: &str) -> String {
    let parts: Vec<&str> = line.split(';').collect();
    let (l1, l2) = (parse_link(parts[1]), parse_link(parts[2]));
    let t1 = guarded(|| tables(&l1)).unwrap_or("P".into());
    let t2 = guarded(|| tables(&l2)).unwrap_or("P".into());
    format!("{} || {}", t1, t2)
}

/// one random move on a braid word; returns the new (strands, word)
fn braid_move(r: &mut Rng, s: usize, w: &Vec<i32>) -> (usize, Vec<i32>, &'static str) {
    let mut w = w.clone();
    let n = w.len();
    match r.below(7) {
        0 => {
            // conjugation
            let i = 1 + r.below(s as u64 - 1) as i32;
            let e = if r.bool() { i } else { -i };
            let mut v = vec![e];
            v.extend(w);
            v.push(-e);
            (s, v, "conj")
        }
        1 => {
            if n > 0 { let k = r.below(n as u64) as usize; w.rotate_left(k); }
            (s, w, "rot")
        }
        2 => {
            // Reidemeister II
            let i = 1 + r.below(s as u64 - 1) as i32;
            let e = if r.bool() { i } else { -i };
            let k = r.below(n as u64 + 1) as usize;
            w.insert(k, -e);
            w.insert(k, e);
            (s, w, "r2")
        }
        3 => {
            // Reidemeister III: (i, j, i) -> (j, i, j), |i - j| = 1, equal signs
            for k in 0..n.saturating_sub(2) {
                let (a, b, c) = (w[k], w[k + 1], w[k + 2]);
                if a == c && (a.abs() - b.abs()).abs() == 1 && (a > 0) == (b > 0) {
                    w[k] = b; w[k + 1] = a; w[k + 2] = b;
                    return (s, w, "r3");
                }
            }
            // create a place where it applies: insert j j^-1 then nothing - fall back to far commutation
            (s, w, "none")
        }
        4 => {
            for k in 0..n.saturating_sub(1) {
                if (w[k].abs() - w[k + 1].abs()).abs() >= 2 { w.swap(k, k + 1); return (s, w, "commute"); }
            }
            (s, w, "none")
        }
        _ => {
            // Markov stabilisation
            let e = s as i32;
            w.push(if r.bool() { e } else { -e });
            (s + 1, w, "markov")
        }
    }
}

fn reverse_all(pd: &PD) -> PD {
    pd.iter().map(|x| [x[2], x[3], x[0], x[1]]).collect()
}

fn case_line(kind: &str, l1: &Link, l2: &Link, oracle: bool) -> Option<String> {
    let (p1, n1) = guarded(|| l1.signed_crossing_nums())?;
    let (p2, n2) = guarded(|| l2.signed_crossing_nums())?;
    Some(format!("rel {} {} {} {} {} {} ; {} ; {}", kind, p1, n1, p2, n2, oracle as u8, link_str(l1), link_str(l2)))
}

fn main() {
    quiet_panics();
    match parse_args() {
        Mode::Replay { file, out } => {
            let mut o = Out::new(&out);
            for l in read_lines(&file) {
                let res = guarded(|| run_case(&l)).unwrap_or("TOP-PANIC".into());
                o.case(&l, &res);
            }
            o.finish();
        }
        Mode::Gen { seed, thorough, out } => {
            let mut o = Out::new(&out);
            let mut r = Rng::new(seed);
            let mut cases: Vec<String> = vec![];
            let npairs = if thorough { 800 } else { 150 };
            let omax = if thorough { 8 } else { 6 };
            for k in 0..npairs {
                let s = 2 + r.below(3) as usize;
                let big = k % 3 == 2; // every third pair is larger (implementation only)
                let len0 = if big { 6 + r.below(5) as usize } else { s + r.below(3) as usize };
                let mut word: Vec<i32>;
                loop {
                    word = (0..len0.max(s - 1)).map(|_| { let i = 1 + r.below(s as u64 - 1) as i32; if r.bool() { i } else { -i } }).collect();
                    if braid_closure(s, &word).is_some() { break; }
                }
                let pd1 = braid_closure(s, &word).unwrap();
                // a sequence of up to 4 moves
                let (mut s2, mut w2) = (s, word.clone());
                let nm = 1 + r.below(4);
                let mut names = vec![];
                for _ in 0..nm {
                    let (a, b, nme) = braid_move(&mut r, s2, &w2);
                    if braid_closure(a, &b).is_some() { s2 = a; w2 = b; names.push(nme); }
                }
                let mut pd2 = braid_closure(s2, &w2).unwrap();
                // diagram-level moves
                if r.chance(1, 3) { let c = r.below(pd2.len() as u64) as usize; pd2 = add_kink(&pd2, c, r.below(4)); }
                if r.chance(1, 3) { pd2 = reverse_all(&pd2); }
                if r.bool() { pd2 = relabel(&pd2, &mut r); }
                if r.bool() { pd2 = shuffle_crossings(&pd2, &mut r); }
                let (l1, mut l2) = (Link::from_pd_code(pd1.clone()), Link::from_pd_code(pd2));
                if k % 4 == 1 {
                    // the moved braid closed by the LIBRARY (Braid::closure): the observation point of the property
                    // for Markov moves; the first diagram stays the generator-side closure of the original word
                    if let Some(lc) = guarded(|| yui_link::Braid::new(s2, w2.iter().map(|&x| yui_link::Generator::from(x)).collect()).closure()) {
                        l2 = lc;
                    }
                }
                let oracle = l1.crossing_num() <= omax && l2.crossing_num() <= omax;
                if let Some(c) = case_line("SAME", &l1, &l2, oracle) { cases.push(c); }
                if k % 2 == 0 {
                    let m = l1.mirror();
                    if let Some(c) = case_line("MIRROR", &l1, &m, l1.crossing_num() <= omax) { cases.push(c); }
                }
            }
            // table knots: mirror pairs and kinked versions
            for (_, pd) in table_knots() {
                let l = Link::from_pd_code(pd.clone());
                if let Some(c) = case_line("MIRROR", &l, &l.mirror(), true) { cases.push(c); }
                let k = Link::from_pd_code(add_kink(&pd, 0, r.below(4)));
                if let Some(c) = case_line("SAME", &l, &k, true) { cases.push(c); }
                let rv = Link::from_pd_code(reverse_all(&pd));
                if let Some(c) = case_line("SAME", &l, &rv, true) { cases.push(c); }
            }
            use rayon::prelude::*;
            let results: Vec<String> = cases.par_iter().map(|c| guarded(|| run_case(c)).unwrap_or("TOP-PANIC".into())).collect();
            for (c, res) in cases.iter().zip(results.iter()) { o.case(c, res); }
            o.finish();
        }
    }
}
