//! C13 correspondence harness: SpMat / SpVec / Mat / Trans of yui-matrix vs the Coq model
//! (Model/Dense.v, Model/Sparse.v, Model/Trans.v).
//!
//! A case is a small stack program (reverse Polish): `<ring> tok tok ...` with ring in {Z, Q, F5}.
//! Both sides evaluate the program - this harness with the real API, ocaml/c13_driver.ml with the
//! extracted model - and print the final stack (every value rendered with its shape, its stored pattern,
//! its dense rendering and its predicates), or `P@k` when the token at position k panicked.
//! Every call form the API offers for an operator (by value / by reference / assigning) is evaluated
//! and the forms must agree (`FORMS@k` otherwise).
//!
//! The crates sprs and nalgebra are not dependencies of the harness crate, so their types cannot be
//! named here: permutations are kept as index vectors and turned into a `sprs::PermOwned` at each use
//! through the public `pivot::perms_by_pivots` (= util::perm_for_indices, which is thereby covered too),
//! and the evaluator is instantiated per ring by a macro instead of being generic.
use yui::{Ratio, FF};
use yui_matrix::dense::Mat;
use yui_matrix::sparse::pivot::perms_by_pivots;
use yui_matrix::sparse::{MatTrait, SpMat, SpVec, Trans};
use yui_verif_harness::*;

fn is_valid_perm(v: &[usize]) -> bool {
    let n = v.len();
    let mut seen = vec![false; n];
    for &x in v {
        if x >= n || seen[x] {
            return false;
        }
        seen[x] = true;
    }
    true
}

/// the sprs permutation with image list `v` (at(i) = v[i]); `v` must be a valid permutation.
/// perm_for_indices(n, idx) for a full index list is the inverse of idx, so the inverse is passed.
macro_rules! mkperm {
    ($v:expr) => {{
        let v: &Vec<usize> = $v;
        let n = v.len();
        let mut inv = vec![0usize; n];
        for (i, &x) in v.iter().enumerate() {
            inv[x] = i;
        }
        let piv: Vec<(usize, usize)> = inv.iter().map(|&i| (i, i)).collect();
        perms_by_pivots(&SpMat::<i64>::zero((n, n)), &piv).0
    }};
}

fn mutation() -> u32 {
    std::env::var("C13_MUT").ok().and_then(|s| s.parse().ok()).unwrap_or(0)
}

fn b01(x: bool) -> &'static str {
    if x { "1" } else { "0" }
}

macro_rules! ring_mod {
    ($m:ident, $R:ty, $parse:expr, $show:expr) => {
        mod $m {
            use super::*;
            pub type R = $R;
            fn parse(s: &str) -> R {
                let f: fn(&str) -> R = $parse;
                f(s)
            }
            fn show(x: &R) -> String {
                let f: fn(&R) -> String = $show;
                f(x)
            }

            #[derive(Clone)]
            enum Val {
                M(SpMat<R>),
                V(SpVec<R>),
                D(Mat<R>),
                P(Vec<usize>),
                T(Trans<R>),
            }

            fn show_list(xs: &[R]) -> String {
                xs.iter().map(show).collect::<Vec<_>>().join(" ")
            }

            fn dense_data(d: &Mat<R>) -> Vec<R> {
                let (m, n) = d.shape();
                let mut out = vec![];
                for i in 0..m {
                    for j in 0..n {
                        out.push(d[(i, j)].clone());
                    }
                }
                out
            }

            fn show_d(d: &Mat<R>) -> String {
                let (m, n) = d.shape();
                let it: Vec<String> = d.iter().map(|(i, j, a)| format!("{} {} {}", i, j, show(a))).collect();
                format!(
                    "D {} {} sq={} z={} id={} dg={} [{}] it=[{}]",
                    m, n, b01(d.is_square()), b01(d.is_zero()), b01(d.is_id()), b01(d.is_diag()),
                    show_list(&dense_data(d)), it.join(",")
                )
            }

            fn show_m(a: &SpMat<R>) -> String {
                let (m, n) = a.shape();
                let trip: Vec<(usize, usize, R)> = a.iter().map(|(i, j, x)| (i, j, x.clone())).collect();
                // data() / disassemble() must describe the same stored entries as iter()
                let (offs, rows, vals) = a.data();
                let mut from_data = vec![];
                if offs.len() == n + 1 {
                    for j in 0..n {
                        for k in offs[j]..offs[j + 1] {
                            from_data.push((rows[k], j, vals[k].clone()));
                        }
                    }
                }
                let (o2, r2, v2) = a.clone().disassemble();
                if from_data != trip || o2 != offs || r2 != rows || v2 != vals || a.nnz() != trip.len() {
                    return "DATA-DIFFER".into();
                }
                let nzs: Vec<(usize, usize, R)> = a.iter_nz().map(|(i, j, x)| (i, j, x.clone())).collect();
                let nz_expected: Vec<(usize, usize, R)> =
                    trip.iter().filter(|e| e.2 != parse("0")).cloned().collect();
                if nzs != nz_expected {
                    return "ITERNZ-DIFFER".into();
                }
                let d1 = guarded(|| a.clone().into_dense());
                let d2 = guarded(|| Mat::from(a.clone()));
                let dense = match (d1, d2) {
                    (Some(x), Some(y)) if x == y && x.shape() == (m, n) => show_list(&dense_data(&x)),
                    (None, None) => "P".into(),
                    _ => return "DENSE-FORMS-DIFFER".into(),
                };
                let st: Vec<String> = trip.iter().map(|(i, j, x)| format!("{} {} {}", i, j, show(x))).collect();
                format!(
                    "M {} {} nnz={} z={} id={} [{}] [{}]",
                    m, n, a.nnz(), b01(if mutation() == 3 { a.nnz() == 0 } else { a.is_zero() }), b01(a.is_id()), st.join(","), dense
                )
            }

            fn show_v(v: &SpVec<R>) -> String {
                let st: Vec<String> = v.iter().map(|(i, x)| format!("{} {}", i, show(x))).collect();
                let (rows, vals) = v.data();
                let viad: Vec<String> = rows.iter().zip(vals.iter()).map(|(i, x)| format!("{} {}", i, show(x))).collect();
                if viad != st {
                    return "DATA-DIFFER".into();
                }
                let d1 = guarded(|| v.to_dense());
                let d2 = guarded(|| v.clone().into_vec());
                let d3 = guarded(|| Vec::<R>::from(v.clone()));
                let dense = match (d1, d2, d3) {
                    (Some(x), Some(y), Some(z)) if x == y && y == z => show_list(&x),
                    (None, None, None) => "P".into(),
                    _ => return "DENSE-FORMS-DIFFER".into(),
                };
                format!("V {} z={} [{}] [{}]", v.dim(), b01(v.is_zero()), st.join(","), dense)
            }

            fn show_t(t: &Trans<R>) -> String {
                let f = guarded(|| t.forward_mat()).map(|a| show_m(&a)).unwrap_or("P".into());
                let b = guarded(|| t.backward_mat()).map(|a| show_m(&a)).unwrap_or("P".into());
                format!("T {} {} id={} F={} B={}", t.src_dim(), t.tgt_dim(), b01(t.is_id()), f, b)
            }

            fn show_val(v: &Val) -> String {
                match v {
                    Val::M(a) => show_m(a),
                    Val::V(a) => show_v(a),
                    Val::D(a) => show_d(a),
                    Val::P(p) => format!("P {} [{}]", p.len(), p.iter().map(|x| x.to_string()).collect::<Vec<_>>().join(" ")),
                    Val::T(t) => show_t(t),
                }
            }

            enum Stop {
                Panic,
                Forms,
                Err(String),
            }

            /// all forms must agree: either every form panicked or every form gave the same value
            fn agree<T: PartialEq>(forms: Vec<Option<T>>) -> Result<T, Stop> {
                let mut it = forms.into_iter();
                let first = it.next().unwrap();
                for f in it {
                    if f != first {
                        return Err(Stop::Forms);
                    }
                }
                first.ok_or(Stop::Panic)
            }

            struct Ev<'a> {
                t: &'a [&'a str],
                k: usize,
                st: Vec<Val>,
            }

            impl<'a> Ev<'a> {
                fn nat(&mut self) -> Result<usize, Stop> {
                    let s = self.t.get(self.k).ok_or(Stop::Err("eof".into()))?;
                    self.k += 1;
                    s.parse::<usize>().map_err(|_| Stop::Err(format!("nat {}", s)))
                }
                fn sc(&mut self) -> Result<R, Stop> {
                    let s = self.t.get(self.k).ok_or(Stop::Err("eof".into()))?;
                    self.k += 1;
                    Ok(parse(s))
                }
                fn nats(&mut self, k: usize) -> Result<Vec<usize>, Stop> {
                    (0..k).map(|_| self.nat()).collect()
                }
                fn scs(&mut self, k: usize) -> Result<Vec<R>, Stop> {
                    (0..k).map(|_| self.sc()).collect()
                }
                fn trip(&mut self, k: usize) -> Result<Vec<(usize, usize, R)>, Stop> {
                    (0..k).map(|_| Ok((self.nat()?, self.nat()?, self.sc()?))).collect()
                }
                fn pairs(&mut self, k: usize) -> Result<Vec<(usize, R)>, Stop> {
                    (0..k).map(|_| Ok((self.nat()?, self.sc()?))).collect()
                }
                fn pop(&mut self) -> Result<Val, Stop> {
                    self.st.pop().ok_or(Stop::Err("underflow".into()))
                }
                fn pop_m(&mut self) -> Result<SpMat<R>, Stop> {
                    match self.pop()? { Val::M(a) => Ok(a), _ => Err(Stop::Err("type M".into())) }
                }
                fn pop_v(&mut self) -> Result<SpVec<R>, Stop> {
                    match self.pop()? { Val::V(a) => Ok(a), _ => Err(Stop::Err("type V".into())) }
                }
                fn pop_d(&mut self) -> Result<Mat<R>, Stop> {
                    match self.pop()? { Val::D(a) => Ok(a), _ => Err(Stop::Err("type D".into())) }
                }
                fn pop_p(&mut self) -> Result<Vec<usize>, Stop> {
                    match self.pop()? { Val::P(a) => Ok(a), _ => Err(Stop::Err("type P".into())) }
                }
                fn pop_t(&mut self) -> Result<Trans<R>, Stop> {
                    match self.pop()? { Val::T(a) => Ok(a), _ => Err(Stop::Err("type T".into())) }
                }
                fn g<T>(&self, f: impl FnOnce() -> T) -> Result<T, Stop> {
                    guarded(f).ok_or(Stop::Panic)
                }

                fn step(&mut self, op: &str) -> Result<(), Stop> {
                    match op {
                        // ---------- stack ----------
                        "dup" => {
                            let a = self.pop()?;
                            self.st.push(a.clone());
                            self.st.push(a);
                        }
                        "swap" => {
                            let b = self.pop()?;
                            let a = self.pop()?;
                            self.st.push(b);
                            self.st.push(a);
                        }
                        "over" => {
                            let b = self.pop()?;
                            let a = self.pop()?;
                            self.st.push(a.clone());
                            self.st.push(b);
                            self.st.push(a);
                        }
                        "drop" => {
                            self.pop()?;
                        }
                        // ---------- permutations ----------
                        "p" => {
                            let k = self.nat()?;
                            let v = self.nats(k)?;
                            if !is_valid_perm(&v) {
                                return Err(Stop::Panic);
                            }
                            // build it once through the implementation and read it back
                            let w = self.g(|| {
                                let p = mkperm!(&v);
                                (0..p.dim()).map(|i| p.at(i)).collect::<Vec<usize>>()
                            })?;
                            self.st.push(Val::P(w));
                        }
                        "pid" => {
                            let n = self.nat()?;
                            self.st.push(Val::P((0..n).collect()));
                        }
                        "pfi" => {
                            let n = self.nat()?;
                            let k = self.nat()?;
                            let idx = self.nats(k)?;
                            let w = self.g(|| {
                                let piv: Vec<(usize, usize)> = idx.iter().map(|&i| (i, i)).collect();
                                let p = perms_by_pivots(&SpMat::<i64>::zero((n, n)), &piv).0;
                                (0..p.dim()).map(|i| p.at(i)).collect::<Vec<usize>>()
                            })?;
                            self.st.push(Val::P(w));
                        }
                        // ---------- SpMat constructors ----------
                        "csc" => {
                            let (m, n, k) = (self.nat()?, self.nat()?, self.nat()?);
                            let es = self.trip(k)?;
                            let a = self.g(|| {
                                let cols = (0..n).map(|j| {
                                    SpVec::from_sorted_entries(m, es.iter().filter(|e| e.1 == j).map(|e| (e.0, e.2.clone())))
                                });
                                SpMat::from_col_vecs(m, cols.collect::<Vec<_>>())
                            })?;
                            self.st.push(Val::M(a));
                        }
                        "fe" => {
                            let (m, n, k) = (self.nat()?, self.nat()?, self.nat()?);
                            let es = self.trip(k)?;
                            let a = if mutation() == 5 {
                                self.g(|| {
                                    let mut last: Vec<(usize, usize, R)> = vec![];
                                    for e in es.iter() {
                                        last.retain(|x| !(x.0 == e.0 && x.1 == e.1));
                                        last.push(e.clone());
                                    }
                                    SpMat::from_entries((m, n), last)
                                })?
                            } else { self.g(|| SpMat::from_entries((m, n), es.clone()))? };
                            self.st.push(Val::M(a));
                        }
                        "fdd" => {
                            let (m, n, k) = (self.nat()?, self.nat()?, self.nat()?);
                            let xs = self.scs(k)?;
                            let a = self.g(|| SpMat::from_dense_data((m, n), xs.clone()))?;
                            self.st.push(Val::M(a));
                        }
                        "zero" => {
                            let (m, n) = (self.nat()?, self.nat()?);
                            let a = agree(vec![
                                guarded(|| SpMat::<R>::zero((m, n))),
                                if (m, n) == (0, 0) { guarded(SpMat::<R>::default) } else { guarded(|| SpMat::<R>::zero((m, n))) },
                            ])?;
                            self.st.push(Val::M(a));
                        }
                        "id" => {
                            let n = self.nat()?;
                            let a = self.g(|| SpMat::<R>::id(n))?;
                            self.st.push(Val::M(a));
                        }
                        "fcv" => {
                            let (m, k) = (self.nat()?, self.nat()?);
                            let mut vs = vec![];
                            for _ in 0..k {
                                vs.push(self.pop_v()?);
                            }
                            vs.reverse();
                            let a = self.g(|| SpMat::from_col_vecs(m, vs.clone()))?;
                            self.st.push(Val::M(a));
                        }
                        "frp" => {
                            let p = self.pop_p()?;
                            let a = self.g(|| SpMat::<R>::from_row_perm(mkperm!(&p).view()))?;
                            self.st.push(Val::M(a));
                        }
                        "fcp" => {
                            let p = self.pop_p()?;
                            let a = self.g(|| SpMat::<R>::from_col_perm(mkperm!(&p).view()))?;
                            self.st.push(Val::M(a));
                        }
                        "ofd" => {
                            let d = self.pop_d()?;
                            let a = agree(vec![guarded(|| d.clone().into_sparse()), guarded(|| SpMat::from(d.clone()))])?;
                            self.st.push(Val::M(a));
                        }
                        // ---------- SpMat operations ----------
                        "tr" => {
                            let a = self.pop_m()?;
                            let r = self.g(|| a.transpose())?;
                            self.st.push(Val::M(r));
                        }
                        "neg" => {
                            let a = self.pop_m()?;
                            let r = agree(vec![guarded(|| -&a), guarded(|| -(a.clone()))])?;
                            self.st.push(Val::M(r));
                        }
                        "add" | "sub" | "mul" => {
                            let b = self.pop_m()?;
                            let a = self.pop_m()?;
                            macro_rules! forms {
                                ($o:tt, $oa:tt) => {
                                    vec![
                                        guarded(|| &a $o &b),
                                        guarded(|| a.clone() $o &b),
                                        guarded(|| &a $o b.clone()),
                                        guarded(|| a.clone() $o b.clone()),
                                        guarded(|| { let mut x = a.clone(); x $oa &b; x }),
                                        guarded(|| { let mut x = a.clone(); x $oa b.clone(); x }),
                                    ]
                                };
                            }
                            let r = agree(match op {
                                "add" => forms!(+, +=),
                                "sub" => forms!(-, -=),
                                _ => forms!(*, *=),
                            })?;
                            self.st.push(Val::M(r));
                        }
                        "perm" => {
                            let q = self.pop_p()?;
                            let p = self.pop_p()?;
                            let a = self.pop_m()?;
                            let r = if mutation() == 4 {
                                self.g(|| { let (pp, qq) = (mkperm!(&p), mkperm!(&q)); a.permute(pp.inv().view(), qq.inv().view()) })?
                            } else { self.g(|| a.permute(mkperm!(&p).view(), mkperm!(&q).view()))? };
                            self.st.push(Val::M(r));
                        }
                        "permr" => {
                            let p = self.pop_p()?;
                            let a = self.pop_m()?;
                            let r = self.g(|| a.permute_rows(mkperm!(&p).view()))?;
                            self.st.push(Val::M(r));
                        }
                        "permc" => {
                            let p = self.pop_p()?;
                            let a = self.pop_m()?;
                            let r = self.g(|| a.permute_cols(mkperm!(&p).view()))?;
                            self.st.push(Val::M(r));
                        }
                        "sm" => {
                            let (i0, i1, j0, j1) = (self.nat()?, self.nat()?, self.nat()?, self.nat()?);
                            let a = self.pop_m()?;
                            let r = if mutation() == 2 {
                                self.g(|| {
                                    assert!(i0 <= i1 && i1 <= a.nrows() && j0 <= j1 && j1 <= a.ncols());
                                    a.extract((i1 - i0, j1 - j0), |i, j| {
                                        if (i0..i1).contains(&i) && (j0..j1).contains(&j) { Some((i - i0, j)) } else { None }
                                    })
                                })?
                            } else { self.g(|| a.submat(i0..i1, j0..j1))? };
                            self.st.push(Val::M(r));
                        }
                        "smr" => {
                            let (i0, i1) = (self.nat()?, self.nat()?);
                            let a = self.pop_m()?;
                            let r = self.g(|| a.submat_rows(i0..i1))?;
                            self.st.push(Val::M(r));
                        }
                        "smc" => {
                            let (j0, j1) = (self.nat()?, self.nat()?);
                            let a = self.pop_m()?;
                            let r = self.g(|| a.submat_cols(j0..j1))?;
                            self.st.push(Val::M(r));
                        }
                        "exmod" => {
                            // extract with a non-injective closure that also drops entries and may panic
                            let (m, n) = (self.nat()?, self.nat()?);
                            let a = self.pop_m()?;
                            let r = self.g(|| {
                                a.extract((m, n), |i, j| if (i + j) % 3 == 2 { None } else { Some((i % m, j % n)) })
                            })?;
                            self.st.push(Val::M(r));
                        }
                        "div4" => {
                            let (k, l) = (self.nat()?, self.nat()?);
                            let a = self.pop_m()?;
                            let [x, y, z, w] = self.g(|| a.divide4((k, l)))?;
                            self.st.extend([Val::M(x), Val::M(y), Val::M(z), Val::M(w)]);
                        }
                        "comb" => {
                            let d = self.pop_m()?;
                            let c = self.pop_m()?;
                            let b = self.pop_m()?;
                            let a = self.pop_m()?;
                            let r = self.g(|| SpMat::combine_blocks([&a, &b, &c, &d]))?;
                            self.st.push(Val::M(r));
                        }
                        "concat" => {
                            let b = self.pop_m()?;
                            let a = self.pop_m()?;
                            let r = self.g(|| a.concat(&b))?;
                            self.st.push(Val::M(r));
                        }
                        "stack" => {
                            let b = self.pop_m()?;
                            let a = self.pop_m()?;
                            let r = self.g(|| a.stack(&b))?;
                            self.st.push(Val::M(r));
                        }
                        "extc" => {
                            let b = self.pop_m()?;
                            let a = self.pop_m()?;
                            let r = self.g(|| {
                                let mut x = a.clone();
                                x.extend_cols(b.clone());
                                x
                            })?;
                            self.st.push(Val::M(r));
                        }
                        "tod" => {
                            let a = self.pop_m()?;
                            let r = agree(vec![guarded(|| a.clone().into_dense()), guarded(|| Mat::from(a.clone()))])?;
                            self.st.push(Val::D(r));
                        }
                        "colv" => {
                            let j = self.nat()?;
                            let a = self.pop_m()?;
                            let r = self.g(|| a.col_vec(j))?;
                            self.st.push(Val::V(r));
                        }
                        // ---------- SpVec ----------
                        "vfe" => {
                            let (dim, k) = (self.nat()?, self.nat()?);
                            let es = self.pairs(k)?;
                            let r = self.g(|| SpVec::from_entries(dim, es.clone()))?;
                            self.st.push(Val::V(r));
                        }
                        "vfse" => {
                            let (dim, k) = (self.nat()?, self.nat()?);
                            let es = self.pairs(k)?;
                            let r = self.g(|| SpVec::from_sorted_entries(dim, es.clone()))?;
                            self.st.push(Val::V(r));
                        }
                        "vzero" => {
                            let dim = self.nat()?;
                            let r = agree(vec![
                                guarded(|| SpVec::<R>::zero(dim)),
                                if dim == 0 { guarded(SpVec::<R>::default) } else { guarded(|| SpVec::<R>::zero(dim)) },
                            ])?;
                            self.st.push(Val::V(r));
                        }
                        "vunit" => {
                            let (n, i) = (self.nat()?, self.nat()?);
                            let r = self.g(|| SpVec::<R>::unit(n, i))?;
                            self.st.push(Val::V(r));
                        }
                        "vfv" => {
                            let k = self.nat()?;
                            let xs = self.scs(k)?;
                            let r = self.g(|| SpVec::from(xs.clone()))?;
                            self.st.push(Val::V(r));
                        }
                        "vmat" => {
                            let v = self.pop_v()?;
                            let r = agree(vec![guarded(|| v.clone().into_mat()), guarded(|| SpMat::from(v.clone()))])?;
                            self.st.push(Val::M(r));
                        }
                        "vperm" => {
                            let p = self.pop_p()?;
                            let v = self.pop_v()?;
                            let r = self.g(|| v.permute(mkperm!(&p).view()))?;
                            self.st.push(Val::V(r));
                        }
                        "vsub" => {
                            let (s, e) = (self.nat()?, self.nat()?);
                            let v = self.pop_v()?;
                            let r = self.g(|| v.subvec(s..e))?;
                            self.st.push(Val::V(r));
                        }
                        "vstack" => {
                            let w = self.pop_v()?;
                            let v = self.pop_v()?;
                            let r = self.g(|| v.stack(&w))?;
                            self.st.push(Val::V(r));
                        }
                        "vsplit" => {
                            let k = self.nat()?;
                            let v = self.pop_v()?;
                            let (x, y) = if mutation() == 6 {
                                self.g(|| {
                                    let (x, y) = v.split(k);
                                    if k < v.dim() && k > 0 {
                                        let x2 = SpVec::from_entries(k, v.iter().filter(|e| e.0 <= k).map(|(i, a)| (i.min(k - 1), a.clone())));
                                        (x2, y)
                                    } else { (x, y) }
                                })?
                            } else { self.g(|| v.split(k))? };
                            self.st.extend([Val::V(x), Val::V(y)]);
                        }
                        "vstackn" => {
                            let k = self.nat()?;
                            let mut vs = vec![];
                            for _ in 0..k {
                                vs.push(self.pop_v()?);
                            }
                            vs.reverse();
                            let r = self.g(|| SpVec::stack_vecs(vs.clone()))?;
                            self.st.push(Val::V(r));
                        }
                        "vneg" => {
                            let v = self.pop_v()?;
                            let r = agree(vec![guarded(|| -&v), guarded(|| -(v.clone()))])?;
                            self.st.push(Val::V(r));
                        }
                        "vadd" | "vsubt" => {
                            let b = self.pop_v()?;
                            let a = self.pop_v()?;
                            macro_rules! forms {
                                ($o:tt, $oa:tt) => {
                                    vec![
                                        guarded(|| &a $o &b),
                                        guarded(|| a.clone() $o &b),
                                        guarded(|| &a $o b.clone()),
                                        guarded(|| a.clone() $o b.clone()),
                                        guarded(|| { let mut x = a.clone(); x $oa &b; x }),
                                        guarded(|| { let mut x = a.clone(); x $oa b.clone(); x }),
                                    ]
                                };
                            }
                            let r = agree(if op == "vadd" { forms!(+, +=) } else { forms!(-, -=) })?;
                            self.st.push(Val::V(r));
                        }
                        "mulv" => {
                            let v = self.pop_v()?;
                            let a = self.pop_m()?;
                            let r = agree(vec![
                                guarded(|| &a * &v),
                                guarded(|| a.clone() * &v),
                                guarded(|| &a * v.clone()),
                                guarded(|| a.clone() * v.clone()),
                            ])?;
                            self.st.push(Val::V(r));
                        }
                        // ---------- dense ----------
                        "dfd" => {
                            let (m, n, k) = (self.nat()?, self.nat()?, self.nat()?);
                            let xs = self.scs(k)?;
                            let r = self.g(|| Mat::from_data((m, n), xs.clone()))?;
                            self.st.push(Val::D(r));
                        }
                        "dzero" => {
                            let (m, n) = (self.nat()?, self.nat()?);
                            let r = agree(vec![
                                guarded(|| Mat::<R>::zero((m, n))),
                                if (m, n) == (0, 0) { guarded(Mat::<R>::default) } else { guarded(|| Mat::<R>::zero((m, n))) },
                            ])?;
                            self.st.push(Val::D(r));
                        }
                        "did" => {
                            let n = self.nat()?;
                            let r = self.g(|| Mat::<R>::id(n))?;
                            self.st.push(Val::D(r));
                        }
                        "ddiag" => {
                            let (m, n, k) = (self.nat()?, self.nat()?, self.nat()?);
                            let xs = self.scs(k)?;
                            let r = self.g(|| Mat::diag((m, n), xs.clone()))?;
                            self.st.push(Val::D(r));
                        }
                        "dsm" => {
                            let (i0, i1, j0, j1) = (self.nat()?, self.nat()?, self.nat()?, self.nat()?);
                            let a = self.pop_d()?;
                            let r = self.g(|| a.submat(i0..i1, j0..j1))?;
                            self.st.push(Val::D(r));
                        }
                        "dsmr" => {
                            let (i0, i1) = (self.nat()?, self.nat()?);
                            let a = self.pop_d()?;
                            let r = self.g(|| a.submat_rows(i0..i1))?;
                            self.st.push(Val::D(r));
                        }
                        "dsmc" => {
                            let (j0, j1) = (self.nat()?, self.nat()?);
                            let a = self.pop_d()?;
                            let r = self.g(|| a.submat_cols(j0..j1))?;
                            self.st.push(Val::D(r));
                        }
                        "dswr" | "dswc" => {
                            let (i, j) = (self.nat()?, self.nat()?);
                            let a = self.pop_d()?;
                            let r = self.g(|| {
                                let mut x = a.clone();
                                if op == "dswr" { x.swap_rows(i, j) } else { x.swap_cols(i, j) }
                                x
                            })?;
                            self.st.push(Val::D(r));
                        }
                        "dmr" | "dmc" => {
                            let i = self.nat()?;
                            let r_ = self.sc()?;
                            let a = self.pop_d()?;
                            let r = self.g(|| {
                                let mut x = a.clone();
                                if op == "dmr" { x.mul_row(i, &r_) } else { x.mul_col(i, &r_) }
                                x
                            })?;
                            self.st.push(Val::D(r));
                        }
                        "dart" | "dact" => {
                            let (i, j) = (self.nat()?, self.nat()?);
                            let r_ = self.sc()?;
                            let a = self.pop_d()?;
                            let r = self.g(|| {
                                let mut x = a.clone();
                                if op == "dart" { x.add_row_to(i, j, &r_) } else { x.add_col_to(i, j, &r_) }
                                x
                            })?;
                            self.st.push(Val::D(r));
                        }
                        "dle" | "dre" => {
                            let c = self.scs(4)?;
                            let (i, j) = (self.nat()?, self.nat()?);
                            let a = self.pop_d()?;
                            let r = self.g(|| {
                                let mut x = a.clone();
                                let comps = [&c[0], &c[1], &c[2], &c[3]];
                                if op == "dle" { x.left_elementary(comps, i, j) } else { x.right_elementary(comps, i, j) }
                                x
                            })?;
                            self.st.push(Val::D(r));
                        }
                        "dneg" => {
                            let a = self.pop_d()?;
                            let r = agree(vec![guarded(|| -&a), guarded(|| -(a.clone()))])?;
                            self.st.push(Val::D(r));
                        }
                        "dadd" | "dsubt" | "dmul" => {
                            let b = self.pop_d()?;
                            let a = self.pop_d()?;
                            macro_rules! forms {
                                ($o:tt, $oa:tt) => {
                                    vec![
                                        guarded(|| &a $o &b),
                                        guarded(|| a.clone() $o &b),
                                        guarded(|| &a $o b.clone()),
                                        guarded(|| a.clone() $o b.clone()),
                                        guarded(|| { let mut x = a.clone(); x $oa &b; x }),
                                        guarded(|| { let mut x = a.clone(); x $oa b.clone(); x }),
                                    ]
                                };
                            }
                            let r = agree(match op {
                                "dadd" => forms!(+, +=),
                                "dsubt" => forms!(-, -=),
                                _ => forms!(*, *=),
                            })?;
                            self.st.push(Val::D(r));
                        }
                        // ---------- Trans ----------
                        "tid" => {
                            let n = self.nat()?;
                            let t = agree_t(vec![
                                guarded(|| Trans::<R>::id(n)),
                                if n == 0 { guarded(Trans::<R>::zero) } else { guarded(|| Trans::<R>::id(n)) },
                                if n == 0 { guarded(Trans::<R>::default) } else { guarded(|| Trans::<R>::id(n)) },
                            ])?;
                            self.st.push(Val::T(t));
                        }
                        "tnew" => {
                            let b = self.pop_m()?;
                            let f = self.pop_m()?;
                            let t = self.g(|| Trans::new(f.clone(), b.clone()))?;
                            self.st.push(Val::T(t));
                        }
                        "tapp" => {
                            let b = self.pop_m()?;
                            let f = self.pop_m()?;
                            let t = self.pop_t()?;
                            let r = self.g(|| {
                                let mut x = t.clone();
                                x.append(f.clone(), b.clone());
                                x
                            })?;
                            self.st.push(Val::T(r));
                        }
                        "tappp" => {
                            let p = self.pop_p()?;
                            let t = self.pop_t()?;
                            let r = self.g(|| {
                                let mut x = t.clone();
                                x.append_perm(mkperm!(&p).view());
                                x
                            })?;
                            self.st.push(Val::T(r));
                        }
                        "tmerge" => {
                            let u = self.pop_t()?;
                            let t = self.pop_t()?;
                            let r = if mutation() == 1 {
                                self.g(|| u.merged(&t))?
                            } else { agree_t(vec![
                                guarded(|| {
                                    let mut x = t.clone();
                                    x.merge(u.clone());
                                    x
                                }),
                                guarded(|| t.merged(&u)),
                            ])? };
                            self.st.push(Val::T(r));
                        }
                        "tred" => {
                            let t = self.pop_t()?;
                            let r = self.g(|| {
                                let mut x = t.clone();
                                x.reduce();
                                x
                            })?;
                            self.st.push(Val::T(r));
                        }
                        "tsub" => {
                            let k = self.nat()?;
                            let idx = self.nats(k)?;
                            let t = self.pop_t()?;
                            let r = self.g(|| t.sub(&idx))?;
                            self.st.push(Val::T(r));
                        }
                        "tfwd" | "tbwd" => {
                            let v = self.pop_v()?;
                            let t = self.pop_t()?;
                            let r = self.g(|| if op == "tfwd" { t.forward(&v) } else { t.backward(&v) })?;
                            self.st.push(Val::V(r));
                        }
                        "tfm" | "tbm" => {
                            let t = self.pop_t()?;
                            let r = self.g(|| if op == "tfm" { t.forward_mat() } else { t.backward_mat() })?;
                            self.st.push(Val::M(r));
                        }
                        _ => return Err(Stop::Err(format!("op {}", op))),
                    }
                    Ok(())
                }
            }

            /// Trans has no PartialEq: forms are compared through their rendering
            fn agree_t(forms: Vec<Option<Trans<R>>>) -> Result<Trans<R>, Stop> {
                let shown: Vec<Option<String>> = forms.iter().map(|f| f.as_ref().map(show_t)).collect();
                for s in &shown {
                    if *s != shown[0] {
                        return Err(Stop::Forms);
                    }
                }
                forms.into_iter().next().unwrap().ok_or(Stop::Panic)
            }

            pub fn run(t: &[&str]) -> String {
                let mut ev = Ev { t, k: 0, st: vec![] };
                while ev.k < t.len() {
                    let at = ev.k;
                    let op = t[at];
                    ev.k += 1;
                    match ev.step(op) {
                        Ok(()) => {}
                        Err(Stop::Panic) => return format!("P@{}", at),
                        Err(Stop::Forms) => return format!("FORMS@{}", at),
                        Err(Stop::Err(e)) => return format!("ERR@{} {}", at, e),
                    }
                }
                let out: Vec<String> = ev.st.iter().map(show_val).collect();
                if out.is_empty() { "-".into() } else { out.join(" | ") }
            }
        }
    };
}

ring_mod!(rz, i64, |s| s.parse::<i64>().unwrap(), |x| x.to_string());
ring_mod!(
    rq,
    Ratio<i64>,
    |s| {
        let mut it = s.split('/');
        let n = it.next().unwrap().parse::<i64>().unwrap();
        let d = it.next().map(|d| d.parse::<i64>().unwrap()).unwrap_or(1);
        Ratio::new(n, d)
    },
    |x| format!("{}/{}", x.numer(), x.denom())
);
ring_mod!(rf, FF<5>, |s| FF::<5>::new(s.parse::<i32>().unwrap()), |x| x.rep().to_string());

fn run_case(line: &str) -> String {
    guarded(|| {
        let t: Vec<&str> = line.split_whitespace().collect();
        match t[0] {
            "Z" => rz::run(&t[1..]),
            "Q" => rq::run(&t[1..]),
            "F5" => rf::run(&t[1..]),
            _ => "ERR ring".into(),
        }
    })
    .unwrap_or("TOP-PANIC".into())
}

// ------------------------------------------------------------------------------------------------
// generator: programs are built together with a shadow stack of kinds and shapes, so that most
// operations are applicable; a fraction of the parameters is deliberately out of range.
// ------------------------------------------------------------------------------------------------
#[derive(Clone, Debug, PartialEq)]
enum K {
    M(usize, usize),
    V(usize),
    D(usize, usize),
    P(usize),
    T(usize, usize),
}

struct Gen {
    r: Rng,
    ring: &'static str,
    toks: Vec<String>,
    sh: Vec<K>,
    maxdim: usize,
}

const RINGS: [&str; 3] = ["Z", "Q", "F5"];

impl Gen {
    fn new(r: Rng, ring: &'static str, maxdim: usize) -> Self {
        Gen { r, ring, toks: vec![], sh: vec![], maxdim }
    }
    fn line(&self) -> String {
        format!("{} {}", self.ring, self.toks.join(" "))
    }
    fn push(&mut self, s: impl ToString) {
        self.toks.push(s.to_string());
    }
    fn dim(&mut self) -> usize {
        match self.r.below(10) {
            0 | 1 => 0,
            2 => 1,
            3 => self.maxdim,
            _ => self.r.below(self.maxdim as u64 + 1) as usize,
        }
    }
    fn scalar(&mut self) -> String {
        let small = |r: &mut Rng| -> i64 {
            match r.below(8) {
                0 | 1 => 0,
                2 => 1,
                3 => -1,
                _ => r.range(-6, 6),
            }
        };
        match self.ring {
            "Z" => small(&mut self.r).to_string(),
            "F5" => self.r.range(-7, 9).to_string(),
            _ => {
                let n = small(&mut self.r);
                let d = match self.r.below(4) {
                    0 | 1 => 1,
                    _ => self.r.range(1, 6),
                };
                format!("{}/{}", n, d)
            }
        }
    }
    fn zero_scalar(&self) -> String {
        match self.ring {
            "Q" => "0/1".into(),
            _ => "0".into(),
        }
    }
    /// an index in 0..=n+1, biased to the boundary
    fn idx(&mut self, n: usize) -> usize {
        match self.r.below(6) {
            0 => 0,
            1 => n,
            2 => n.saturating_sub(1),
            3 => n + 1,
            _ => self.r.below(n as u64 + 1) as usize,
        }
    }
    /// an index that is valid (0..n) most of the time
    fn vidx(&mut self, n: usize) -> usize {
        if n == 0 || self.r.chance(1, 12) { self.idx(n) } else { self.r.below(n as u64) as usize }
    }
    fn range(&mut self, n: usize) -> (usize, usize) {
        if self.r.chance(1, 10) {
            (self.idx(n), self.idx(n))
        } else {
            let a = self.r.below(n as u64 + 1) as usize;
            let b = self.r.below(n as u64 + 1) as usize;
            (a.min(b), a.max(b))
        }
    }
    fn perm_vec(&mut self, n: usize) -> Vec<usize> {
        let mut v: Vec<usize> = (0..n).collect();
        for i in (1..n).rev() {
            let j = self.r.below(i as u64 + 1) as usize;
            v.swap(i, j);
        }
        v
    }
    fn push_perm(&mut self, n: usize) {
        if self.r.chance(1, 6) {
            self.push("pid");
            self.push(n);
        } else if self.r.chance(1, 5) {
            // through perm_for_indices with a partial index list (sometimes invalid)
            let v = self.perm_vec(n);
            let k = self.r.below(n as u64 + 1) as usize;
            let mut idx: Vec<usize> = v[..k].to_vec();
            if self.r.chance(1, 10) && !idx.is_empty() {
                let j = self.r.below(idx.len() as u64) as usize;
                idx[j] = if self.r.bool() { n } else { idx[0] };
            }
            self.push("pfi");
            self.push(n);
            self.push(idx.len());
            for x in idx {
                self.push(x);
            }
        } else {
            let mut v = self.perm_vec(n);
            if self.r.chance(1, 15) && n > 0 {
                let j = self.r.below(n as u64) as usize;
                v[j] = if self.r.bool() { n } else { v[0] };
            }
            self.push("p");
            self.push(n);
            for x in v {
                self.push(x);
            }
        }
        self.sh.push(K::P(n));
    }
    /// stored entries of an m x n CSC matrix, column-major sorted, with explicit zeros
    fn stored(&mut self, m: usize, n: usize) -> Vec<(usize, usize, String)> {
        let dens = *self.r.pick(&[0u64, 2, 5, 8, 10]);
        let mut es = vec![];
        for j in 0..n {
            for i in 0..m {
                if self.r.below(10) < dens {
                    let v = if self.r.chance(1, 4) { self.zero_scalar() } else { self.scalar() };
                    es.push((i, j, v));
                }
            }
        }
        es
    }
    /// push a sparse matrix of the given shape, built in one of several ways (stored zeros occur)
    fn push_m(&mut self, m: usize, n: usize) {
        match self.r.below(10) {
            0 | 1 | 2 | 3 => {
                let es = self.stored(m, n);
                self.push("csc");
                self.push(m);
                self.push(n);
                self.push(es.len());
                for (i, j, v) in es {
                    self.push(i);
                    self.push(j);
                    self.push(v);
                }
            }
            4 | 5 => {
                // from_entries with zeros, duplicates (cancelling sometimes), any order
                let mut es = self.stored(m, n);
                let k = es.len();
                for _ in 0..self.r.below(4) {
                    if k > 0 {
                        let e = es[self.r.below(k as u64) as usize].clone();
                        let v = if self.r.bool() { neg_tok(&e.2) } else { self.scalar() };
                        es.push((e.0, e.1, v));
                    }
                }
                for i in (1..es.len()).rev() {
                    let j = self.r.below(i as u64 + 1) as usize;
                    es.swap(i, j);
                }
                self.push("fe");
                self.push(m);
                self.push(n);
                self.push(es.len());
                for (i, j, v) in es {
                    self.push(i);
                    self.push(j);
                    self.push(v);
                }
            }
            6 => {
                let k = m * n;
                self.push("fdd");
                self.push(m);
                self.push(n);
                self.push(k);
                for _ in 0..k {
                    let s = self.scalar();
                    self.push(s);
                }
            }
            7 => {
                // a - a plus something: all stored values of the first part are explicit zeros
                self.push_m_simple(m, n);
                self.push("dup");
                self.push("sub");
                if self.r.bool() {
                    self.push_m_simple(m, n);
                    self.push("add");
                }
            }
            8 => {
                if m == n && self.r.bool() {
                    self.push("id");
                    self.push(n);
                } else {
                    self.push("zero");
                    self.push(m);
                    self.push(n);
                }
            }
            _ => {
                // through dense
                let k = m * n;
                self.push("dfd");
                self.push(m);
                self.push(n);
                self.push(k);
                for _ in 0..k {
                    let s = self.scalar();
                    self.push(s);
                }
                self.push("ofd");
            }
        }
        self.sh.push(K::M(m, n));
    }
    fn push_m_simple(&mut self, m: usize, n: usize) {
        let es = self.stored(m, n);
        self.push("csc");
        self.push(m);
        self.push(n);
        self.push(es.len());
        for (i, j, v) in es {
            self.push(i);
            self.push(j);
            self.push(v);
        }
    }
    fn push_v(&mut self, dim: usize) {
        match self.r.below(6) {
            0 | 1 | 2 => {
                let es = self.stored(dim, 1);
                self.push("vfse");
                self.push(dim);
                self.push(es.len());
                for (i, _, v) in es {
                    self.push(i);
                    self.push(v);
                }
            }
            3 => {
                let mut es = self.stored(dim, 1);
                if !es.is_empty() && self.r.bool() {
                    let e = es[0].clone();
                    es.push((e.0, 0, neg_tok(&e.2)));
                }
                for i in (1..es.len()).rev() {
                    let j = self.r.below(i as u64 + 1) as usize;
                    es.swap(i, j);
                }
                self.push("vfe");
                self.push(dim);
                self.push(es.len());
                for (i, _, v) in es {
                    self.push(i);
                    self.push(v);
                }
            }
            4 => {
                self.push("vfv");
                self.push(dim);
                for _ in 0..dim {
                    let s = self.scalar();
                    self.push(s);
                }
            }
            _ => {
                if dim > 0 && self.r.bool() {
                    self.push("vunit");
                    self.push(dim);
                    let i = self.r.below(dim as u64) as usize;
                    self.push(i);
                } else {
                    self.push("vzero");
                    self.push(dim);
                }
            }
        }
        self.sh.push(K::V(dim));
    }
    fn push_d(&mut self, m: usize, n: usize) {
        match self.r.below(8) {
            0 if m == n => {
                self.push("did");
                self.push(n);
            }
            1 => {
                self.push("dzero");
                self.push(m);
                self.push(n);
            }
            2 => {
                let k = self.r.below(m.min(n) as u64 + 1) as usize;
                self.push("ddiag");
                self.push(m);
                self.push(n);
                self.push(k);
                for _ in 0..k {
                    let s = self.scalar();
                    self.push(s);
                }
            }
            _ => {
                let k = m * n;
                self.push("dfd");
                self.push(m);
                self.push(n);
                self.push(k);
                for _ in 0..k {
                    let s = self.scalar();
                    self.push(s);
                }
            }
        }
        self.sh.push(K::D(m, n));
    }
    /// a dimension equal to `n` most of the time
    fn near(&mut self, n: usize) -> usize {
        if self.r.chance(1, 14) { self.idx(n) } else { n }
    }

    /// one operation on a sparse matrix on top of the stack (pushes the operands it needs)
    fn op_m(&mut self) {
        let Some(K::M(m, n)) = self.sh.last().cloned() else { return };
        let mut which = self.r.below(26);
        while which == 21 && n == 0 && !self.r.chance(1, 10) {
            which = self.r.below(26);
        }
        match which {
            0 => {
                self.push("tr");
                self.sh.pop();
                self.sh.push(K::M(n, m));
            }
            1 => self.push("neg"),
            2 | 3 => {
                let (m2, n2) = (self.near(m), self.near(n));
                self.push_m(m2, n2);
                let o = if self.r.bool() { "add" } else { "sub" };
                self.push(o);
                self.sh.pop();
            }
            4 | 5 => {
                let k = self.near(n);
                let p = self.dim();
                self.push_m(k, p);
                self.push("mul");
                self.sh.pop();
                self.sh.pop();
                self.sh.push(K::M(m, p));
            }
            6 => {
                let (a, b) = (self.near(m), self.near(n));
                self.push_perm(a);
                self.push_perm(b);
                self.push("perm");
                self.sh.pop();
                self.sh.pop();
            }
            7 => {
                let a = self.near(m);
                self.push_perm(a);
                self.push("permr");
                self.sh.pop();
            }
            8 => {
                let b = self.near(n);
                self.push_perm(b);
                self.push("permc");
                self.sh.pop();
            }
            9 | 10 => {
                let (i0, i1) = self.range(m);
                let (j0, j1) = self.range(n);
                self.push("sm");
                for x in [i0, i1, j0, j1] {
                    self.push(x);
                }
                self.sh.pop();
                self.sh.push(K::M(i1.saturating_sub(i0), j1.saturating_sub(j0)));
            }
            11 => {
                let (i0, i1) = self.range(m);
                self.push("smr");
                self.push(i0);
                self.push(i1);
                self.sh.pop();
                self.sh.push(K::M(i1.saturating_sub(i0), n));
            }
            12 => {
                let (j0, j1) = self.range(n);
                self.push("smc");
                self.push(j0);
                self.push(j1);
                self.sh.pop();
                self.sh.push(K::M(m, j1.saturating_sub(j0)));
            }
            13 | 14 => {
                // split and recombine (sometimes with the blocks permuted: then shapes may mismatch)
                let k = if self.r.chance(1, 14) { m + 1 } else { self.r.below(m as u64 + 1) as usize };
                let l = if self.r.chance(1, 14) { n + 1 } else { self.r.below(n as u64 + 1) as usize };
                self.push("div4");
                self.push(k);
                self.push(l);
                if self.r.chance(1, 8) {
                    self.push("swap");
                }
                self.push("comb");
            }
            15 => {
                let k = if self.r.chance(1, 14) { m + 1 } else { self.r.below(m as u64 + 1) as usize };
                let l = if self.r.chance(1, 14) { n + 1 } else { self.r.below(n as u64 + 1) as usize };
                self.push("div4");
                self.push(k);
                self.push(l);
                self.sh.pop();
                let (k, l) = (k.min(m), l.min(n));
                self.sh.extend([K::M(k, l), K::M(k, n - l), K::M(m - k, l), K::M(m - k, n - l)]);
            }
            16 => {
                let m2 = self.near(m);
                let n2 = self.dim();
                self.push_m(m2, n2);
                self.push("concat");
                self.sh.pop();
                self.sh.pop();
                self.sh.push(K::M(m, n + n2));
            }
            17 => {
                let n2 = self.near(n);
                let m2 = self.dim();
                self.push_m(m2, n2);
                self.push("stack");
                self.sh.pop();
                self.sh.pop();
                self.sh.push(K::M(m + m2, n));
            }
            18 => {
                let m2 = self.near(m);
                let n2 = self.dim();
                self.push_m(m2, n2);
                self.push("extc");
                self.sh.pop();
                self.sh.pop();
                self.sh.push(K::M(m, n + n2));
            }
            19 => {
                let (a, b) = (self.dim(), self.dim());
                self.push("exmod");
                self.push(a);
                self.push(b);
                self.sh.pop();
                self.sh.push(K::M(a, b));
            }
            20 => {
                self.push("tod");
                self.sh.pop();
                self.sh.push(K::D(m, n));
            }
            21 => {
                let j = self.vidx(n);
                self.push("colv");
                self.push(j);
                self.sh.pop();
                self.sh.push(K::V(m));
            }
            22 => {
                let d = self.near(n);
                self.push_v(d);
                self.push("mulv");
                self.sh.pop();
                self.sh.pop();
                self.sh.push(K::V(m));
            }
            24 => {
                // row_perm(p) * a  (== a.permute_rows(p))
                let a = self.near(m);
                self.push_perm(a);
                self.push("frp");
                self.push("swap");
                self.push("mul");
                self.sh.pop();
            }
            25 => {
                // a * col_perm(q)  (== a.permute_cols(q))
                let b = self.near(n);
                self.push_perm(b);
                self.push("fcp");
                self.push("mul");
                self.sh.pop();
            }
            _ => {
                // round trip through dense
                self.push("tod");
                self.push("ofd");
            }
        }
    }
    fn op_v(&mut self) {
        let Some(K::V(n)) = self.sh.last().cloned() else { return };
        match self.r.below(12) {
            0 => self.push("vneg"),
            1 | 2 => {
                let d = self.near(n);
                self.push_v(d);
                let o = if self.r.bool() { "vadd" } else { "vsubt" };
                self.push(o);
                self.sh.pop();
            }
            3 => {
                let d = self.near(n);
                self.push_perm(d);
                self.push("vperm");
                self.sh.pop();
            }
            4 | 5 => {
                let (mut s, mut e) = self.range(n);
                if self.r.chance(1, 8) {
                    e += self.r.below(3) as usize; // beyond the dimension: allowed by the code
                }
                if self.r.chance(1, 20) {
                    std::mem::swap(&mut s, &mut e);
                }
                self.push("vsub");
                self.push(s);
                self.push(e);
                self.sh.pop();
                self.sh.push(K::V(e.saturating_sub(s)));
            }
            6 => {
                let d = self.dim();
                self.push_v(d);
                self.push("vstack");
                self.sh.pop();
                self.sh.pop();
                self.sh.push(K::V(n + d));
            }
            7 => {
                let k = if self.r.chance(1, 10) { n + 1 } else { self.r.below(n as u64 + 1) as usize };
                self.push("vsplit");
                self.push(k);
                self.sh.pop();
                let k = k.min(n);
                self.sh.extend([K::V(k), K::V(n - k)]);
            }
            8 => {
                let cnt = self.r.below(3) as usize;
                let mut tot = n;
                for _ in 0..cnt {
                    let d = self.dim();
                    self.push_v(d);
                    tot += d;
                }
                self.push("vstackn");
                self.push(cnt + 1);
                for _ in 0..=cnt {
                    self.sh.pop();
                }
                self.sh.push(K::V(tot));
            }
            9 => {
                self.push("vmat");
                self.sh.pop();
                self.sh.push(K::M(n, 1));
            }
            10 => {
                // split and restack
                let k = self.vidx(n + 1).min(n);
                self.push("vsplit");
                self.push(k);
                self.push("vstack");
            }
            _ => {
                // columns -> matrix
                let cnt = self.r.below(3) as usize;
                for _ in 0..cnt {
                    let d = self.near(n);
                    self.push_v(d);
                }
                let m = self.near(n);
                self.push("fcv");
                self.push(m);
                self.push(cnt + 1);
                for _ in 0..=cnt {
                    self.sh.pop();
                }
                self.sh.push(K::M(m, cnt + 1));
            }
        }
    }
    fn op_d(&mut self) {
        let Some(K::D(m, n)) = self.sh.last().cloned() else { return };
        let mut which = self.r.below(20);
        loop {
            let need_row = matches!(which, 9 | 11 | 13);
            let need_col = matches!(which, 10 | 12 | 14);
            if ((need_row && m == 0) || (need_col && n == 0) || (matches!(which, 15 | 16) && (m == 0 || n == 0)))
                && !self.r.chance(1, 10)
            {
                which = self.r.below(20);
            } else {
                break;
            }
        }
        match which {
            0 => self.push("dneg"),
            1 | 2 => {
                let (m2, n2) = (self.near(m), self.near(n));
                self.push_d(m2, n2);
                let o = if self.r.bool() { "dadd" } else { "dsubt" };
                self.push(o);
                self.sh.pop();
            }
            3 | 4 => {
                let k = self.near(n);
                let p = self.dim();
                self.push_d(k, p);
                self.push("dmul");
                self.sh.pop();
                self.sh.pop();
                self.sh.push(K::D(m, p));
            }
            5 | 6 => {
                let (i0, i1) = self.range(m);
                let (j0, j1) = self.range(n);
                self.push("dsm");
                for x in [i0, i1, j0, j1] {
                    self.push(x);
                }
                self.sh.pop();
                self.sh.push(K::D(i1.saturating_sub(i0), j1.saturating_sub(j0)));
            }
            7 => {
                let (i0, i1) = self.range(m);
                self.push("dsmr");
                self.push(i0);
                self.push(i1);
                self.sh.pop();
                self.sh.push(K::D(i1.saturating_sub(i0), n));
            }
            8 => {
                let (j0, j1) = self.range(n);
                self.push("dsmc");
                self.push(j0);
                self.push(j1);
                self.sh.pop();
                self.sh.push(K::D(m, j1.saturating_sub(j0)));
            }
            9 => {
                let (i, j) = (self.vidx(m), self.vidx(m));
                self.push("dswr");
                self.push(i);
                self.push(j);
            }
            10 => {
                let (i, j) = (self.vidx(n), self.vidx(n));
                self.push("dswc");
                self.push(i);
                self.push(j);
            }
            11 => {
                let i = self.vidx(m);
                let s = self.scalar();
                self.push("dmr");
                self.push(i);
                self.push(s);
            }
            12 => {
                let j = self.vidx(n);
                let s = self.scalar();
                self.push("dmc");
                self.push(j);
                self.push(s);
            }
            13 => {
                let (i, j) = (self.vidx(m), self.vidx(m));
                let s = self.scalar();
                self.push("dart");
                self.push(i);
                self.push(j);
                self.push(s);
            }
            14 => {
                let (i, j) = (self.vidx(n), self.vidx(n));
                let s = self.scalar();
                self.push("dact");
                self.push(i);
                self.push(j);
                self.push(s);
            }
            15 | 16 => {
                let row = if m == 0 { false } else if n == 0 { true } else { self.r.bool() };
                let d = if row { m } else { n };
                let (i, j) = (self.vidx(d), self.vidx(d));
                self.push(if row { "dle" } else { "dre" });
                for _ in 0..4 {
                    let s = self.scalar();
                    self.push(s);
                }
                self.push(i);
                self.push(j);
            }
            _ => {
                self.push("ofd");
                self.sh.pop();
                self.sh.push(K::M(m, n));
            }
        }
    }
    /// one step of a transform history on top of the stack
    fn op_t(&mut self) {
        let Some(K::T(src, tgt)) = self.sh.last().cloned() else { return };
        match self.r.below(12) {
            0 | 1 | 2 => {
                let t2 = self.dim();
                let c = self.near(tgt);
                self.push_m(t2, c);
                let (bm, bn) = if self.r.chance(1, 14) { (self.idx(c), self.idx(t2)) } else { (c, t2) };
                self.push_m(bm, bn);
                self.push("tapp");
                self.sh.pop();
                self.sh.pop();
                self.sh.pop();
                self.sh.push(K::T(src, t2));
            }
            3 | 4 => {
                let d = self.near(tgt);
                self.push_perm(d);
                self.push("tappp");
                self.sh.pop();
            }
            5 | 6 => {
                // merge with a second, short history
                let s2 = self.near(tgt);
                self.push("tid");
                self.push(s2);
                self.sh.push(K::T(s2, s2));
                for _ in 0..self.r.below(3) {
                    self.op_t_simple();
                }
                let Some(K::T(_, t2)) = self.sh.last().cloned() else { return };
                self.push("tmerge");
                self.sh.pop();
                self.sh.pop();
                self.sh.push(K::T(src, t2));
            }
            7 | 8 => self.push("tred"),
            _ => {
                let k = if tgt == 0 && !self.r.chance(1, 10) { 0 } else { self.dim() };
                let mut idx = vec![];
                for _ in 0..k {
                    idx.push(self.vidx(tgt));
                }
                self.push("tsub");
                self.push(k);
                for x in idx {
                    self.push(x);
                }
                self.sh.pop();
                self.sh.push(K::T(src, k));
            }
        }
    }
    fn op_t_simple(&mut self) {
        let Some(K::T(src, tgt)) = self.sh.last().cloned() else { return };
        if self.r.bool() {
            let t2 = self.dim();
            self.push_m(t2, tgt);
            self.push_m(tgt, t2);
            self.push("tapp");
            self.sh.pop();
            self.sh.pop();
            self.sh.pop();
            self.sh.push(K::T(src, t2));
        } else {
            self.push_perm(tgt);
            self.push("tappp");
            self.sh.pop();
        }
    }
}

fn neg_tok(s: &str) -> String {
    if let Some(r) = s.strip_prefix('-') { r.to_string() } else if s == "0" || s.starts_with("0/") { s.to_string() } else { format!("-{}", s) }
}

fn gen_cases(seed: u64, thorough: bool, emit: &mut dyn FnMut(String)) {
    let mut r = Rng::new(seed);
    let shapes: Vec<(usize, usize)> = {
        let mut v = vec![(0, 0), (0, 3), (3, 0), (1, 1), (1, 4), (4, 1), (2, 2), (2, 3), (3, 2), (3, 3), (4, 4), (5, 3), (3, 5), (6, 6), (8, 8), (8, 5), (7, 8)];
        if thorough {
            for m in 0..=8 {
                for n in 0..=8 {
                    if !v.contains(&(m, n)) {
                        v.push((m, n));
                    }
                }
            }
        }
        v
    };
    // 1. sweep: every single operation of every kind at every shape of the list, every ring
    let reps = if thorough { 10 } else { 4 };
    for ring in RINGS {
        for &(m, n) in &shapes {
            for _ in 0..reps {
                for which in 0..26u64 {
                    let mut g = Gen::new(r.fork(), ring, 8);
                    g.push_m(m, n);
                    // force the op number by re-seeding until op_m draws it is wasteful; instead draw freely
                    // a few times - the sweep below (deterministic list) covers each operation explicitly.
                    let _ = which;
                    g.op_m();
                    emit(g.line());
                }
                for _ in 0..12 {
                    let mut g = Gen::new(r.fork(), ring, 8);
                    g.push_d(m, n);
                    g.op_d();
                    emit(g.line());
                }
                if n <= 1 {
                    for _ in 0..12 {
                        let mut g = Gen::new(r.fork(), ring, 8);
                        g.push_v(m);
                        g.op_v();
                        emit(g.line());
                    }
                }
            }
        }
    }
    // 2. explicit single-operation sweep with fixed parameters (each operation at each boundary shape)
    for ring in RINGS {
        for &(m, n) in &shapes {
            let mut g0 = Gen::new(r.fork(), ring, 8);
            g0.push_m_simple(m, n);
            let base = g0.toks.join(" ");
            let mut ops: Vec<String> = vec![
                "tr".into(), "neg".into(), "dup add".into(), "dup sub".into(), "dup tr mul".into(), "dup tr swap mul".into(),
                "tod".into(), "tod ofd".into(), "dup concat".into(), "dup stack".into(), "dup extc".into(),
                format!("zero {} 0 extc", m), format!("zero {} 0 concat", m), format!("zero 0 {} stack", n),
                format!("pid {} pid {} perm", m, n), format!("sm 0 {} 0 {}", m, n), format!("sm 0 0 0 0"),
                format!("sm {} {} {} {}", m, m, n, n), format!("sm 0 {} 0 {}", m + 1, n), format!("sm 1 0 0 {}", n),
                format!("id {} mul", n), format!("id {} swap mul", m), format!("exmod {} {}", m, n), "exmod 1 1".into(), "exmod 0 2".into(),
            ];
            for k in 0..=m {
                for l in 0..=n {
                    if (k == 0 || k == m || k == m / 2) && (l == 0 || l == n || l == n / 2) {
                        ops.push(format!("div4 {} {}", k, l));
                        ops.push(format!("div4 {} {} comb", k, l));
                    }
                }
            }
            ops.push(format!("div4 {} {}", m + 1, n));
            ops.push(format!("div4 {} {}", m, n + 1));
            // permutation matrices and the two identities row_perm(p) * a == a.permute_rows(p),
            // a * col_perm(q) == a.permute_cols(q) (both sides are rendered)
            for _ in 0..2 {
                let mut gp = Gen::new(r.fork(), ring, 8);
                gp.push_perm(m);
                let pm = gp.toks.join(" ");
                let mut gq = Gen::new(r.fork(), ring, 8);
                gq.push_perm(n);
                let qn = gq.toks.join(" ");
                ops.push(format!("dup {} frp swap mul swap {} permr", pm, pm));
                ops.push(format!("dup {} fcp mul swap {} permc", qn, qn));
                ops.push(format!("{} {} perm", pm, qn));
                ops.push(format!("drop {} frp {} fcp", pm, qn));
                ops.push(format!("drop {} dup frp swap fcp mul", pm));
            }
            ops.push("dup tr over mul".into());
            for j in 0..=n {
                ops.push(format!("colv {}", j));
            }
            for o in ops {
                emit(format!("{} {} {}", ring, base, o));
            }
        }
    }
    // 3. random programs (chains of operations on whatever is on top of the stack)
    let nprog = if thorough { 600_000 } else { 100_000 };
    for _ in 0..nprog {
        let ring = *r.pick(&RINGS);
        let mut g = Gen::new(r.fork(), ring, if r.chance(1, 4) { 8 } else { 5 });
        let (m, n) = (g.dim(), g.dim());
        match g.r.below(4) {
            0 => g.push_d(m, n),
            1 => g.push_v(m),
            _ => g.push_m(m, n),
        }
        let steps = 1 + g.r.below(5);
        for _ in 0..steps {
            match g.sh.last() {
                Some(K::M(..)) => g.op_m(),
                Some(K::V(..)) => g.op_v(),
                Some(K::D(..)) => g.op_d(),
                _ => break,
            }
        }
        emit(g.line());
    }
    // 4. transform histories (<= 8 operations), then forward / backward on random vectors
    let nhist = if thorough { 300_000 } else { 50_000 };
    for _ in 0..nhist {
        let ring = *r.pick(&RINGS);
        let mut g = Gen::new(r.fork(), ring, if r.chance(1, 5) { 8 } else { 4 });
        let n0 = g.dim();
        if g.r.chance(1, 3) {
            let t = g.dim();
            g.push_m(t, n0);
            g.sh.pop();
            let (bm, bn) = if g.r.chance(1, 14) { (g.idx(n0), g.idx(t)) } else { (n0, t) };
            g.push_m(bm, bn);
            g.sh.pop();
            g.push("tnew");
            g.sh.push(K::T(n0, t));
        } else {
            g.push("tid");
            g.push(n0);
            g.sh.push(K::T(n0, n0));
        }
        let steps = g.r.below(9);
        for _ in 0..steps {
            g.op_t();
        }
        let Some(K::T(src, tgt)) = g.sh.last().cloned() else { continue };
        // observe: forward and backward on vectors, before and after reduce
        let d = g.near(src);
        g.push("dup");
        g.push_v(d);
        g.sh.pop();
        g.push("tfwd");
        g.push("swap");
        let e = g.near(tgt);
        g.push("dup");
        g.push_v(e);
        g.sh.pop();
        g.push("tbwd");
        g.push("swap");
        if g.r.bool() {
            g.push("tred");
            g.push("dup");
            g.push_v(src);
            g.sh.pop();
            g.push("tfwd");
            g.push("swap");
        }
        emit(g.line());
    }
    // 5. malformed / boundary stream
    for ring in RINGS {
        let z = if ring == "Q" { "0/1" } else { "0" };
        let o = if ring == "Q" { "1/1" } else { "1" };
        let list = [
            format!("fe 2 2 1 2 0 {o}"), format!("fe 2 2 1 2 0 {z}"), format!("fe 0 0 1 0 0 {z}"), format!("fe 0 0 1 0 0 {o}"),
            format!("fe 2 2 2 0 0 {o} 0 0 -{o}"), format!("fdd 2 0 0"), format!("fdd 2 0 1 {z}"), format!("fdd 0 2 1 {z}"), format!("fdd 0 2 1 {o}"),
            format!("fdd 2 2 5 {o} {o} {o} {o} {z}"), format!("fdd 2 2 5 {o} {o} {o} {o} {o}"), format!("fdd 2 2 3 {o} {z} {o}"),
            format!("csc 2 2 2 1 0 {o} 0 0 {o}"), format!("csc 2 2 2 0 0 {o} 0 0 {o}"), format!("csc 2 2 1 2 0 {o}"),
            format!("vfse 3 2 1 {o} 1 {o}"), format!("vfse 3 2 2 {o} 1 {o}"), format!("vfse 3 1 3 {z}"), format!("vfse 0 0"),
            format!("vunit 0 0"), format!("vunit 3 3"), format!("vunit 3 2"), format!("vfe 3 1 3 {z}"), format!("vfe 3 1 3 {o}"),
            format!("dfd 2 2 3 {o} {o} {o}"), format!("dfd 2 2 5 {o} {o} {o} {o} {o}"), format!("dfd 0 3 0"), format!("dfd 3 0 1 {o}"),
            format!("ddiag 2 3 3 {o} {o} {o}"), format!("ddiag 2 3 2 {o} {o}"), format!("ddiag 0 0 0"), format!("ddiag 0 0 1 {o}"),
            format!("p 3 0 1 1"), format!("p 3 0 1 3"), format!("p 0"), format!("pfi 3 2 1 1"), format!("pfi 3 1 3"), format!("pfi 0 0"), format!("pfi 4 2 3 1"),
            format!("zero 2 2"), format!("zero 1 1"), format!("zero 0 0"), format!("id 0"), format!("id 3"), format!("id 3 dup sub"), format!("id 2 dup sub id 2 add"),
            format!("zero 3 3 tod"), format!("did 3 ofd"), format!("dzero 2 2"), format!("did 0"),
            format!("tid 0"), format!("tid 3 tred"), format!("tid 2 tsub 3 0 1 1"), format!("tid 2 tsub 1 2"), format!("tid 2 tsub 0"),
            format!("id 3 smr 0 2 id 3 smc 0 2 tnew dup vfv 3 {o} {o} {o} tfwd"), format!("id 3 id 2 tnew"),
            format!("tid 3 p 3 1 2 0 tappp dup vfv 3 {o} {z} {z} tfwd"), format!("tid 3 p 2 1 0 tappp"),
            format!("tid 2 tid 3 tmerge"), format!("tid 2 tid 2 tmerge"),
        ];
        for c in list {
            emit(format!("{} {}", ring, c));
        }
    }
}

fn main() {
    quiet_panics();
    match parse_args() {
        Mode::Replay { file, out } => {
            let mut o = Out::new(&out);
            for l in read_lines(&file) {
                let res = run_case(&l);
                o.case(&l, &res);
            }
            o.finish();
        }
        Mode::Gen { seed, thorough, out } => {
            let mut o = Out::new(&out);
            let mut emit = |c: String| {
                let res = run_case(&c);
                o.case(&c, &res);
            };
            gen_cases(seed, thorough, &mut emit);
            o.finish();
        }
    }
}
