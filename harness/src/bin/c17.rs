//! C17 correspondence harness: BitSeq vs the Coq model (Model/BitSeq.v).
//! Case lines are the model driver's input (ocaml/c17_driver.ml); result lines are what the real
//! implementation returned ("<val>:<len>", "P" for a panic).
use std::str::FromStr;
use yui::bitseq::{Bit, BitSeq};
use yui_verif_harness::*;

fn s(b: &BitSeq) -> String {
    format!("{}:{}", b.as_u64(), b.len())
}
fn so(b: Option<BitSeq>) -> String {
    b.map(|b| s(&b)).unwrap_or("P".into())
}
fn bit(x: bool) -> Bit {
    if x { Bit::Bit1 } else { Bit::Bit0 }
}
fn b01(x: bool) -> &'static str {
    if x { "1" } else { "0" }
}

const LENS: [usize; 12] = [0, 1, 2, 3, 5, 31, 32, 33, 62, 63, 64, 64];

fn rand_val(r: &mut Rng, len: usize) -> u64 {
    let m = if len >= 64 { u64::MAX } else { (1u64 << len) - 1 };
    match r.below(6) {
        0 => 0,
        1 => m,
        2 => 0xAAAA_AAAA_AAAA_AAAA & m,
        3 => if len > 0 { 1u64 << (len - 1) } else { 0 },
        _ => r.next_u64() & m,
    }
}
fn rand_len(r: &mut Rng) -> usize {
    if r.chance(2, 3) { *r.pick(&LENS) } else { r.below(65) as usize }
}
/// generator-side values are plain (val, len) pairs: the generator never calls the implementation
#[derive(Clone, Copy, PartialEq)]
struct VL(u64, usize);
impl VL {
    fn as_u64(&self) -> u64 { self.0 }
    fn len(&self) -> usize { self.1 }
}
fn lowmask(l: usize) -> u64 {
    if l >= 64 { u64::MAX } else { (1u64 << l) - 1 }
}
fn rand_seq(r: &mut Rng) -> VL {
    let l = rand_len(r);
    VL(rand_val(r, l), l)
}
/// list-semantics length after an op (shadow used only to keep generated ops mostly valid)
fn shadow_len(len: usize, op: &[&str]) -> usize {
    let p = |k: usize| op[k].parse::<usize>().unwrap();
    match op[0] {
        "push" => if len < 64 { len + 1 } else { len },
        "append" => if p(2) <= 64 && len + p(2) <= 64 { len + p(2) } else { len },
        "remove" => if p(1) < len { len - 1 } else { len },
        "insert" => if p(1) <= len && len < 64 { len + 1 } else { len },
        "sub" => if p(1) <= len { p(1) } else { len },
        _ => len,
    }
}
fn rand_index(r: &mut Rng, len: usize) -> usize {
    match r.below(8) {
        0 => 0,
        1 => len / 2,
        2 => len.saturating_sub(1),
        3 => len,
        4 => len + 1,
        5 => 63,
        6 => 64,
        _ => r.below(len as u64 + 2) as usize,
    }
}

/// Apply one op token list to the implementation in place; returns the result token.
fn apply(b: &mut BitSeq, op: &[&str]) -> String {
    let before = *b;
    let res = match op[0] {
        "set" => {
            let (i, x) = (op[1].parse::<usize>().unwrap(), op[2] == "1");
            guarded(|| b.set(i, bit(x)))
        }
        "push" => {
            let x = op[1] == "1";
            // both forms: push and `+ Bit`
            let alt = guarded(|| before + bit(x));
            let r = guarded(|| b.push(bit(x)));
            if r.is_some() != alt.is_some() || (r.is_some() && alt.unwrap() != *b) {
                return "FORMS-DIFFER".into();
            }
            r
        }
        "append" => {
            let (v, l) = (op[1].parse::<u64>().unwrap(), op[2].parse::<usize>().unwrap());
            match guarded(|| BitSeq::new(v, l)) {
                None => None,
                Some(c) => {
                    let alt = guarded(|| before + c);
                    let r = guarded(|| b.append(c));
                    if r.is_some() != alt.is_some() || (r.is_some() && alt.unwrap() != *b) {
                        return "FORMS-DIFFER".into();
                    }
                    r
                }
            }
        }
        "remove" => {
            let i = op[1].parse::<usize>().unwrap();
            guarded(|| b.remove(i))
        }
        "insert" => {
            let (i, x) = (op[1].parse::<usize>().unwrap(), op[2] == "1");
            guarded(|| b.insert(i, bit(x)))
        }
        "sub" => {
            let l = op[1].parse::<usize>().unwrap();
            match guarded(|| b.sub(l)) {
                Some(c) => {
                    *b = c;
                    Some(())
                }
                None => None,
            }
        }
        _ => panic!("bad op"),
    };
    match res {
        Some(()) => s(b),
        None => {
            if *b != before {
                // a rejected call must not corrupt the value
                let out = format!("P!{}", s(b));
                *b = before;
                out
            } else {
                "P".into()
            }
        }
    }
}

fn op_arity(name: &str) -> usize {
    match name {
        "set" | "append" | "insert" => 3,
        _ => 2,
    }
}

fn run_case(line: &str) -> String {
    // a panic outside the guarded calls (e.g. constructing the operands) is reported as TOP-PANIC
    guarded(|| run_case_inner(line)).unwrap_or("TOP-PANIC".into())
}

fn run_case_inner(line: &str) -> String {
    let t: Vec<&str> = line.split_whitespace().collect();
    let bs = |v: &str, l: &str| BitSeq::new(v.parse().unwrap(), l.parse().unwrap());
    match t[0] {
        "hist" => {
            let mut b = bs(t[1], t[2]);
            let mut outs = vec![];
            let mut k = 3;
            while k < t.len() {
                let n = op_arity(t[k]);
                outs.push(apply(&mut b, &t[k..k + n]));
                k += n;
            }
            outs.join(" ")
        }
        "new" => so(guarded(|| BitSeq::new(t[1].parse().unwrap(), t[2].parse().unwrap()))),
        "new_rev" => so(guarded(|| BitSeq::new_rev(t[1].parse().unwrap(), t[2].parse().unwrap()))),
        "zeros" => so(guarded(|| BitSeq::zeros(t[1].parse().unwrap()))),
        "ones" => so(guarded(|| BitSeq::ones(t[1].parse().unwrap()))),
        "from_iter" => {
            let bits: Vec<bool> = if t[1] == "-" { vec![] } else { t[1].chars().map(|c| c == '1').collect() };
            so(guarded(|| BitSeq::from_iter(bits.iter().map(|&x| bit(x)))))
        }
        "from_str" => {
            // chars: 0 -> '0', 1 -> '1', 2.. -> some other character
            let st: String = t[1..]
                .iter()
                .map(|c| match *c {
                    "0" => '0',
                    "1" => '1',
                    "2" => 'x',
                    "3" => ' ',
                    _ => '2',
                })
                .collect();
            match guarded(|| BitSeq::from_str(&st)) {
                None => "P".into(),
                Some(Ok(b)) => s(&b),
                Some(Err(_)) => "E".into(),
            }
        }
        "to_string" => format!("s{}", bs(t[1], t[2]).to_string()),
        "weight" => bs(t[1], t[2]).weight().to_string(),
        "iter" => {
            let b = bs(t[1], t[2]);
            format!("s{}", b.iter().map(|x| if x.is_one() { '1' } else { '0' }).collect::<String>())
        }
        "index" => {
            let b = bs(t[1], t[2]);
            let i: usize = t[3].parse().unwrap();
            guarded(|| b[i]).map(|x| b01(x.is_one()).to_string()).unwrap_or("P".into())
        }
        "is_sub" => {
            let (a, b) = (bs(t[1], t[2]), bs(t[3], t[4]));
            guarded(|| a.is_sub(&b)).map(|x| b01(x).to_string()).unwrap_or("P".into())
        }
        "cmp" => {
            let (a, b) = (bs(t[1], t[2]), bs(t[3], t[4]));
            let c = a.cmp(&b);
            // consistency of the derived comparison operators with cmp and ==
            let ok = (a == b) == (c == std::cmp::Ordering::Equal)
                && a.partial_cmp(&b) == Some(c)
                && b.cmp(&a) == c.reverse();
            if !ok {
                return "ORDER-INCONSISTENT".into();
            }
            match c {
                std::cmp::Ordering::Less => "Lt",
                std::cmp::Ordering::Equal => "Eq",
                std::cmp::Ordering::Greater => "Gt",
            }
            .into()
        }
        "generate" => {
            let l: usize = t[1].parse().unwrap();
            guarded(|| BitSeq::generate(l).map(|b| s(&b)).collect::<Vec<_>>().join(","))
                .unwrap_or("P".into())
        }
        _ => panic!("bad case {}", line),
    }
}

fn gen_op(r: &mut Rng, len: usize) -> String {
    match r.below(12) {
        0 | 1 => format!("set {} {}", rand_index(r, len), b01(r.bool())),
        2 | 3 | 4 => format!("push {}", b01(r.bool())),
        5 => {
            let room = 64usize.saturating_sub(len);
            let l = match r.below(5) {
                0 => 0,
                1 => room,
                2 => room + 1,
                _ => r.below(room as u64 + 1) as usize,
            };
            let l = l.min(70);
            // mostly valid values, sometimes a value too large for its length
            let v = if l <= 64 && !r.chance(1, 12) { rand_val(r, l) } else { r.next_u64() };
            format!("append {} {}", v, l)
        }
        6 | 7 => format!("remove {}", rand_index(r, len)),
        8 | 9 => format!("insert {} {}", rand_index(r, len), b01(r.bool())),
        _ => format!("sub {}", rand_index(r, len)),
    }
}

fn main() {
    quiet_panics();
    match parse_args() {
        Mode::Replay { file, out } => {
            let mut o = Out::new(&out);
            for l in read_lines(&file) {
                let res = run_case(&l);
                o.case(&l, &res);
            }
            o.finish();
        }
        Mode::Gen { seed, thorough, out } => {
            let mut o = Out::new(&out);
            let mut r = Rng::new(seed);
            let mut emit = |o: &mut Out, c: String| {
                let res = run_case(&c);
                o.case(&c, &res);
            };
            // 1. exhaustive sweep: every single operation on every sequence of length <= L
            let lmax = if thorough { 6 } else { 4 };
            for l in 0..=lmax {
                for v in 0..(1u64 << l) {
                    for i in 0..=l + 1 {
                        for x in ["0", "1"] {
                            emit(&mut o, format!("hist {v} {l} set {i} {x}"));
                            emit(&mut o, format!("hist {v} {l} insert {i} {x}"));
                        }
                        emit(&mut o, format!("hist {v} {l} remove {i}"));
                        emit(&mut o, format!("hist {v} {l} sub {i}"));
                        emit(&mut o, format!("index {v} {l} {i}"));
                    }
                    emit(&mut o, format!("hist {v} {l} push 0 push 1"));
                    emit(&mut o, format!("weight {v} {l}"));
                    emit(&mut o, format!("iter {v} {l}"));
                    emit(&mut o, format!("to_string {v} {l}"));
                    emit(&mut o, format!("new_rev {v} {l}"));
                    for l2 in 0..=lmax.min(3) {
                        for v2 in 0..(1u64 << l2) {
                            emit(&mut o, format!("hist {v} {l} append {v2} {l2}"));
                            emit(&mut o, format!("is_sub {v} {l} {v2} {l2}"));
                            emit(&mut o, format!("cmp {v} {l} {v2} {l2}"));
                        }
                    }
                }
            }
            // 2. boundary sweep: all-zero / all-one / alternating at every length 0..=66
            for l in 0..=66usize {
                emit(&mut o, format!("zeros {l}"));
                emit(&mut o, format!("ones {l}"));
                emit(&mut o, format!("generate {}", if l <= 7 { l } else { 60 + l }));
                emit(&mut o, format!("from_iter {}", if l == 0 { "-".to_string() } else { "1".repeat(l) }));
                emit(&mut o, format!("from_iter {}", if l == 0 { "-".to_string() } else { "0".repeat(l) }));
                emit(&mut o, format!("from_iter {}", if l == 0 { "-".to_string() } else { "01".repeat(l)[..l].to_string() }));
                if l <= 64 {
                    let m = if l == 64 { u64::MAX } else { (1u64 << l) - 1 };
                    for v in [0u64, m, 0x5555_5555_5555_5555 & m] {
                        emit(&mut o, format!("new {v} {l}"));
                        emit(&mut o, format!("new {} {l}", v.wrapping_add(m).wrapping_add(1)));
                        emit(&mut o, format!("new_rev {v} {l}"));
                        emit(&mut o, format!("new_rev {} {l}", r.next_u64()));
                        emit(&mut o, format!("weight {v} {l}"));
                        emit(&mut o, format!("to_string {v} {l}"));
                        emit(&mut o, format!("hist {v} {l} push 1"));
                        emit(&mut o, format!("hist {v} {l} push 0"));
                        for i in [0, l / 2, l.saturating_sub(1), l, l + 1] {
                            emit(&mut o, format!("hist {v} {l} remove {i}"));
                            emit(&mut o, format!("hist {v} {l} insert {i} 1"));
                            emit(&mut o, format!("hist {v} {l} set {i} 0 set {i} 1"));
                            emit(&mut o, format!("hist {v} {l} sub {i}"));
                            emit(&mut o, format!("index {v} {l} {i}"));
                        }
                        emit(&mut o, format!("hist {v} {l} append 0 0"));
                        emit(&mut o, format!("hist {v} {l} append 1 {}", 64 - l));
                        emit(&mut o, format!("hist {v} {l} append 1 {}", 65 - l));
                        emit(&mut o, format!("is_sub {v} {l} {m} {l}"));
                        emit(&mut o, format!("is_sub {v} {l} {} 64", u64::MAX));
                    }
                } else {
                    emit(&mut o, format!("new 0 {l}"));
                    emit(&mut o, format!("new_rev 0 {l}"));
                }
            }
            // 3. random histories
            let nh = if thorough { 200_000 } else { 20_000 };
            for _ in 0..nh {
                let b0 = rand_seq(&mut r);
                let maxops = if r.chance(1, 10) { 60 } else { 15 };
                let nops = 1 + r.below(maxops) as usize;
                let mut line = format!("hist {} {}", b0.as_u64(), b0.len());
                // track the length with the real implementation so that ops stay mostly valid
                let mut cur = b0.len();
                for _ in 0..nops {
                    let op = gen_op(&mut r, cur);
                    let toks: Vec<&str> = op.split_whitespace().collect();
                    cur = shadow_len(cur, &toks);
                    line.push(' ');
                    line.push_str(&op);
                }
                emit(&mut o, line);
            }
            // 4. random single calls
            let ns = if thorough { 100_000 } else { 10_000 };
            for _ in 0..ns {
                let a = rand_seq(&mut r);
                let c = match r.below(12) {
                    0 => {
                        let l = rand_len(&mut r) + r.below(3) as usize;
                        format!("new {} {}", if r.bool() { rand_val(&mut r, l.min(64)) } else { r.next_u64() }, l)
                    }
                    1 => format!("new_rev {} {}", r.next_u64() >> r.below(64), rand_len(&mut r) + r.below(3) as usize),
                    2 => {
                        let l = r.below(70) as usize;
                        let st: String = (0..l).map(|_| if r.bool() { '1' } else { '0' }).collect();
                        format!("from_iter {}", if l == 0 { "-".into() } else { st })
                    }
                    3 => {
                        let l = r.below(70) as usize;
                        let bad = r.chance(1, 3);
                        let pos = r.below(l as u64 + 1) as usize;
                        let mut cs: Vec<String> = (0..l).map(|_| b01(r.bool()).to_string()).collect();
                        if bad {
                            cs.insert(pos, format!("{}", 2 + r.below(3)));
                        }
                        format!("from_str {}", cs.join(" "))
                    }
                    4 => format!("to_string {} {}", a.as_u64(), a.len()),
                    5 => format!("weight {} {}", a.as_u64(), a.len()),
                    6 => format!("iter {} {}", a.as_u64(), a.len()),
                    7 => format!("index {} {} {}", a.as_u64(), a.len(), rand_index(&mut r, a.len())),
                    8 | 9 => {
                        // prefix tests: related pairs most of the time
                        let b = if r.chance(2, 3) {
                            let l = r.below(a.len() as u64 + 1) as usize;
                            let mut p = VL(a.0 & lowmask(l), l);
                            if r.chance(1, 3) && l > 0 {
                                let i = r.below(l as u64) as usize;
                                p.0 ^= 1u64 << i;
                            }
                            p
                        } else {
                            rand_seq(&mut r)
                        };
                        if r.bool() {
                            format!("is_sub {} {} {} {}", b.as_u64(), b.len(), a.as_u64(), a.len())
                        } else {
                            format!("is_sub {} {} {} {}", a.as_u64(), a.len(), b.as_u64(), b.len())
                        }
                    }
                    _ => {
                        // order: same length / same weight pairs most of the time
                        let b = match r.below(4) {
                            0 => a,
                            1 => VL(rand_val(&mut r, a.len()), a.len()),
                            2 => {
                                // same length and weight: rotate the bits
                                let l = a.len();
                                let k = if l == 0 { 0 } else { r.below(l as u64) as usize };
                                let bits: Vec<u64> = (0..l).map(|i| (a.0 >> i) & 1).collect();
                                let mut v = 0u64;
                                for i in 0..l { v |= bits[(i + k) % l] << i; }
                                VL(v, l)
                            }
                            _ => rand_seq(&mut r),
                        };
                        format!("cmp {} {} {} {}", a.as_u64(), a.len(), b.as_u64(), b.len())
                    }
                };
                emit(&mut o, c);
            }
            o.finish();
        }
    }
}
