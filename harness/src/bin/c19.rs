//! C19 harness: involutive Khovanov homology of strongly invertible knots.
//!   khi <red> <h> <npos> <nneg> ; <link>      impl: "T[i=d ...]" (+ " B[(i,j)=d ...]" when h = 0), F2 dimensions
//!   sym <red> <h> ; <link>                    impl: SymTngBuilder::build_kh_complex homology table vs KhHomology::new of the underlying knot:
//!                                                   "SAME <table>" | "DIFF <a> <b>"   (model: C01-style table of the cube oracle over F2)
//!   cxh <red> ; <link>                        impl: d.d = 0 for KhIComplex over F2[H]: OK | FAIL
//!   ssi <red> ; <link>                        impl: "K=<s0>,<s1> SH=<s0>,<s1> MIR=<s0>,<s1>"  (shuffled crossing order, mirror)
//!   khw <red> <a> <b> ; <link>                impl: builder option h_range: SymTngBuilder::new; set_h_range(a..=b); preprocess; process_all;
//!                                                   finalize; into_khi_complex, truncated to a+1..=b (the cone shifts Q by +1), d.d = 0 there, and the
//!                                                   F2-dimensions of its homology in the interior degrees a+2..=b-1 for h = 0 and h = 1 against
//!                                                   those of the unrestricted KhIComplex::new: "same=1 h0[i=d ...] h1[i=d ...]" | "same=0 ..."
//!   khm <red> <schedule> ; <link>             impl: manual builder schedules (schedule = letters: D = auto_deloop off, E = auto_elim off,
//!                                                   p = eliminate_all before finalize, q = eliminate_all after finalize):
//!                                                   preprocess; process_all; [eliminate_all;] finalize; [eliminate_all;] into_khi_complex;
//!                                                   d.d = 0 over F2 (h = 0, 1) and F2[H], and the F2-dimensions of the homology (h = 0, 1) equal to
//!                                                   those of the automatic schedule: "same=1 h0[...] h1[...]" | "same=0 ..."
use yui::poly::HPoly;
use yui::{FF2};
use yui_homology::{ChainComplexTrait, GridTrait, SummandTrait};
use yui_kh::kh::KhHomology;
use yui_kh::khi::internal::v2::builder::SymTngBuilder;
use yui_kh::khi::{ssi_invariants, KhIComplex, KhIHomology};
use yui_link::{InvLink, Link};
use yui_verif_harness::khutil::*;
use yui_verif_harness::*;

fn pd_of(l: &Link) -> Vec<[usize; 4]> {
    l.data().iter().map(|x| { let e = x.edges(); [e[0], e[1], e[2], e[3]] }).collect()
}
fn inv_of(link: &str) -> InvLink {
    let l = parse_link(link);
    let mirrored = l.data().iter().any(|x| x.ctype() == yui_link::CrossingType::Xm);
    let il = InvLink::sinv_knot_from_code(pd_of(&l));
    if mirrored { il.mirror() } else { il }
}

fn khi_case(l: &InvLink, h: i64, red: bool) -> String {
    let hh = FF2::from(h);
    let kh = KhIHomology::new(l, &hh, &FF2::from(0), red);
    let mut v: Vec<(isize, usize)> = vec![];
    for i in kh.support() { if kh[i].rank() > 0 { v.push((i, kh[i].rank())); } }
    v.sort();
    let mut s = format!("T[{}]", v.iter().map(|(i, d)| format!("{}={}", i, d)).collect::<Vec<_>>().join(" "));
    if h == 0 {
        let g = kh.into_bigraded();
        let mut w: Vec<((isize, isize), usize)> = vec![];
        for idx in g.support() { let r = g.get(idx).rank(); if r > 0 { w.push(((idx.0, idx.1), r)); } }
        w.sort();
        s += &format!(" B[{}]", w.iter().map(|((i, j), d)| format!("({},{})={}", i, j, d)).collect::<Vec<_>>().join(" "));
    }
    s
}

fn sym_case(l: &InvLink, h: i64, red: bool) -> String {
    let hh = FF2::from(h);
    let z = FF2::from(0);
    let c = SymTngBuilder::build_kh_complex(l, &hh, &z, red);
    let a = KhHomology::from(&c);
    let mut va: Vec<(isize, usize)> = a.support().filter(|&i| a[i].rank() > 0).map(|i| (i, a[i].rank())).collect();
    va.sort();
    let ta = va.iter().map(|(i, d)| format!("{}={}", i, d)).collect::<Vec<_>>().join(" ");
    // the ordinary engine on the underlying knot; reduced: the base point of the involutive link is edge 1 =
    // Link::first_edge only if edge 1 is the least edge of the first crossing, so compare unreduced always and
    // reduced through the table of the knot (reduced homology of a knot does not depend on the base point)
    let tb = kh_table::<F2>(l.link(), &hh, &z, red, false);
    if ta == tb { format!("SAME {}", ta) } else { format!("DIFF [{}] [{}]", ta, tb) }
}

fn dims_in<R>(c: &KhIComplex<R>, lo: isize, hi: isize) -> String
where R: yui::EucRing, for<'x> &'x R: yui::EucRingOps<R> {
    let hml = c.homology();
    let mut v: Vec<(isize, usize)> = vec![];
    for i in hml.support() { if lo <= i && i <= hi && hml[i].rank() > 0 { v.push((i, hml[i].rank())); } }
    v.sort();
    v.iter().map(|(i, d)| format!("{}={}", i, d)).collect::<Vec<_>>().join(" ")
}

/// builder option h_range (window a..=b), read off as the repository's own `h_range` test does
fn khw_case(l: &InvLink, red: bool, a: isize, b: isize) -> String {
    let z = FF2::from(0);
    let mut out = vec![];
    for h in [0, 1] {
        let hh = FF2::from(h);
        let full = dims_in(&KhIComplex::new(l, &hh, &z, red), a + 2, b - 1);
        let win = guarded(|| {
            let mut bld = SymTngBuilder::new(l, &hh, &z, red);
            if !(a <= 0 && 0 <= b) {
                // the canonical cycles live in degree 0 and cannot be tracked when that degree is outside the window
                bld.set_elements([]);
            }
            bld.set_h_range(a..=b);
            bld.preprocess();
            bld.process_all();
            bld.finalize();
            let c = bld.into_khi_complex().truncated((a + 1)..=b);
            c.check_d_all();
            dims_in(&c, a + 2, b - 1)
        });
        match win {
            None => return format!("same=0 h={} PANIC (window {}..={}; unrestricted [{}])", h, a, b, full),
            Some(w) if w != full => return format!("same=0 h={} degrees {}..={}: window [{}] unrestricted [{}]", h, a + 2, b - 1, w, full),
            Some(w) => out.push(format!("h{}[{}]", h, w)),
        }
    }
    format!("same=1 {}", out.join(" "))
}

fn build_sched<R>(l: &InvLink, h: &R, red: bool, sched: &str) -> KhIComplex<R>
where R: yui::Ring, for<'x> &'x R: yui::RingOps<R> {
    let mut b = SymTngBuilder::new(l, h, &R::zero(), red);
    if sched.contains('D') { b.auto_deloop = false; }
    if sched.contains('E') { b.auto_elim = false; }
    b.preprocess();
    b.process_all();
    if sched.contains('p') { b.eliminate_all(); }
    b.finalize();
    if sched.contains('q') { b.eliminate_all(); }
    b.into_khi_complex()
}

/// manual schedules of the builder against the automatic one
fn khm_case(l: &InvLink, red: bool, sched: &str) -> String {
    type P = HPoly<'H', FF2>;
    let z = FF2::from(0);
    let mut out = vec![];
    for h in [0, 1] {
        let hh = FF2::from(h);
        let auto = dims_in(&KhIComplex::new(l, &hh, &z, red), isize::MIN, isize::MAX);
        let man = guarded(|| {
            let c = build_sched(l, &hh, red, sched);
            c.check_d_all();
            dims_in(&c, isize::MIN, isize::MAX)
        });
        match man {
            None => return format!("same=0 h={} PANIC (schedule {}; automatic [{}])", h, sched, auto),
            Some(w) if w != auto => return format!("same=0 h={} schedule {} [{}] automatic [{}]", h, sched, w, auto),
            Some(w) => out.push(format!("h{}[{}]", h, w)),
        }
    }
    if guarded(|| build_sched::<P>(l, &P::variable(), red, sched).check_d_all()).is_none() {
        return format!("same=0 h=H PANIC (schedule {}: building the complex over F2[H] or d.d = 0)", sched);
    }
    format!("same=1 {}", out.join(" "))
}

fn run_case(line: &str) -> String {
    let (head, link) = line.split_once(';').unwrap();
    let t: Vec<&str> = head.split_whitespace().collect();
    let red = t[1] == "1";
    let l = inv_of(link);
    match t[0] {
        "khi" => khi_case(&l, t[2].parse().unwrap(), red),
        "sym" => sym_case(&l, t[2].parse().unwrap(), red),
        "khw" => khw_case(&l, red, t[2].parse().unwrap(), t[3].parse().unwrap()),
        "khm" => khm_case(&l, red, t[2]),
        "cxh" => {
            type P = HPoly<'H', FF2>;
            let c = KhIComplex::<P>::new(&l, &P::variable(), &num_traits::Zero::zero(), red);
            match guarded(|| c.check_d_all()) { Some(()) => "OK".into(), None => "FAIL".into() }
        }
        "ssi" => {
            type P = HPoly<'H', FF2>;
            let c = P::variable();
            let f = |l: &InvLink| guarded(|| ssi_invariants(l, &c, red)).map(|(a, b)| format!("{},{}", a, b)).unwrap_or("P".into());
            // the same knot with the crossings listed in another order
            let mut pd = pd_of(l.link());
            pd.reverse();
            let k = pd.len() / 2;
            pd.rotate_left(k);
            let mirrored = l.link().data().iter().any(|x| x.ctype() == yui_link::CrossingType::Xm);
            let sh = InvLink::sinv_knot_from_code(pd);
            let sh = if mirrored { sh.mirror() } else { sh };
            format!("K={} SH={} MIR={}", f(&l), f(&sh), f(&l.mirror()))
        }
        _ => panic!("bad case"),
    }
}

const NAMES: [&str; 23] = ["3_1", "4_1", "5_1", "5_2a", "5_2b", "6_1a", "6_1b", "6_2a", "6_2b", "6_3", "7_1", "7_2a", "7_2b",
    "7_3a", "7_3b", "7_4a", "7_4b", "7_5a", "7_5b", "7_6a", "7_6b", "7_7a", "7_7b"];

/// D = auto_deloop off, E = auto_elim off, p / q = eliminate_all before / after finalize
const SCHEDULES: [&str; 7] = ["Eq", "Epq", "D", "DEq", "DEpq", "Dq", "pq"];

fn main() {
    quiet_panics();
    match parse_args() {
        Mode::Replay { file, out } => {
            let mut o = Out::new(&out);
            for l in read_lines(&file) {
                let res = guarded(|| run_case(&l)).unwrap_or("TOP-PANIC".into());
                o.case(&l, &res);
            }
            o.finish();
        }
        Mode::Gen { seed, thorough, out } => {
            let mut o = Out::new(&out);
            let mut r = Rng::new(seed);
            let mut r2 = Rng::new(seed.wrapping_add(0xC19)); // khw / khm sampling (keeps the older case set unchanged)
            let mut cases: Vec<String> = vec![];
            for name in NAMES.iter() {
                let il = InvLink::load(name).unwrap();
                for mir in [false, true] {
                    let l = if mir { il.mirror() } else { il.clone() };
                    let n = l.link().crossing_num();
                    let (p, q) = l.link().signed_crossing_nums();
                    let ls = link_str(l.link());
                    let oracle_ok = n <= if thorough { 8 } else { 6 };
                    for red in [false, true] {
                        for h in [0, 1] {
                            // quick: a rotating subset of the larger knots
                            if !thorough && n > 6 && r.chance(2, 3) { continue; }
                            cases.push(format!("khi {} {} {} {} {} ; {}", red as u8, h, p, q, oracle_ok as u8, ls));
                            cases.push(format!("sym {} {} {} {} {} ; {}", red as u8, h, p, q, oracle_ok as u8, ls));
                        }
                        if n <= 6 || thorough || r.chance(1, 3) {
                            cases.push(format!("cxh {} ; {}", red as u8, ls));
                            cases.push(format!("ssi {} ; {}", red as u8, ls));
                        }
                        // builder option h_range: windows sliding over the whole support hmin..=hmax of the cone of 1+tau
                        // (quick: every window of width 4 up to 7 crossings, a rotating quarter of them above)
                        let (hmin, hmax) = (-(q as isize), (n as isize) - (q as isize) + 1);
                        let widths: Vec<isize> = if thorough { vec![3, 4, 6] } else { vec![4] };
                        for w in widths {
                            for a in (hmin - 1)..=(hmax - w + 1) {
                                if !thorough && n > 7 && r2.chance(3, 4) { continue; }
                                cases.push(format!("khw {} {} {} ; {}", red as u8, a, a + w, ls));
                            }
                        }
                        // manual schedules (quick: all of them up to 5 crossings, a rotating subset above)
                        for sc in SCHEDULES.iter() {
                            if !thorough && ((n == 6 && r2.chance(4, 7)) || (n == 7 && r2.chance(6, 7)) || (n > 7 && r2.chance(20, 21))) { continue; }
                            cases.push(format!("khm {} {} ; {}", red as u8, sc, ls));
                        }
                    }
                }
            }
            // strongly invertible pretzel diagrams whose off-axis crossings form TWO groups on each side of the axis
            // (every table knot has one): P(3,1,2,1,1) in two listings, P(1,1,2,1,3), P(3,1,4,1,1)
            let pretzels: Vec<Vec<[usize; 4]>> = vec![
                vec![[6,13,7,14],[12,5,13,6],[4,11,5,12],[10,7,11,8],[16,10,1,9],[8,2,9,1],[2,15,3,16],[14,3,15,4]],
                vec![[6,13,7,14],[8,2,9,1],[4,11,5,12],[16,10,1,9],[12,5,13,6],[10,7,11,8],[2,15,3,16],[14,3,15,4]],
                vec![[6,11,7,12],[10,7,11,8],[16,10,1,9],[8,2,9,1],[2,15,3,16],[12,3,13,4],[4,13,5,14],[14,5,15,6]],
                vec![[4,15,5,16],[16,5,17,6],[6,17,7,18],[18,3,19,4],[12,20,13,19],[20,12,1,11],[10,2,11,1],[2,10,3,9],[8,13,9,14],[14,7,15,8]],
            ];
            for (k, code) in pretzels.iter().enumerate() {
                if !thorough && k == 3 { continue; }
                let base = Link::from_pd_code(code.clone());
                for mir in [false, true] {
                    if !thorough && mir && k != 0 { continue; }
                    let l = if mir { base.mirror() } else { base.clone() };
                    let n = l.crossing_num();
                    let (p, q) = l.signed_crossing_nums();
                    let ls = link_str(&l);
                    let oracle_ok = thorough && n <= 8;
                    for red in [false, true] {
                        cases.push(format!("khi {} {} {} {} {} ; {}", red as u8, 0, p, q, oracle_ok as u8, ls));
                        cases.push(format!("sym {} {} {} {} {} ; {}", red as u8, 1, p, q, oracle_ok as u8, ls));
                        cases.push(format!("ssi {} ; {}", red as u8, ls));
                        cases.push(format!("cxh {} ; {}", red as u8, ls));
                        if thorough || (k == 0 && !red) {
                            let (hmin, hmax) = (-(q as isize), (n as isize) - (q as isize) + 1);
                            for a in (hmin - 1)..=(hmax - 3) {
                                if !thorough && r2.chance(3, 4) { continue; }
                                cases.push(format!("khw {} {} {} ; {}", red as u8, a, a + 4, ls));
                            }
                            let sc = SCHEDULES[r2.below(SCHEDULES.len() as u64) as usize];
                            cases.push(format!("khm {} {} ; {}", red as u8, sc, ls));
                        }
                    }
                }
            }
            // thorough: the model side runs the case list in 16 contiguous shards, and the cone oracle on the 7- and 8-crossing
            // diagrams dominates its running time; deal those cases round-robin over the 16 blocks (order of the list only)
            if thorough {
                let costly = |c: &String| -> bool {
                    let (head, link) = c.split_once(';').unwrap();
                    (c.starts_with("khi") || c.starts_with("sym")) && head.trim_end().ends_with(" 1") && link.matches(',').count() >= 6
                };
                let (heavy, light): (Vec<String>, Vec<String>) = cases.iter().cloned().partition(costly);
                let k = 16;
                let size = (cases.len() + k - 1) / k;
                let mut buckets: Vec<Vec<String>> = vec![vec![]; k];
                for (i, c) in heavy.into_iter().enumerate() { buckets[i % k].push(c); }
                let mut j = 0;
                for c in light.into_iter() {
                    while j + 1 < k && buckets[j].len() >= size { j += 1; }
                    buckets[j].push(c);
                }
                cases = buckets.into_iter().flatten().collect();
            }
            use rayon::prelude::*;
            let results: Vec<String> = cases.par_iter().map(|c| guarded(|| run_case(c)).unwrap_or("TOP-PANIC".into())).collect();
            for (c, res) in cases.iter().zip(results.iter()) { o.case(c, res); }
            o.finish();
        }
    }
}
