//! C11 correspondence harness: the parallel pivot search of yui-matrix (sparse/pivot.rs) under a
//! controlled schedule, validated against the Coq model (Model/Pivot.v) by trace replay.
//!
//! Built with `--cfg yui_verif`, so `yui_matrix::sparse::verif_hook` exists.  The installed point
//! callback parks the calling rayon worker at the schedule points "start", "searched" and "retry"
//! ("commit" is only recorded); a controller (this thread) waits until every worker of the pool is
//! parked or asleep, picks one parked worker according to the schedule policy, releases exactly it and
//! waits again.  The code between two schedule points is one atomic step of the model, so the recorded
//! run is an interleaving of model steps; the case line carries the matrix structure, the recorded
//! interleaving with every observed payload, the returned pivot list and the permutations; the model
//! driver (ocaml/c11_driver.ml) replays the steps and must predict every payload and the pivot set.
//!
//! Case line (sections separated by " | "):
//!   ctl <policy> <seed> <ring> <R|C> <cond> <nr> <nc> <k> | <entries> | <triplets> | <trace> | <ret> | <p> | <q>
//!   unc <ring> <R|C> <cond> <nr> <nc> <k>                 | <entries> | <triplets> | <ret> | <p> | <q>
//!   seq <ring> <R|C> <cond> <nr> <nc>                     | <entries> | <triplets> | <ret> | <p> | <q>
//!   stats <key=value ...>
//! Result line: "OK" when the run completed and the returned list satisfies the property's predicate
//! (checked here on the real matrix with the real ring operations), else what failed.
use std::collections::BTreeMap;
use std::sync::atomic::{AtomicBool, AtomicU64, Ordering::SeqCst};
use std::sync::{mpsc, Arc, Condvar, Mutex};
use std::time::{Duration, Instant};

use num_traits::Zero;
use yui::poly::Poly;
use yui::{Ratio, Ring, RingOps, FF};
use yui_matrix::sparse::pivot::{find_pivots, perms_by_pivots, PivotCondition, PivotType};
use yui_matrix::sparse::{verif_hook, SpMat};
use yui_verif_harness::*;

// ---------------------------------------------------------------------------------------------
// ring element specifications (generator side, independent of the implementation)
// ---------------------------------------------------------------------------------------------
#[derive(Clone, Debug, PartialEq)]
enum Spec {
    Z(i64),
    Q(i64, i64),           // numerator, denominator (> 0), lowest terms
    F(i64),                // residue 0..p-1 (p from the ring name)
    P(Vec<(usize, i64)>),  // sum of c*H^d, distinct degrees, c != 0, sorted by degree
}

#[derive(Clone, Copy, Debug, PartialEq)]
struct Obs {
    nz: bool,
    pm1: bool,
    unit: bool,
    w: i64,
}

fn gcd(a: i64, b: i64) -> i64 {
    let (mut a, mut b) = (a.abs(), b.abs());
    while b != 0 {
        let t = a % b;
        a = b;
        b = t;
    }
    a
}

fn mkq(n: i64, d: i64) -> Spec {
    let g = gcd(n, d).max(1);
    let (mut n, mut d) = (n / g, d / g);
    if d < 0 {
        n = -n;
        d = -d;
    }
    if n == 0 {
        d = 1;
    }
    Spec::Q(n, d)
}

/// what MatrixStr::new observes of an element: is_zero, is_pm_one, is_unit, c_weight
fn obs_of(ring: &str, s: &Spec) -> Obs {
    match s {
        Spec::Z(x) => Obs { nz: *x != 0, pm1: x.abs() == 1, unit: x.abs() == 1, w: x.abs() },
        Spec::Q(n, d) => Obs { nz: *n != 0, pm1: n.abs() == 1 && *d == 1, unit: *n != 0, w: n.abs().max(*d) },
        Spec::F(v) => {
            let p: i64 = ring[1..].parse().unwrap();
            Obs { nz: *v != 0, pm1: *v == 1 || *v == p - 1, unit: *v != 0, w: if *v != 0 { 1 } else { 0 } }
        }
        Spec::P(ts) => {
            let konst = ts.len() == 1 && ts[0].0 == 0;
            let pm = konst && ts[0].1.abs() == 1;
            Obs { nz: !ts.is_empty(), pm1: pm, unit: pm, w: if ts.is_empty() { 0 } else { 1 } }
        }
    }
}

fn spec_str(s: &Spec) -> String {
    match s {
        Spec::Z(x) => x.to_string(),
        Spec::Q(n, d) => format!("{}/{}", n, d),
        Spec::F(v) => v.to_string(),
        Spec::P(ts) => {
            if ts.is_empty() {
                "0".into()
            } else {
                ts.iter().map(|(d, c)| format!("{}x{}", c, d)).collect::<Vec<_>>().join("+")
            }
        }
    }
}

fn parse_spec(ring: &str, s: &str) -> Spec {
    match ring.as_bytes()[0] {
        b'Z' => Spec::Z(s.parse().unwrap()),
        b'Q' => {
            let (n, d) = s.split_once('/').unwrap();
            mkq(n.parse().unwrap(), d.parse().unwrap())
        }
        b'F' => Spec::F(s.parse().unwrap()),
        _ => {
            if s == "0" {
                Spec::P(vec![])
            } else {
                Spec::P(
                    s.split('+')
                        .map(|t| {
                            let (c, d) = t.split_once('x').unwrap();
                            (d.parse().unwrap(), c.parse().unwrap())
                        })
                        .collect(),
                )
            }
        }
    }
}

#[derive(Clone, Copy, Debug, PartialEq)]
enum Cond {
    One,
    AnyUnit,
    Weight(i64),
}

impl Cond {
    fn ok(&self, o: &Obs) -> bool {
        match self {
            Cond::One => o.pm1,
            Cond::AnyUnit => o.unit,
            Cond::Weight(w) => o.unit && o.w <= *w,
        }
    }
    fn real(&self) -> PivotCondition {
        match self {
            Cond::One => PivotCondition::One,
            Cond::AnyUnit => PivotCondition::AnyUnit,
            Cond::Weight(w) => PivotCondition::Weight(*w as f64),
        }
    }
    fn s(&self) -> String {
        match self {
            Cond::One => "O".into(),
            Cond::AnyUnit => "U".into(),
            Cond::Weight(w) => format!("W{}", w),
        }
    }
    fn parse(s: &str) -> Cond {
        match s {
            "O" => Cond::One,
            "U" => Cond::AnyUnit,
            _ => Cond::Weight(s[1..].parse().unwrap()),
        }
    }
}

/// a generated matrix: shape and pushed entries (duplicates are summed by SpMat::from_entries, which
/// can leave an explicitly stored zero; only the ring Z uses duplicates)
#[derive(Clone, Debug)]
struct MatSpec {
    ring: String,
    nr: usize,
    nc: usize,
    entries: Vec<(usize, usize, Spec)>,
}

impl MatSpec {
    /// the stored triplets in the order of a.iter() (CSC: by column, rows ascending), computed
    /// without the implementation
    fn triplets(&self) -> Vec<(usize, usize, Obs)> {
        let mut m: BTreeMap<(usize, usize), Spec> = BTreeMap::new();
        for (i, j, s) in &self.entries {
            if !obs_of(&self.ring, s).nz {
                continue; // from_entries skips zero values
            }
            match m.get_mut(&(*j, *i)) {
                None => {
                    m.insert((*j, *i), s.clone());
                }
                Some(old) => match (old.clone(), s) {
                    (Spec::Z(a), Spec::Z(b)) => *old = Spec::Z(a + b),
                    _ => panic!("duplicate entries only for Z"),
                },
            }
        }
        m.into_iter().map(|((j, i), s)| (i, j, obs_of(&self.ring, &s))).collect()
    }
    fn entries_str(&self) -> String {
        if self.entries.is_empty() {
            return "-".into();
        }
        self.entries.iter().map(|(i, j, s)| format!("{},{},{}", i, j, spec_str(s))).collect::<Vec<_>>().join(" ")
    }
    fn triplets_str(&self) -> String {
        let t = self.triplets();
        if t.is_empty() {
            return "-".into();
        }
        t.iter()
            .map(|(i, j, o)| format!("{},{},{},{},{},{}", i, j, o.nz as u8, o.pm1 as u8, o.unit as u8, o.w))
            .collect::<Vec<_>>()
            .join(" ")
    }
}

// ---------------------------------------------------------------------------------------------
// the real ring types
// ---------------------------------------------------------------------------------------------
type PolyH = Poly<'H', i64>;

trait FromSpec: Sized {
    fn from_spec(s: &Spec) -> Self;
}
impl FromSpec for i64 {
    fn from_spec(s: &Spec) -> Self {
        match s {
            Spec::Z(x) => *x,
            _ => panic!(),
        }
    }
}
impl FromSpec for Ratio<i64> {
    fn from_spec(s: &Spec) -> Self {
        match s {
            Spec::Q(n, d) => Ratio::new(*n, *d),
            _ => panic!(),
        }
    }
}
impl<const P: i32> FromSpec for FF<P> {
    fn from_spec(s: &Spec) -> Self {
        match s {
            Spec::F(v) => FF::<P>::new(*v as i32),
            _ => panic!(),
        }
    }
}
impl FromSpec for PolyH {
    fn from_spec(s: &Spec) -> Self {
        match s {
            Spec::P(ts) => {
                let mut f = PolyH::zero();
                for (d, c) in ts {
                    f = f + PolyH::from((PolyH::mono(*d), *c));
                }
                f
            }
            _ => panic!(),
        }
    }
}

fn real_obs<R>(r: &R) -> Obs
where
    R: Ring,
    for<'x> &'x R: RingOps<R>,
{
    let w = r.c_weight();
    Obs { nz: !r.is_zero(), pm1: r.is_pm_one(), unit: r.is_unit(), w: if w.fract() == 0.0 && w.abs() < 1e15 { w as i64 } else { -1 } }
}

// ---------------------------------------------------------------------------------------------
// controlled execution
// ---------------------------------------------------------------------------------------------
#[derive(Clone, Debug)]
struct Ev {
    seq: u64,
    t: usize,
    kind: &'static str,
    row: usize,
    col: Option<usize>,
    len: usize,
}
#[derive(Clone, Debug)]
struct Dec {
    seq: u64,
    t: usize,
    kind: &'static str,
    row: usize,
}

struct St {
    seq: u64,
    parked: Vec<Option<(&'static str, usize)>>,
    release: Vec<bool>,
    events: Vec<Ev>,
    abort: bool,
}

struct Shared {
    st: Mutex<St>,
    cv: Condvar,
    in_hook: Vec<AtomicBool>,
    exits: Vec<AtomicU64>,
    tids: Vec<u32>,
}

fn current_tid() -> u32 {
    thread_local! {
        static TID: u32 = std::fs::read_link("/proc/thread-self")
            .ok()
            .and_then(|p| p.file_name().and_then(|s| s.to_str().and_then(|s| s.parse().ok())))
            .unwrap_or(0);
    }
    TID.with(|t| *t)
}

/// scheduler state of an OS thread: 'R' running/runnable, 'S' sleeping (futex wait), ...
fn thread_state(tid: u32) -> Option<char> {
    let s = std::fs::read_to_string(format!("/proc/self/task/{}/stat", tid)).ok()?;
    let k = s.rfind(')')?;
    s[k + 1..].trim_start().chars().next()
}

struct Pool {
    pool: rayon::ThreadPool,
    tids: Vec<u32>,
}

fn make_pool(k: usize) -> Pool {
    let tids = Arc::new(Mutex::new(vec![0u32; k]));
    let t2 = tids.clone();
    let pool = rayon::ThreadPoolBuilder::new()
        .num_threads(k)
        .start_handler(move |idx| {
            t2.lock().unwrap()[idx] = current_tid();
        })
        .build()
        .unwrap();
    // wait until every worker has registered
    let t0 = Instant::now();
    loop {
        if tids.lock().unwrap().iter().all(|&t| t != 0) || t0.elapsed() > Duration::from_secs(2) {
            break;
        }
        std::thread::sleep(Duration::from_micros(100));
    }
    let v = tids.lock().unwrap().clone();
    Pool { pool, tids: v }
}

#[derive(Clone, Copy, Debug, PartialEq)]
enum Policy {
    Rand,
    Conflict,    // all searching before any commit: prefer workers parked at "start" / "retry"
    RoundRobin,
    CommitFirst, // prefer workers that have searched (close to the sequential order)
    Low,         // always the lowest worker index
}
const POLICIES: [Policy; 5] = [Policy::Rand, Policy::Conflict, Policy::RoundRobin, Policy::CommitFirst, Policy::Low];
impl Policy {
    fn s(&self) -> &'static str {
        match self {
            Policy::Rand => "rand",
            Policy::Conflict => "conf",
            Policy::RoundRobin => "rr",
            Policy::CommitFirst => "cf",
            Policy::Low => "low",
        }
    }
    fn parse(s: &str) -> Policy {
        *POLICIES.iter().find(|p| p.s() == s).unwrap_or(&Policy::Rand)
    }
}

enum Outcome {
    Done(Vec<(usize, usize)>),
    Panic,
    Deadlock,
}

struct Run {
    outcome: Outcome,
    events: Vec<Ev>,
    decisions: Vec<Dec>,
}

const WATCHDOG: Duration = Duration::from_secs(4);

fn spin_pause(us: u64) {
    let t0 = Instant::now();
    while t0.elapsed() < Duration::from_micros(us) {
        std::hint::spin_loop();
    }
}

/// one sweep over the pool: Some(signature) when every worker is parked at a schedule point or asleep
/// outside the hook (idle in rayon)
fn sweep(sh: &Shared, no_proc: bool) -> Option<(u64, Vec<bool>, Vec<u64>)> {
    let (seq, parked) = {
        let st = sh.st.lock().unwrap();
        (st.seq, st.parked.iter().map(|p| p.is_some()).collect::<Vec<_>>())
    };
    for t in 0..parked.len() {
        if !parked[t] {
            if !no_proc {
                // order matters: state first, then the flag (see the module comment of the check)
                if thread_state(sh.tids[t]) != Some('S') {
                    return None;
                }
            }
            if sh.in_hook[t].load(SeqCst) {
                return None;
            }
        }
    }
    let exits = sh.exits.iter().map(|e| e.load(SeqCst)).collect();
    Some((seq, parked, exits))
}

fn quiescent(sh: &Shared, no_proc: bool) -> bool {
    let Some(a) = sweep(sh, no_proc) else { return false };
    if no_proc {
        std::thread::sleep(Duration::from_millis(4));
    } else {
        spin_pause(30);
    }
    let Some(b) = sweep(sh, no_proc) else { return false };
    a == b
}

fn run_controlled<F>(pool: &'static Pool, k: usize, policy: Policy, rng: &mut Rng, job: F) -> Run
where
    F: FnOnce() -> Vec<(usize, usize)> + Send + 'static,
{
    let no_proc = pool.tids.iter().any(|&t| t == 0) || thread_state(pool.tids[0]).is_none();
    let sh = Arc::new(Shared {
        st: Mutex::new(St { seq: 0, parked: vec![None; k], release: vec![false; k], events: vec![], abort: false }),
        cv: Condvar::new(),
        in_hook: (0..k).map(|_| AtomicBool::new(false)).collect(),
        exits: (0..k).map(|_| AtomicU64::new(0)).collect(),
        tids: pool.tids.clone(),
    });
    let sh2 = sh.clone();
    let cb: verif_hook::PointCallback = Arc::new(move |kind, row, col, len| {
        let Some(t) = rayon::current_thread_index() else { return };
        if t >= sh2.tids.len() || (sh2.tids[t] != 0 && sh2.tids[t] != current_tid()) {
            return; // a worker of some other (abandoned) pool
        }
        sh2.in_hook[t].store(true, SeqCst);
        {
            let mut st = sh2.st.lock().unwrap();
            st.seq += 1;
            let seq = st.seq;
            st.events.push(Ev { seq, t, kind, row, col, len });
            if kind != "commit" && !st.abort {
                st.parked[t] = Some((kind, row));
                while !st.release[t] && !st.abort {
                    st = sh2.cv.wait(st).unwrap();
                }
                st.release[t] = false;
                st.parked[t] = None;
            }
        }
        sh2.exits[t].fetch_add(1, SeqCst);
        sh2.in_hook[t].store(false, SeqCst);
    });
    verif_hook::install_point_callback(Some(cb));

    let done = Arc::new(AtomicBool::new(false));
    let (tx, rx) = mpsc::channel();
    let done2 = done.clone();
    // the pool is entered from a separate OS thread so that a hang cannot take the harness with it
    let pool_ref: &'static rayon::ThreadPool = &pool.pool;
    std::thread::spawn(move || {
        let r = guarded(|| pool_ref.install(job));
        done2.store(true, SeqCst);
        let _ = tx.send(r);
    });

    let mut decisions: Vec<Dec> = vec![];
    let mut last_progress = Instant::now();
    let mut deadlock = false;
    let mut rr_last = usize::MAX; // round robin position (MAX = none yet)
    'outer: loop {
        if done.load(SeqCst) {
            break;
        }
        if !quiescent(&sh, no_proc) {
            if last_progress.elapsed() > WATCHDOG {
                deadlock = true;
                break;
            }
            continue;
        }
        if done.load(SeqCst) {
            break;
        }
        let mut st = sh.st.lock().unwrap();
        let parked: Vec<(usize, &'static str, usize)> =
            st.parked.iter().enumerate().filter_map(|(t, p)| p.map(|(kd, row)| (t, kd, row))).collect();
        if parked.is_empty() {
            drop(st);
            if last_progress.elapsed() > WATCHDOG {
                deadlock = true;
                break;
            }
            spin_pause(50);
            continue;
        }
        let pick = |r: &mut Rng, v: &Vec<(usize, &'static str, usize)>| v[r.below(v.len() as u64) as usize];
        let choice = match policy {
            Policy::Rand => pick(rng, &parked),
            Policy::Conflict => {
                let pre: Vec<_> = parked.iter().copied().filter(|p| p.1 != "searched").collect();
                if pre.is_empty() { pick(rng, &parked) } else { pick(rng, &pre) }
            }
            Policy::CommitFirst => {
                let pre: Vec<_> = parked.iter().copied().filter(|p| p.1 == "searched").collect();
                if pre.is_empty() { pick(rng, &parked) } else { pick(rng, &pre) }
            }
            Policy::RoundRobin => {
                let c = parked.iter().copied().find(|p| rr_last != usize::MAX && p.0 > rr_last).unwrap_or(parked[0]);
                rr_last = c.0;
                c
            }
            Policy::Low => parked[0],
        };
        let (t, kd, row) = choice;
        st.seq += 1;
        let seq = st.seq;
        decisions.push(Dec { seq, t, kind: kd, row });
        let before = sh.exits[t].load(SeqCst);
        st.release[t] = true;
        drop(st);
        sh.cv.notify_all();
        // wait until the released worker has left the hook
        loop {
            if sh.exits[t].load(SeqCst) != before {
                break;
            }
            if last_progress.elapsed() > WATCHDOG {
                deadlock = true;
                break 'outer;
            }
            std::hint::spin_loop();
        }
        last_progress = Instant::now();
    }
    let outcome = if deadlock {
        // let everything drain (a real deadlock leaves the threads behind)
        {
            let mut st = sh.st.lock().unwrap();
            st.abort = true;
        }
        sh.cv.notify_all();
        let _ = rx.recv_timeout(Duration::from_secs(1));
        Outcome::Deadlock
    } else {
        match rx.recv_timeout(WATCHDOG) {
            Ok(Some(v)) => Outcome::Done(v),
            Ok(None) => Outcome::Panic,
            Err(_) => Outcome::Deadlock,
        }
    };
    verif_hook::install_point_callback(None);
    let events = sh.st.lock().unwrap().events.clone();
    Run { outcome, events, decisions }
}

/// the recorded interleaving as model events with observed payloads; None = the controller released a
/// worker before the previous one had reached its next schedule point (timing glitch: trace unusable)
fn assemble_trace(k: usize, run: &Run) -> Option<Vec<String>> {
    let mut per: Vec<Vec<&Ev>> = vec![vec![]; k];
    for e in &run.events {
        per[e.t].push(e);
    }
    let mut cur = vec![0usize; k];
    let mut out = vec![];
    for (di, d) in run.decisions.iter().enumerate() {
        let next_seq = run.decisions.get(di + 1).map(|d| d.seq).unwrap_or(u64::MAX);
        let evs = &per[d.t];
        let mut c = cur[d.t];
        while c < evs.len() && evs[c].kind == "commit" {
            c += 1;
        }
        if c >= evs.len() || evs[c].kind != d.kind || evs[c].row != d.row || evs[c].seq > d.seq {
            return None;
        }
        let nxt = evs.get(c + 1).filter(|e| e.row == d.row && e.kind != "start");
        if let Some(e) = nxt {
            if e.seq > next_seq {
                return None;
            }
        }
        let tok = match d.kind {
            "start" | "retry" => {
                let lhs = if d.kind == "start" { format!("S{}:{}", d.t, d.row) } else { format!("R{}", d.t) };
                match nxt {
                    Some(e) if e.kind == "searched" => format!("{}=s{}:{}", lhs, e.col.unwrap_or(usize::MAX), e.len),
                    Some(_) => format!("{}=?", lhs),
                    None => format!("{}=n", lhs),
                }
            }
            _ => match nxt {
                Some(e) if e.kind == "retry" => format!("E{}=r{}", d.t, e.len),
                Some(e) if e.kind == "commit" => format!("E{}=c{}:{}", d.t, e.col.unwrap_or(usize::MAX), e.len),
                _ => format!("E{}=?", d.t),
            },
        };
        out.push(tok);
        cur[d.t] = c + 1;
    }
    Some(out)
}

// ---------------------------------------------------------------------------------------------
// the property's predicate on the implementation's result, and the case line
// ---------------------------------------------------------------------------------------------
fn build_real<R>(ms: &MatSpec) -> SpMat<R>
where
    R: Ring + FromSpec,
    for<'x> &'x R: RingOps<R>,
{
    SpMat::from_entries((ms.nr, ms.nc), ms.entries.iter().map(|(i, j, s)| (*i, *j, R::from_spec(s))))
}

/// returns (verdict, p, q)
fn predicate<R>(ms: &MatSpec, a: &SpMat<R>, pt: PivotType, cond: Cond, pivs: &[(usize, usize)]) -> (String, String, String)
where
    R: Ring,
    for<'x> &'x R: RingOps<R>,
{
    let none = ("-".to_string(), "-".to_string());
    // the stored triplets as the implementation iterates them vs the independent computation
    let mine = ms.triplets();
    let theirs: Vec<(usize, usize, Obs)> = a.iter().map(|(i, j, r)| (i, j, real_obs(r))).collect();
    if mine != theirs {
        return (format!("TRIPLETS-DIFFER mine={:?} impl={:?}", mine, theirs), none.0, none.1);
    }
    let mut dense: BTreeMap<(usize, usize), Obs> = BTreeMap::new();
    for (i, j, o) in &mine {
        dense.insert((*i, *j), *o);
    }
    let r = pivs.len();
    let mut rows: Vec<usize> = pivs.iter().map(|p| p.0).collect();
    let mut cols: Vec<usize> = pivs.iter().map(|p| p.1).collect();
    rows.sort();
    cols.sort();
    if rows.windows(2).any(|w| w[0] == w[1]) {
        return ("PRED rows not distinct".into(), none.0, none.1);
    }
    if cols.windows(2).any(|w| w[0] == w[1]) {
        return ("PRED cols not distinct".into(), none.0, none.1);
    }
    if pivs.iter().any(|&(i, j)| i >= ms.nr || j >= ms.nc) {
        return ("PRED pivot out of range".into(), none.0, none.1);
    }
    for &(i, j) in pivs {
        match dense.get(&(i, j)) {
            Some(o) if o.nz && cond.ok(o) => {}
            _ => return (format!("PRED pivot ({},{}) does not satisfy the condition", i, j), none.0, none.1),
        }
    }
    let Some((p, q)) = guarded(|| perms_by_pivots(a, pivs)) else {
        return ("PRED perms_by_pivots panics".into(), none.0, none.1);
    };
    let (pv, qv) = (p.vec(), q.vec());
    let js = |v: &Vec<usize>| if v.is_empty() { "-".to_string() } else { v.iter().map(|x| x.to_string()).collect::<Vec<_>>().join(",") };
    let Some(b) = guarded(|| a.permute(p.view(), q.view()).into_dense()) else {
        return ("PRED permute panics".into(), js(&pv), js(&qv));
    };
    for x in 0..r {
        let d = real_obs(&b[(x, x)]);
        if !(d.nz && cond.ok(&d)) {
            return (format!("PRED diagonal entry {} of the permuted matrix does not satisfy the condition", x), js(&pv), js(&qv));
        }
        for y in 0..r {
            let below = match pt {
                PivotType::Rows => x > y,
                PivotType::Cols => x < y,
            };
            if below && !b[(x, y)].is_zero() {
                return (format!("PRED permuted block not triangular at ({},{})", x, y), js(&pv), js(&qv));
            }
        }
    }
    ("OK".into(), js(&pv), js(&qv))
}

fn pt_real(pt: &str) -> PivotType {
    if pt == "R" { PivotType::Rows } else { PivotType::Cols }
}

fn pairs_str(v: &[(usize, usize)]) -> String {
    if v.is_empty() {
        "-".into()
    } else {
        v.iter().map(|(i, j)| format!("{}:{}", i, j)).collect::<Vec<_>>().join(" ")
    }
}

struct Stats {
    traces: usize,
    timing_invalid: usize,
    deadlocks: usize,
    panics: usize,
}

/// pools are created once per size and never dropped (a pool that may contain stuck threads is
/// abandoned and replaced)
struct Pools {
    pools: Vec<Option<&'static Pool>>,
}
impl Pools {
    fn get(&mut self, k: usize) -> &'static Pool {
        if self.pools.len() <= k {
            self.pools.resize_with(k + 1, || None);
        }
        if self.pools[k].is_none() {
            self.pools[k] = Some(Box::leak(Box::new(make_pool(k))));
        }
        self.pools[k].unwrap()
    }
    fn discard(&mut self, k: usize) {
        self.pools[k] = None;
    }
}

fn ctl_case<R>(o: &mut Out, pools: &mut Pools, stats: &mut Stats, ms: &MatSpec, pt: &str, cond: Cond, k: usize, policy: Policy, seed: u64)
where
    R: Ring + FromSpec,
    for<'x> &'x R: RingOps<R>,
{
    let a: Arc<SpMat<R>> = Arc::new(build_real::<R>(ms));
    let mut attempt = 0;
    loop {
        let mut rng = Rng::new(seed.wrapping_add(attempt));
        let a2 = a.clone();
        let (ptr, cr) = (pt_real(pt), cond.real());
        let run = run_controlled(pools.get(k), k, policy, &mut rng, move || find_pivots(&*a2, ptr, cr));
        let trace = assemble_trace(k, &run);
        if trace.is_none() && matches!(run.outcome, Outcome::Done(_)) && attempt < 5 {
            stats.timing_invalid += 1;
            attempt += 1;
            continue;
        }
        let trace_s = match &trace {
            Some(t) if !t.is_empty() => t.join(" "),
            Some(_) => "-".into(),
            None => "!TIMING".into(),
        };
        let head = format!("ctl {} {} {} {} {} {} {} {}", policy.s(), seed, ms.ring, pt, cond.s(), ms.nr, ms.nc, k);
        let (ret_s, verdict, p, q) = match &run.outcome {
            Outcome::Done(pivs) => {
                let (v, p, q) = predicate(ms, &a, pt_real(pt), cond, pivs);
                (pairs_str(pivs), v, p, q)
            }
            Outcome::Panic => {
                stats.panics += 1;
                ("!PANIC".into(), "PANIC".into(), "-".into(), "-".into())
            }
            Outcome::Deadlock => {
                stats.deadlocks += 1;
                pools.discard(k);
                ("!DEADLOCK".into(), "DEADLOCK".into(), "-".into(), "-".into())
            }
        };
        stats.traces += 1;
        o.case(&format!("{} | {} | {} | {} | {} | {} | {}", head, ms.entries_str(), ms.triplets_str(), trace_s, ret_s, p, q), &verdict);
        return;
    }
}

/// uncontrolled run (no callback): k workers race freely; "seq" = one worker
fn unc_case<R>(o: &mut Out, pools: &mut Pools, stats: &mut Stats, ms: &MatSpec, pt: &str, cond: Cond, k: usize)
where
    R: Ring + FromSpec,
    for<'x> &'x R: RingOps<R>,
{
    verif_hook::install_point_callback(None);
    let a: Arc<SpMat<R>> = Arc::new(build_real::<R>(ms));
    let a2 = a.clone();
    let (ptr, cr) = (pt_real(pt), cond.real());
    let (tx, rx) = mpsc::channel();
    let pool_ref: &'static rayon::ThreadPool = &pools.get(k).pool;
    std::thread::spawn(move || {
        let r = guarded(|| pool_ref.install(move || find_pivots(&*a2, ptr, cr)));
        let _ = tx.send(r);
    });
    let head = if k == 1 {
        format!("seq {} {} {} {} {}", ms.ring, pt, cond.s(), ms.nr, ms.nc)
    } else {
        format!("unc {} {} {} {} {} {}", ms.ring, pt, cond.s(), ms.nr, ms.nc, k)
    };
    let (ret_s, verdict, p, q) = match rx.recv_timeout(WATCHDOG * 2) {
        Ok(Some(pivs)) => {
            let (v, p, q) = predicate(ms, &a, pt_real(pt), cond, &pivs);
            (pairs_str(&pivs), v, p, q)
        }
        Ok(None) => {
            stats.panics += 1;
            ("!PANIC".into(), "PANIC".into(), "-".into(), "-".into())
        }
        Err(_) => {
            stats.deadlocks += 1;
            pools.discard(k);
            ("!DEADLOCK".into(), "DEADLOCK".into(), "-".into(), "-".into())
        }
    };
    o.case(&format!("{} | {} | {} | {} | {} | {}", head, ms.entries_str(), ms.triplets_str(), ret_s, p, q), &verdict);
}

macro_rules! dispatch {
    ($ring:expr, $f:ident, $($args:expr),*) => {
        match $ring {
            "Z" => $f::<i64>($($args),*),
            "Q" => $f::<Ratio<i64>>($($args),*),
            "F3" => $f::<FF<3>>($($args),*),
            "F5" => $f::<FF<5>>($($args),*),
            "P" => $f::<PolyH>($($args),*),
            r => panic!("ring {}", r),
        }
    };
}

// ---------------------------------------------------------------------------------------------
// generators
// ---------------------------------------------------------------------------------------------
const RINGS: [&str; 5] = ["Z", "Q", "F3", "F5", "P"];

fn rand_unitish(r: &mut Rng, ring: &str) -> Spec {
    // mostly candidates, sometimes non-units / heavier units
    match ring {
        "Z" => Spec::Z(*r.pick(&[1, 1, 1, -1, -1, 2, -2, 3])),
        "Q" => {
            let (n, d) = *r.pick(&[(1, 1), (1, 1), (-1, 1), (1, 2), (2, 1), (-3, 2), (2, 3), (1, 1)]);
            mkq(n, d)
        }
        "F3" => Spec::F(1 + r.below(2) as i64),
        "F5" => Spec::F(1 + r.below(4) as i64),
        _ => match r.below(8) {
            0 => Spec::P(vec![(1, 1)]),
            1 => Spec::P(vec![(0, 2)]),
            2 => Spec::P(vec![(0, 1), (1, 1)]),
            3 => Spec::P(vec![(0, -1)]),
            _ => Spec::P(vec![(0, 1)]),
        },
    }
}

fn rand_nonunit(r: &mut Rng, ring: &str) -> Spec {
    match ring {
        "Z" => Spec::Z(*r.pick(&[2, -2, 3, 5])),
        "Q" => mkq(*r.pick(&[5, 7, -5]), *r.pick(&[1, 3])), // units of Q but heavy: excluded by One / small Weight
        "F3" => Spec::F(2),
        "F5" => Spec::F(2 + r.below(2) as i64),               // units, not +-1
        _ => Spec::P(vec![(1, 1)]),
    }
}

/// matrices are generated in the coordinates of the pivot search (for PivotType::Cols the caller
/// transposes), so that the structured families hit the parallel phase for both pivot types
fn gen_matrix(r: &mut Rng, ring: &str, maxdim: usize) -> MatSpec {
    let dim = |r: &mut Rng| {
        if r.chance(2, 3) { maxdim / 2 + r.below(maxdim as u64 / 2 + 1) as usize } else { 1 + r.below(maxdim as u64) as usize }.max(1)
    };
    let (mut nr, mut nc) = match r.below(6) {
        0 => { let n = dim(r); (n, n) }
        1 => (dim(r).min(4), dim(r)),
        _ => (dim(r), dim(r)),
    };
    let mut entries: Vec<(usize, usize, Spec)> = vec![];
    let family = match std::env::var("C11_FAMILY") {
        Ok(f) => f.parse().unwrap(),
        Err(_) => *r.pick(&[0, 1, 2, 3, 4, 5, 6, 7, 7, 7, 7, 7, 7, 8, 8]),
    };
    match family {
        0 | 1 => {
            // random sparse
            let dens = 10 + r.below(45);
            for i in 0..nr {
                for j in 0..nc {
                    if r.below(100) < dens {
                        entries.push((i, j, rand_unitish(r, ring)));
                    }
                }
            }
        }
        2 | 3 => {
            // a heavy non-candidate head column (defeats phase 1) and rows that overlap on a few columns
            let heads = 1 + r.below(2) as usize;
            let dens = 30 + r.below(50);
            for i in 0..nr {
                for j in 0..nc {
                    if j < heads.min(nc) {
                        if r.below(100) < 85 {
                            entries.push((i, j, rand_nonunit(r, ring)));
                        }
                    } else if r.below(100) < dens {
                        entries.push((i, j, rand_unitish(r, ring)));
                    }
                }
            }
        }
        4 => {
            // hidden triangular structure: a permuted unit-triangular matrix plus a heavy head column
            let n = nr.min(nc);
            let mut pr: Vec<usize> = (0..nr).collect();
            let mut pc: Vec<usize> = (0..nc).collect();
            for x in (1..nr).rev() { let y = r.below(x as u64 + 1) as usize; pr.swap(x, y); }
            for x in (1..nc).rev() { let y = r.below(x as u64 + 1) as usize; pc.swap(x, y); }
            let dens = 20 + r.below(50);
            for a in 0..n {
                for b in a..n {
                    if a == b || r.below(100) < dens {
                        entries.push((pr[a], pc[b], rand_unitish(r, ring)));
                    }
                }
            }
            if r.bool() {
                for i in 0..nr {
                    if !entries.iter().any(|e| e.0 == i && e.1 == 0) && r.below(100) < 70 {
                        entries.push((i, 0, rand_nonunit(r, ring)));
                    }
                }
            }
        }
        5 => {
            // few columns shared by many rows
            let c = 2 + r.below(3) as usize;
            for i in 0..nr {
                for j in 0..nc.min(c + 1) {
                    if r.below(100) < 75 {
                        entries.push((i, j, if j == 0 { rand_nonunit(r, ring) } else { rand_unitish(r, ring) }));
                    }
                }
                if nc > c + 1 && r.below(100) < 40 {
                    let j = c + 1 + r.below((nc - c - 1) as u64) as usize;
                    entries.push((i, j, rand_unitish(r, ring)));
                }
            }
        }
        6 => {
            // dense small values
            for i in 0..nr {
                for j in 0..nc {
                    if r.below(100) < 70 {
                        let s = if r.below(100) < 35 { rand_nonunit(r, ring) } else { rand_unitish(r, ring) };
                        entries.push((i, j, s));
                    }
                }
            }
        }
        7 => {
            // worst case for the parallel phase: "blanket" rows with a candidate head cover the columns
            // (so phase 2 finds every other candidate column occupied); the other rows start with a
            // non-candidate, avoid the blanket pivots, and compete for the same candidate columns
            nr = nr.max(3.min(maxdim));
            nc = nc.max(4.min(maxdim));
            let nb = 1 + r.below(2) as usize;           // number of blanket rows
            let first = 1 + nb;                           // first shared column
            let mut rows: Vec<usize> = (0..nr).collect();
            for x in (1..nr).rev() { let y = r.below(x as u64 + 1) as usize; rows.swap(x, y); }
            let one = |ring: &str| match ring { "Z" => Spec::Z(1), "Q" => mkq(1, 1), "P" => Spec::P(vec![(0, 1)]), _ => Spec::F(1) };
            for b in 0..nb.min(nr) {
                entries.push((rows[b], 1 + b, one(ring)));
                for j in first..nc {
                    if (j - first) % nb == b || r.below(100) < 30 {
                        entries.push((rows[b], j, one(ring)));
                    }
                }
            }
            let dens = 20 + r.below(50);
            for &i in rows.iter().skip(nb) {
                if r.below(100) < 92 {
                    entries.push((i, 0, rand_nonunit(r, ring)));
                }
                for j in first..nc {
                    if r.below(100) < dens {
                        entries.push((i, j, rand_unitish(r, ring)));
                    }
                }
            }
        }
        _ => {
            // short rows sharing head columns (works for F3, where every non-zero entry is +-1): only the
            // lightest row of each head column is taken by phase 1
            let heads = 1 + r.below(3) as usize;
            for i in 0..nr {
                let h = r.below(heads.min(nc) as u64) as usize;
                entries.push((i, h, rand_unitish(r, ring)));
                let extra = 1 + r.below(3);
                for _ in 0..extra {
                    let j = r.below(nc as u64) as usize;
                    if j > h && !entries.iter().any(|e| e.0 == i && e.1 == j) {
                        entries.push((i, j, rand_unitish(r, ring)));
                    }
                }
            }
        }
    }
    // Z only: duplicates (summed by from_entries), some cancelling to an explicitly stored zero
    if ring == "Z" && r.chance(1, 4) && !entries.is_empty() {
        for _ in 0..1 + r.below(3) {
            let (i, j, s) = entries[r.below(entries.len() as u64) as usize].clone();
            if let Spec::Z(x) = s {
                let cnt = entries.iter().filter(|e| e.0 == i && e.1 == j).count();
                if cnt == 1 {
                    entries.push((i, j, Spec::Z(if r.bool() { -x } else { 1 })));
                }
            }
        }
    }
    MatSpec { ring: ring.into(), nr, nc, entries }
}

fn transpose(ms: &MatSpec) -> MatSpec {
    MatSpec { ring: ms.ring.clone(), nr: ms.nc, nc: ms.nr, entries: ms.entries.iter().map(|(i, j, s)| (*j, *i, s.clone())).collect() }
}

fn rand_cond(r: &mut Rng) -> Cond {
    match r.below(5) {
        0 | 1 => Cond::One,
        2 => Cond::AnyUnit,
        _ => Cond::Weight(*r.pick(&[0, 1, 1, 1, 2, 2, 3, 5])),
    }
}

fn parse_entries(ring: &str, s: &str) -> Vec<(usize, usize, Spec)> {
    if s == "-" {
        return vec![];
    }
    s.split_whitespace()
        .map(|t| {
            let mut it = t.splitn(3, ',');
            let i = it.next().unwrap().parse().unwrap();
            let j = it.next().unwrap().parse().unwrap();
            (i, j, parse_spec(ring, it.next().unwrap()))
        })
        .collect()
}

fn main() {
    quiet_panics();
    let mut pools = Pools { pools: vec![] };
    let mut stats = Stats { traces: 0, timing_invalid: 0, deadlocks: 0, panics: 0 };
    match parse_args() {
        Mode::Replay { file, out } => {
            let mut o = Out::new(&out);
            for l in read_lines(&file) {
                let secs: Vec<&str> = l.split('|').map(|s| s.trim()).collect();
                let h: Vec<&str> = secs[0].split_whitespace().collect();
                match h[0] {
                    "ctl" => {
                        // 1. the recorded trace again (the model side is deterministic)
                        o.case(&l, "OK");
                        // 2. a fresh controlled run on the same matrix, policy and seed
                        let (pol, seed, ring, pt, cond) = (Policy::parse(h[1]), h[2].parse::<u64>().unwrap(), h[3], h[4], Cond::parse(h[5]));
                        let ms = MatSpec { ring: ring.into(), nr: h[6].parse().unwrap(), nc: h[7].parse().unwrap(), entries: parse_entries(ring, secs[1]) };
                        let k: usize = h[8].parse().unwrap();
                        for s in 0..3u64 {
                            dispatch!(ring, ctl_case, &mut o, &mut pools, &mut stats, &ms, pt, cond, k, pol, seed + s * 7919);
                        }
                    }
                    "unc" | "seq" => {
                        o.case(&l, "OK");
                        let (ring, pt, cond) = (h[1], h[2], Cond::parse(h[3]));
                        let ms = MatSpec { ring: ring.into(), nr: h[4].parse().unwrap(), nc: h[5].parse().unwrap(), entries: parse_entries(ring, secs[1]) };
                        let k: usize = if h[0] == "seq" { 1 } else { h[6].parse().unwrap() };
                        dispatch!(ring, unc_case, &mut o, &mut pools, &mut stats, &ms, pt, cond, k);
                    }
                    _ => o.case(&l, "OK"),
                }
            }
            o.finish();
        }
        Mode::Gen { seed, thorough, out } => {
            let mut o = Out::new(&out);
            let mut r = Rng::new(seed);
            let n_ctl = if thorough { 12000 } else { 1500 };
            let n_unc = if thorough { 8000 } else { 800 };
            let maxdim = if thorough { 24 } else { 14 };
            // 0. fixed small cases (including the worked example of Properties/C11.v)
            // rows [2,0,1], [2,0,1], [0,1,1]: both remaining rows want column 2
            let fixed = MatSpec {
                ring: "Z".into(), nr: 3, nc: 3,
                entries: vec![(0, 0, Spec::Z(2)), (0, 2, Spec::Z(1)), (1, 0, Spec::Z(2)), (1, 2, Spec::Z(1)),
                              (2, 1, Spec::Z(1)), (2, 2, Spec::Z(1))],
            };
            for pol in POLICIES {
                for k in 1..=3 {
                    for pt in ["R", "C"] {
                        dispatch!("Z", ctl_case, &mut o, &mut pools, &mut stats, &fixed, pt, Cond::One, k, pol, seed);
                    }
                }
            }
            let empty = MatSpec { ring: "Z".into(), nr: 2, nc: 3, entries: vec![] };
            dispatch!("Z", ctl_case, &mut o, &mut pools, &mut stats, &empty, "R", Cond::One, 2, Policy::Rand, seed);
            dispatch!("Z", unc_case, &mut o, &mut pools, &mut stats, &empty, "C", Cond::AnyUnit, 16);
            // 1. controlled traces
            for c in 0..n_ctl {
                let ring = RINGS[(c % RINGS.len()) as usize];
                let dim = if r.chance(1, 5) { 4 } else { maxdim };
                let ms = gen_matrix(&mut r, ring, dim);
                let pt = if r.bool() { "R" } else { "C" };
                let ms = if pt == "C" { transpose(&ms) } else { ms };
                let cond = rand_cond(&mut r);
                let k = if r.chance(1, 8) { 1 } else { 2 + r.below(7) as usize };
                let pol = match r.below(10) {
                    0..=3 => Policy::Conflict,
                    4..=6 => Policy::Rand,
                    7 => Policy::RoundRobin,
                    8 => Policy::CommitFirst,
                    _ => Policy::Low,
                };
                let s = r.next_u64() >> 1;
                dispatch!(ring, ctl_case, &mut o, &mut pools, &mut stats, &ms, pt, cond, k, pol, s);
            }
            // 2. uncontrolled runs: 16 workers (and 1 worker, where the model predicts the exact set)
            for c in 0..n_unc {
                let ring = RINGS[(c % RINGS.len()) as usize];
                let ms = gen_matrix(&mut r, ring, if thorough { 40 } else { 24 });
                let pt = if r.bool() { "R" } else { "C" };
                let ms = if pt == "C" { transpose(&ms) } else { ms };
                let cond = rand_cond(&mut r);
                let k = if r.chance(1, 4) { 1 } else { 16 };
                dispatch!(ring, unc_case, &mut o, &mut pools, &mut stats, &ms, pt, cond, k);
            }
            o.case(
                &format!("stats traces={} timing_invalid={} deadlocks={} panics={}", stats.traces, stats.timing_invalid, stats.deadlocks, stats.panics),
                "OK",
            );
            o.finish();
        }
    }
    // worker threads of abandoned pools may still be parked: leave without joining them
    std::process::exit(0);
}
