use yui::poly::Mono;
use yui_link::*;
use yui_link::util::jones_polynomial;
use yui_kh::kh::{KhComplexBigraded, KhHomologyBigraded};
use yui_homology::{GridTrait, SummandTrait, isize2};
fn main() {
    let l = Link::trefoil();
    let p = jones_polynomial(&l);
    let mut v: Vec<(isize, i32)> = p.iter().map(|(x, c)| (x.deg(), *c)).collect();
    v.sort();
    println!("{:?}", v);
    let c = KhComplexBigraded::<i64>::new(&l, &0, &0, false);
    let h = c.homology();
    for idx in h.support() { let isize2(i, j) = idx; let r = h[(i, j)].rank(); if r > 0 { println!("{} {} {}", i, j, r); } }
    let h2 = KhHomologyBigraded::<i64>::new(&l, &0, &0, false);
    for idx in h2.support() { let isize2(i, j) = idx; let r = h2[(i, j)].rank(); if r > 0 { println!("{} {} {}", i, j, r); } }
    let t = std::time::Instant::now();
    let b = Braid::from([1,2,3,1,2,3,1,2,3,1,2,3,-1,-2,1,1]);
    let l = b.closure();
    let c = KhComplexBigraded::<i64>::new(&l, &0, &0, false);
    let h = c.homology();
    println!("{} supp in {:?}", h.support().count(), t.elapsed());
    let t = std::time::Instant::now();
    let p = jones_polynomial(&l);
    println!("{} terms in {:?}", p.nterms(), t.elapsed());
}
