//! C18 correspondence harness: yui_link::{Link, Crossing, Braid} vs the Coq model (Model/Link.v, Model/Braid.v).
//! Case lines are the model driver's input (ocaml/c18_driver.ml); result lines are what the real
//! implementation returned, in the same canonical syntax ("P" = panic, "DIVERGE" = a traversal that the
//! real loop would never leave, detected by running the real `traverse_edges` with a counting callback).
use std::panic::{catch_unwind, AssertUnwindSafe};
use yui::bitseq::Bit;
use yui::Sign;
use yui_link::{Braid, Crossing, CrossingType, Generator, Link, Path, State};
use yui_verif_harness::*;

// ---------------------------------------------------------------------------------------------
// generator-side diagrams: plain data, no call into the implementation
// ---------------------------------------------------------------------------------------------
type PD = Vec<(char, [usize; 4])>;

fn pd_of_code(code: &[[usize; 4]]) -> PD {
    code.iter().map(|x| ('X', *x)).collect()
}
fn fmt_pd(pd: &PD) -> String {
    let mut s = format!("{}", pd.len());
    for (t, e) in pd {
        s.push_str(&format!(" {} {} {} {} {}", t, e[0], e[1], e[2], e[3]));
    }
    s
}
fn parse_pd<'a>(t: &[&'a str]) -> (PD, usize) {
    let n: usize = t[0].parse().unwrap();
    let mut pd = vec![];
    for k in 0..n {
        let b = 1 + 5 * k;
        let ty = t[b].chars().next().unwrap();
        let e = [t[b + 1].parse().unwrap(), t[b + 2].parse().unwrap(), t[b + 3].parse().unwrap(), t[b + 4].parse().unwrap()];
        pd.push((ty, e));
    }
    (pd, 1 + 5 * n)
}
fn ctype(c: char) -> CrossingType {
    match c {
        'X' => CrossingType::X,
        'M' => CrossingType::Xm,
        'V' => CrossingType::V,
        'H' => CrossingType::H,
        _ => panic!("ctype"),
    }
}
fn cchar(t: CrossingType) -> char {
    match t {
        CrossingType::X => 'X',
        CrossingType::Xm => 'M',
        CrossingType::V => 'V',
        CrossingType::H => 'H',
    }
}
fn mk_link(pd: &PD) -> Link {
    Link::new(pd.iter().map(|(t, e)| Crossing::new(ctype(*t), *e)).collect())
}
fn max_label(pd: &PD) -> usize {
    pd.iter().flat_map(|(_, e)| e.iter().cloned()).max().unwrap_or(0)
}

/// generator-side braid closure (independent of the library): labels are made per strand segment
fn gen_closure(strands: usize, word: &[i32]) -> Option<Vec<[usize; 4]>> {
    let mut cur: Vec<usize> = (0..strands).collect();
    let mut next = strands;
    let mut code = vec![];
    for &s in word {
        let i = (s.unsigned_abs() as usize).checked_sub(1)?;
        if i + 1 >= strands {
            return None;
        }
        let (a, b, c, d) = (cur[i], cur[i + 1], next, next + 1);
        next += 2;
        code.push(if s > 0 { [a, c, d, b] } else { [b, a, c, d] });
        cur[i] = c;
        cur[i + 1] = d;
    }
    if (0..strands).any(|i| cur[i] == i) {
        return None;
    }
    let ren = |x: usize| cur.iter().position(|&y| y == x).unwrap_or(x);
    Some(code.iter().map(|x| [ren(x[0]), ren(x[1]), ren(x[2]), ren(x[3])]).collect())
}

/// generator-side orientation of an all-X/Xm code: role[i][j] = true when the strand enters crossing i
/// through slot j.  None when the code is not consistently oriented (or not a closed valid code).
fn orient(pd: &PD) -> Option<Vec<[bool; 4]>> {
    let n = pd.len();
    let mut role: Vec<[Option<bool>; 4]> = vec![[None; 4]; n];
    let other = |i: usize, j: usize| -> Option<(usize, usize)> {
        let e = pd[i].1[j];
        let mut found = None;
        let mut cnt = 0;
        for (i2, (_, es)) in pd.iter().enumerate() {
            for j2 in 0..4 {
                if es[j2] == e {
                    cnt += 1;
                    if (i2, j2) != (i, j) {
                        found = Some((i2, j2));
                    }
                }
            }
        }
        if cnt == 2 { found } else { None }
    };
    for i in 0..n {
        if pd[i].0 != 'X' && pd[i].0 != 'M' {
            return None;
        }
        role[i][0] = Some(true);
        role[i][2] = Some(false);
    }
    loop {
        let mut changed = false;
        for i in 0..n {
            for j in 0..4 {
                if let Some(r) = role[i][j] {
                    let (i2, j2) = other(i, j)?;
                    match role[i2][j2] {
                        None => {
                            role[i2][j2] = Some(!r);
                            changed = true;
                        }
                        Some(r2) => if r2 == r { return None },
                    }
                    let j3 = (j + 2) % 4;
                    match role[i][j3] {
                        None => {
                            role[i][j3] = Some(!r);
                            changed = true;
                        }
                        Some(r3) => if r3 == r { return None },
                    }
                }
            }
        }
        if !changed {
            // components that only pass over: pick a direction for one of them and propagate
            let mut picked = false;
            'outer: for i in 0..n {
                for j in 0..4 {
                    if role[i][j].is_none() {
                        role[i][j] = Some(true);
                        picked = true;
                        break 'outer;
                    }
                }
            }
            if !picked {
                break;
            }
        }
    }
    Some(role.iter().map(|r| [r[0].unwrap(), r[1].unwrap(), r[2].unwrap(), r[3].unwrap()]).collect())
}

/// Reidemeister I: a kink on a random edge (4 shapes; the crossing repeats a label)
fn add_kink(r: &mut Rng, pd: &PD) -> Option<PD> {
    let role = orient(pd)?;
    let n = pd.len();
    if n == 0 {
        return None;
    }
    let (i, j) = (r.below(n as u64) as usize, r.below(4) as usize);
    let e = pd[i].1[j];
    // the end of e at which the strand arrives gets the new label e'
    let mut out = pd.clone();
    let m = max_label(pd);
    let (x, e2) = (m + 1, m + 2);
    let mut done = false;
    for (i2, (_, es)) in out.iter_mut().enumerate() {
        for j2 in 0..4 {
            if es[j2] == e && role[i2][j2] && !done {
                es[j2] = e2;
                done = true;
            }
        }
    }
    if !done {
        return None;
    }
    // the strand runs e -> kink -> e2
    let k = match r.below(4) {
        0 => [e, x, x, e2],
        1 => [e, e2, x, x],
        2 => [x, e, e2, x],
        _ => [x, x, e2, e],
    };
    let t = if r.chance(1, 4) { 'M' } else { 'X' };
    let at = r.below(out.len() as u64 + 1) as usize;
    out.insert(at, (t, k));
    Some(out)
}

fn relabel_random(r: &mut Rng, pd: &PD) -> PD {
    // injective map of the labels into 0..bound, random
    let mut labels: Vec<usize> = pd.iter().flat_map(|(_, e)| e.iter().cloned()).collect();
    labels.sort();
    labels.dedup();
    let bound = labels.len() + 1 + r.below(40) as usize;
    let mut pool: Vec<usize> = (0..bound).collect();
    for k in (1..pool.len()).rev() {
        let j = r.below(k as u64 + 1) as usize;
        pool.swap(k, j);
    }
    let f = |x: usize| pool[labels.binary_search(&x).unwrap()];
    pd.iter().map(|(t, e)| (*t, [f(e[0]), f(e[1]), f(e[2]), f(e[3])])).collect()
}
fn reorder_random(r: &mut Rng, pd: &PD) -> PD {
    let mut out = pd.clone();
    for k in (1..out.len()).rev() {
        let j = r.below(k as u64 + 1) as usize;
        out.swap(k, j);
    }
    out
}
fn mirror_pd(pd: &PD) -> PD {
    pd.iter().map(|(t, e)| (match t { 'X' => 'M', 'M' => 'X', o => *o }, *e)).collect()
}
fn split_union(r: &mut Rng, a: &PD, b: &PD) -> PD {
    let off = max_label(a) + 1 + r.below(3) as usize;
    let mut out = a.clone();
    for (t, e) in b {
        let x = (*t, [e[0] + off, e[1] + off, e[2] + off, e[3] + off]);
        let at = if r.bool() { out.len() } else { r.below(out.len() as u64 + 1) as usize };
        out.insert(at, x);
    }
    out
}
/// partially resolve: turn a random subset of the crossings into V / H (generator-side)
fn partial_resolve(r: &mut Rng, pd: &PD) -> PD {
    pd.iter().map(|(t, e)| if r.chance(1, 3) { (if r.bool() { 'V' } else { 'H' }, *e) } else { (*t, *e) }).collect()
}
/// a sequence of 2-5 resolved_at(i, b) steps in arbitrary (random / back-to-front / middle-out) order; the number of
/// unresolved crossings is tracked on the generator side; now and then an index that is out of range
fn gen_resseq(r: &mut Rng, pd: &PD) -> String {
    let mut cn = pd.iter().filter(|(t, _)| *t == 'X' || *t == 'M').count();
    let k = 2 + r.below(4) as usize;
    let mode = r.below(5);
    let mut s = format!("resseq {} {}", fmt_pd(pd), k);
    for _ in 0..k {
        let i = if cn == 0 {
            r.below(2) as usize
        } else {
            match mode {
                0 => cn - 1,
                1 => cn / 2,
                2 => if r.chance(1, 5) { cn + r.below(2) as usize } else { r.below(cn as u64) as usize },
                3 => if cn > 1 { 1 + r.below(cn as u64 - 1) as usize } else { 0 },
                _ => r.below(cn as u64) as usize,
            }
        };
        s.push_str(&format!(" {} {}", i, r.below(2)));
        if i < cn {
            cn -= 1;
        }
    }
    s
}
fn random_word(r: &mut Rng, strands: usize, len: usize) -> Vec<i32> {
    (0..len).map(|_| {
        let i = 1 + r.below(strands as u64 - 1) as i32;
        if r.bool() { i } else { -i }
    }).collect()
}
/// a word whose closure contains a component that only passes over: the last strand travels left above
/// everything and comes back
fn over_component_word(r: &mut Rng, strands: usize, len: usize) -> (usize, Vec<i32>) {
    let mut w = random_word(r, strands, len);
    let s = strands as i32; // new strand s+1 sits at position s (1-based generator index s)
    let depth = 1 + r.below(strands as u64) as i32; // how far left it travels
    let at = r.below(w.len() as u64 + 1) as usize;
    let mut ins = vec![];
    for k in 0..depth { ins.push(s - k); }       // positive: the strand coming from the right passes over
    for k in (0..depth).rev() { ins.push(-(s - k)); } // negative: the strand coming from the left passes over
    let tail = w.split_off(at);
    w.extend(ins);
    w.extend(tail);
    (strands + 1, w)
}

// ---------------------------------------------------------------------------------------------
// observers of the real implementation
// ---------------------------------------------------------------------------------------------
fn nonempty(s: String) -> String { if s.is_empty() { "-".into() } else { s } }
fn fmt_link(l: &Link) -> String {
    nonempty(l.data().iter().map(|c| {
        let e = c.edges();
        format!("{}[{},{},{},{}]", cchar(c.ctype()), e[0], e[1], e[2], e[3])
    }).collect::<Vec<_>>().join(";"))
}
fn fmt_path(p: &Path) -> String {
    format!("{}[{}]", if p.is_circle() { "C" } else { "A" },
        p.edges().iter().map(|e| e.to_string()).collect::<Vec<_>>().join(","))
}
fn fmt_paths(ps: &[Path]) -> String {
    nonempty(ps.iter().map(fmt_path).collect::<Vec<_>>().join(";"))
}
fn fmt_signs(s: &[Sign]) -> String {
    nonempty(s.iter().map(|x| if x.is_positive() { '+' } else { '-' }).collect())
}
fn fmt_state(s: &State) -> String {
    nonempty(s.iter().map(|b| if b.is_one() { '1' } else { '0' }).collect())
}
fn or_p<T>(x: Option<T>, f: impl FnOnce(T) -> String) -> String {
    match x { Some(v) => f(v), None => "P".into() }
}

struct Stop;
/// run the real traverse_edges from `start`; None when the callback was invoked more than 4n+2 times
/// (a terminating walk visits pairwise distinct half-edges, hence makes at most 4n+1 calls)
fn traverse_guarded(l: &Link, start: (usize, usize)) -> Option<Vec<(usize, usize)>> {
    let n = l.data().len();
    let mut v = vec![];
    let r = catch_unwind(AssertUnwindSafe(|| {
        l.traverse_edges(start, |i, j| {
            v.push((i, j));
            if v.len() > 4 * n + 2 {
                std::panic::panic_any(Stop);
            }
        })
    }));
    match r {
        Ok(()) => Some(v),
        Err(e) => if e.is::<Stop>() { None } else { std::panic::resume_unwind(e) },
    }
}
fn diverges(l: &Link) -> bool {
    let n = l.data().len();
    for j in 0..3 {
        for i in 0..n {
            if traverse_guarded(l, (i, j)).is_none() {
                return true;
            }
        }
    }
    false
}

fn obs(pd: &PD) -> String {
    let l = mk_link(pd);
    // call forms: from_pd_code must build the same data as Link::new for all-X codes
    if pd.iter().all(|(t, _)| *t == 'X') {
        let l2 = Link::from_pd_code(pd.iter().map(|(_, e)| *e));
        if l2.data() != l.data() {
            return "FORMS-DIFFER".into();
        }
    }
    if diverges(&l) {
        return "DIVERGE".into();
    }
    let comps = guarded(|| l.components());
    let knot = guarded(|| l.is_knot());
    let signs = guarded(|| l.crossing_signs());
    let pn = guarded(|| l.signed_crossing_nums());
    let w = guarded(|| l.writhe());
    let ops = guarded(|| l.ori_pres_state());
    let seif = match &ops {
        None => "P".to_string(),
        Some(s) => match guarded(|| l.resolved_by(s)) {
            None => "P".into(),
            Some(l2) => if diverges(&l2) { "DIVERGE".into() } else {
                // seifert_circles itself must agree with the two-step computation
                let a = guarded(|| l.seifert_circles());
                let b = guarded(|| l2.components());
                if a != b { "SEIFERT-FORMS-DIFFER".into() } else { or_p(a, |c| fmt_paths(&c)) }
            }
        },
    };
    let mut labels: Vec<usize> = l.edges().into_iter().collect();
    labels.sort();
    // generator-side validity (every label twice)
    let mut cnt = std::collections::BTreeMap::new();
    for (_, e) in pd { for x in e { *cnt.entry(*x).or_insert(0usize) += 1; } }
    let valid = cnt.values().all(|&c| c == 2);
    format!("cn={} comps={} knot={} signs={} pn={} w={} ops={} seif={} first={} labels={} valid={}",
        l.crossing_num(),
        or_p(comps, |c| fmt_paths(&c)),
        or_p(knot, |b| if b { "1".into() } else { "0".into() }),
        or_p(signs, |s| fmt_signs(&s)),
        or_p(pn, |(p, n)| format!("{},{}", p, n)),
        or_p(w, |w| w.to_string()),
        or_p(ops, |s| fmt_state(&s)),
        seif,
        l.first_edge().map(|e| e.to_string()).unwrap_or("-".into()),
        nonempty(labels.iter().map(|e| e.to_string()).collect::<Vec<_>>().join(",")),
        if valid { "1" } else { "0" })
}

fn comp_sets(l: &Link) -> String {
    or_p(guarded(|| l.components()), |cs| {
        let mut v: Vec<String> = cs.iter().map(|p| {
            let mut e = p.edges().clone();
            e.sort();
            format!("{}{}", if p.is_circle() { "C" } else { "A" }, e.iter().map(|x| x.to_string()).collect::<Vec<_>>().join(","))
        }).collect();
        v.sort();
        nonempty(v.join(";"))
    })
}
fn comp_shape(l: &Link) -> String {
    or_p(guarded(|| l.components()), |cs| nonempty(cs.iter().map(|p|
        format!("{}{}", if p.is_circle() { "C" } else { "A" }, p.len())).collect::<Vec<_>>().join(";")))
}

fn inv(kind: &str, pd1: &PD, pd2: &PD) -> String {
    let (l1, l2) = (mk_link(pd1), mk_link(pd2));
    if diverges(&l1) || diverges(&l2) {
        return "DIVERGE".into();
    }
    if kind == "mirror" {
        // the library's own mirror must produce the data of the generator-side mirror
        if l1.mirror().data() != l2.data() {
            return "MIRROR-DATA-DIFFER".into();
        }
    }
    let (s1, s2) = (guarded(|| l1.crossing_signs()), guarded(|| l2.crossing_signs()));
    let (w1, w2) = (guarded(|| l1.writhe()), guarded(|| l2.writhe()));
    let (pn1, pn2) = (guarded(|| l1.signed_crossing_nums()), guarded(|| l2.signed_crossing_nums()));
    let ok = match kind {
        "relab" => s1 == s2 && comp_shape(&l1) == comp_shape(&l2),
        "reord" => w1 == w2 && pn1 == pn2 && comp_sets(&l1) == comp_sets(&l2),
        "mirror" => match (&s1, &s2, &pn1, &pn2) {
            (Some(a), Some(b), Some((p1, n1)), Some((p2, n2))) =>
                *b == a.iter().map(|s| if s.is_positive() { Sign::Neg } else { Sign::Pos }).collect::<Vec<_>>() && p1 == n2 && n1 == p2
                    && guarded(|| l1.components()) == guarded(|| l2.components()),
            (None, None, None, None) => guarded(|| l1.components()) == guarded(|| l2.components()),
            _ => false,
        },
        _ => panic!("inv kind"),
    };
    format!("{} w={}/{} signs={}/{}", if ok { "INV-OK" } else { "INV-DIFF" },
        or_p(w1, |w| w.to_string()), or_p(w2, |w| w.to_string()),
        or_p(s1, |s| fmt_signs(&s)), or_p(s2, |s| fmt_signs(&s)))
}

fn braid_case(b: Option<Braid>) -> String {
    let Some(b) = b else { return "P".into() };
    match guarded(|| b.closure()) {
        None => "P".into(),
        Some(l) => {
            let code = nonempty(l.data().iter().map(|c| {
                let e = c.edges();
                format!("[{},{},{},{}]", e[0], e[1], e[2], e[3])
            }).collect::<Vec<_>>().join(";"));
            if l.data().iter().any(|c| c.ctype() != CrossingType::X) {
                return "CLOSURE-NOT-X".into();
            }
            if diverges(&l) {
                return format!("pd={} DIVERGE", code);
            }
            format!("pd={} ncr={} w={} nc={}", code, l.crossing_num(),
                or_p(guarded(|| l.writhe()), |w| w.to_string()),
                or_p(guarded(|| l.components()), |c| c.len().to_string()))
        }
    }
}

fn fmt_cross(c: &Crossing) -> String {
    let e = c.edges();
    format!("{}[{},{},{},{}]", cchar(c.ctype()), e[0], e[1], e[2], e[3])
}
/// one state of a resolution sequence: the data, the number of unresolved crossings (counted on the data, not by
/// the library) and crossing_at(j) for every j = 0..=cn (the last index is out of range: a panic)
fn seq_state(l: &Link) -> String {
    let cn = l.data().iter().filter(|c| matches!(c.ctype(), CrossingType::X | CrossingType::Xm)).count();
    let at: Vec<String> = (0..=cn).map(|j| or_p(guarded(|| fmt_cross(l.crossing_at(j))), |s| s)).collect();
    format!("{}|cn={}|lib={}|at={}", fmt_link(l), cn, l.crossing_num(), at.join("/"))
}

fn run_case(line: &str) -> String {
    guarded(|| run_case_inner(line)).unwrap_or("TOP-PANIC".into())
}

fn run_case_inner(line: &str) -> String {
    let t: Vec<&str> = line.split_whitespace().collect();
    match t[0] {
        "obs" => {
            let (pd, _) = parse_pd(&t[1..]);
            obs(&pd)
        }
        "trav" => {
            let (pd, k) = parse_pd(&t[1..]);
            let (i, j): (usize, usize) = (t[1 + k].parse().unwrap(), t[2 + k].parse().unwrap());
            let l = mk_link(&pd);
            match traverse_guarded(&l, (i, j)) {
                None => "DIVERGE".into(),
                Some(v) => v.iter().map(|(i, j)| format!("({},{})", i, j)).collect(),
            }
        }
        "resby" => {
            let (pd, k) = parse_pd(&t[1..]);
            let bits = t[1 + k];
            let s = State::from_iter(if bits == "-" { vec![] } else { bits.chars().map(|c| if c == '1' { Bit::Bit1 } else { Bit::Bit0 }).collect::<Vec<_>>() });
            let l = mk_link(&pd);
            match guarded(|| l.resolved_by(&s)) {
                None => "P".into(),
                Some(l2) => format!("{} cn={} comps={}", fmt_link(&l2), l2.crossing_num(),
                    if diverges(&l2) { "DIVERGE".into() } else { or_p(guarded(|| l2.components()), |c| fmt_paths(&c)) }),
            }
        }
        "resat" => {
            let (pd, k) = parse_pd(&t[1..]);
            let i: usize = t[1 + k].parse().unwrap();
            let b = if t[2 + k] == "1" { Bit::Bit1 } else { Bit::Bit0 };
            let l = mk_link(&pd);
            or_p(guarded(|| l.resolved_at(i, b)), |l2| fmt_link(&l2))
        }
        "resseq" => {
            // `resseq <link> <k> (i b)*`: k successive resolved_at(i, b) in arbitrary order on a diagram that may already
            // contain V / H entries; both call forms (resolved_at / clone + crossing_at_mut(i).resolve(b)) must agree;
            // a panicking step prints P and leaves the diagram as it was
            let (pd, k) = parse_pd(&t[1..]);
            let nsteps: usize = t[1 + k].parse().unwrap();
            let mut l = mk_link(&pd);
            let mut out = vec![seq_state(&l)];
            for s in 0..nsteps {
                let i: usize = t[2 + k + 2 * s].parse().unwrap();
                let b = if t[3 + k + 2 * s] == "1" { Bit::Bit1 } else { Bit::Bit0 };
                let f1 = guarded(|| l.resolved_at(i, b));
                let f2 = guarded(|| {
                    let mut m = l.clone();
                    m.crossing_at_mut(i).resolve(b);
                    m
                });
                match (f1, f2) {
                    (Some(a), Some(c)) => {
                        if a.data() != c.data() {
                            out.push("FORMS-DIFFER".into());
                        } else {
                            l = a;
                            out.push(seq_state(&l));
                        }
                    }
                    (None, None) => out.push("P".into()),
                    _ => out.push("FORMS-DIFFER".into()),
                }
            }
            out.join(" ")
        }
        "mirror" => {
            let (pd, _) = parse_pd(&t[1..]);
            fmt_link(&mk_link(&pd).mirror())
        }
        "inv" => {
            let (pd1, k) = parse_pd(&t[2..]);
            let (pd2, _) = parse_pd(&t[2 + k..]);
            inv(t[1], &pd1, &pd2)
        }
        "braid" => {
            let strands: usize = t[1].parse().unwrap();
            let w: Vec<i32> = t[2..].iter().map(|x| x.parse().unwrap()).collect();
            // Generator::from asserts a non-zero letter; a zero letter can only enter through from_iter
            let b = guarded(|| Braid::new(strands, w.iter().map(|&x| Generator::from(x)).collect()));
            if b.is_none() {
                // build the same word through FromIterator (no assertion) when the strand count agrees
                let b2 = Braid::from_iter(w.iter().cloned());
                if b2.strands() == strands { return braid_case(Some(b2)); }
                return "P".into();
            }
            braid_case(b)
        }
        "bgrp" => {
            // braid group operations: `bgrp <s1> <len1> <w1..> <s2> <w2..>`: inv of the first word, the product
            // (MulAssign panics when the strand counts differ), and the closure of  w1 * w1^-1
            let s1: usize = t[1].parse().unwrap();
            let n1: usize = t[2].parse().unwrap();
            let w1: Vec<i32> = t[3..3 + n1].iter().map(|x| x.parse().unwrap()).collect();
            let s2: usize = t[3 + n1].parse().unwrap();
            let w2: Vec<i32> = t[4 + n1..].iter().map(|x| x.parse().unwrap()).collect();
            let mk = |s: usize, w: &Vec<i32>| Braid::new(s, w.iter().map(|&x| Generator::from(x)).collect());
            let word = |b: &Braid| nonempty(b.elements().iter().map(|g| {
                let i = g.index() as i32; if g.sign().is_positive() { i.to_string() } else { (-i).to_string() } }).collect::<Vec<_>>().join(","));
            let (b1, b2) = (mk(s1, &w1), mk(s2, &w2));
            let inv = b1.inv();
            let prod = guarded(|| { let mut p = b1.clone(); p *= &b2; p });
            let prod2 = guarded(|| &b1 * &b2);
            let same = match (&prod, &prod2) { (Some(a), Some(b)) => word(a) == word(b) && a.strands() == b.strands(), (None, None) => true, _ => false };
            if !same { return "FORMS-DIFFER".into(); }
            let cancel = guarded(|| { let mut p = b1.clone(); p *= &inv; p });
            format!("inv={}:{} len={} triv={} prod={} cancel={}", inv.strands(), word(&inv), inv.len(), b1.is_triv() as u8,
                    prod.map(|p| format!("{}:{}", p.strands(), word(&p))).unwrap_or("P".into()),
                    braid_case(cancel))
        }
        "braidfrom" => {
            let w: Vec<i32> = t[1..].iter().map(|x| x.parse().unwrap()).collect();
            braid_case(guarded(|| Braid::from_iter(w.iter().cloned())))
        }
        _ => panic!("bad case {}", line),
    }
}

// ---------------------------------------------------------------------------------------------
// corpus
// ---------------------------------------------------------------------------------------------
fn repo() -> String { std::env::var("VERIF_REPO").unwrap_or("/repo".into()) }

fn parse_json_code(s: &str) -> Option<Vec<[usize; 4]>> {
    let mut nums = vec![];
    let mut cur = String::new();
    for ch in s.chars() {
        if ch.is_ascii_digit() { cur.push(ch); } else {
            if !cur.is_empty() { nums.push(cur.parse::<usize>().ok()?); cur.clear(); }
            if !(ch == '[' || ch == ']' || ch == ',' || ch.is_whitespace()) { return None; }
        }
    }
    if nums.len() % 4 != 0 { return None; }
    Some(nums.chunks(4).map(|c| [c[0], c[1], c[2], c[3]]).collect())
}
fn corpus() -> Vec<(String, Vec<[usize; 4]>)> {
    let dir = format!("{}/yui-link/resources/links", repo());
    let mut names: Vec<String> = std::fs::read_dir(&dir).map(|d| d.filter_map(|e| e.ok())
        .filter_map(|e| e.file_name().to_str().map(|s| s.to_string()))
        .filter(|s| s.ends_with(".json")).collect()).unwrap_or_default();
    names.sort();
    names.into_iter().filter_map(|f| {
        let s = std::fs::read_to_string(format!("{}/{}", dir, f)).ok()?;
        Some((f.trim_end_matches(".json").to_string(), parse_json_code(&s)?))
    }).collect()
}

fn malformed(r: &mut Rng) -> PD {
    // random codes: labels from a small pool so that counts 1, 2, 3, 4 all occur; any crossing types
    let n = 1 + r.below(5) as usize;
    let pool = 1 + r.below(2 * n as u64 + 2) as usize;
    (0..n).map(|_| {
        let t = *r.pick(&['X', 'X', 'X', 'M', 'V', 'H']);
        (t, [r.below(pool as u64) as usize, r.below(pool as u64) as usize, r.below(pool as u64) as usize, r.below(pool as u64) as usize])
    }).collect()
}
/// a valid code damaged at one slot (label occurring once / three times)
fn damaged(r: &mut Rng, pd: &PD) -> PD {
    let mut out = pd.clone();
    if out.is_empty() { return out; }
    let i = r.below(out.len() as u64) as usize;
    let j = r.below(4) as usize;
    out[i].1[j] = if r.bool() { max_label(pd) + 1 } else { let (i2, j2) = (r.below(pd.len() as u64) as usize, r.below(4) as usize); pd[i2].1[j2] };
    out
}
/// random valid (not necessarily planar) code: a random perfect matching of the 4n slots
fn random_valid(r: &mut Rng, n: usize, types: bool) -> PD {
    let mut slots: Vec<usize> = (0..4 * n).collect();
    for k in (1..slots.len()).rev() {
        let j = r.below(k as u64 + 1) as usize;
        slots.swap(k, j);
    }
    let mut lab = vec![0usize; 4 * n];
    for k in 0..2 * n {
        lab[slots[2 * k]] = k;
        lab[slots[2 * k + 1]] = k;
    }
    (0..n).map(|i| {
        let t = if types { *r.pick(&['X', 'M', 'V', 'H']) } else { 'X' };
        (t, [lab[4 * i], lab[4 * i + 1], lab[4 * i + 2], lab[4 * i + 3]])
    }).collect()
}

fn main() {
    quiet_panics();
    match parse_args() {
        Mode::Replay { file, out } => {
            let mut o = Out::new(&out);
            for l in read_lines(&file) {
                let res = run_case(&l);
                o.case(&l, &res);
            }
            o.finish();
        }
        Mode::Gen { seed, thorough, out } => {
            let mut o = Out::new(&out);
            let mut r = Rng::new(seed);
            let mut emit = |o: &mut Out, c: String| {
                let res = run_case(&c);
                o.case(&c, &res);
            };
            let bits = |r: &mut Rng, k: usize| -> String {
                if k == 0 { "-".into() } else { (0..k).map(|_| if r.bool() { '1' } else { '0' }).collect() }
            };
            // the full battery on one genuine (planar, consistently oriented) diagram
            let battery = |o: &mut Out, r: &mut Rng, pd: &PD, emit: &mut dyn FnMut(&mut Out, String)| {
                let n = pd.len();
                emit(o, format!("obs {}", fmt_pd(pd)));
                if n > 0 {
                    emit(o, format!("trav {} {} {}", fmt_pd(pd), r.below(n as u64), r.below(4)));
                }
                emit(o, format!("mirror {}", fmt_pd(pd)));
                let cn = pd.iter().filter(|(t, _)| *t == 'X' || *t == 'M').count();
                emit(o, format!("resby {} {}", fmt_pd(pd), bits(r, cn)));
                emit(o, format!("resby {} {}", fmt_pd(pd), bits(r, cn)));
                // too short / too long states
                let kk = r.below(cn as u64 + 2) as usize;
                emit(o, format!("resby {} {}", fmt_pd(pd), bits(r, kk)));
                emit(o, format!("resat {} {} {}", fmt_pd(pd), r.below(cn as u64 + 2), r.below(2)));
                // sequences of resolved_at in arbitrary order, also starting from partially resolved diagrams
                emit(o, gen_resseq(r, pd));
                let pr = partial_resolve(r, pd);
                emit(o, gen_resseq(r, &pr));
                emit(o, format!("resat {} {} {}", fmt_pd(&pr), r.below(cn as u64 + 1), r.below(2)));
                emit(o, format!("inv relab {} {}", fmt_pd(pd), fmt_pd(&relabel_random(r, pd))));
                emit(o, format!("inv reord {} {}", fmt_pd(pd), fmt_pd(&reorder_random(r, pd))));
                emit(o, format!("inv mirror {} {}", fmt_pd(pd), fmt_pd(&mirror_pd(pd))));
                let v0 = relabel_random(r, pd);
                let v = reorder_random(r, &v0);
                emit(o, format!("obs {}", fmt_pd(&v)));
                emit(o, format!("obs {}", fmt_pd(&mirror_pd(pd))));
                // mirror of a diagram with all four crossing types
                let m0 = partial_resolve(r, pd);
                let m1 = partial_resolve(r, &mirror_pd(&m0));
                let mut mixed: PD = vec![];
                for (t, e) in m1.iter() { let flip = r.bool(); mixed.push((if *t == 'X' && flip { 'M' } else { *t }, *e)); }
                emit(o, format!("mirror {}", fmt_pd(&mixed)));
                emit(o, gen_resseq(r, &mixed));
                emit(o, format!("inv mirror {} {}", fmt_pd(&mixed), fmt_pd(&mirror_pd(&mixed))));
                emit(o, format!("obs {}", fmt_pd(&partial_resolve(r, pd))));
                if let Some(k) = add_kink(r, pd) {
                    emit(o, format!("obs {}", fmt_pd(&k)));
                    emit(o, format!("inv reord {} {}", fmt_pd(&k), fmt_pd(&reorder_random(r, &k))));
                    if let Some(k2) = add_kink(r, &k) {
                        emit(o, format!("obs {}", fmt_pd(&k2)));
                        emit(o, format!("resby {} {}", fmt_pd(&k2), bits(r, k2.len())));
                    }
                }
            };
            // 0. fixed small cases
            for c in [
                "obs 0", "obs 1 X 0 0 1 1", "obs 1 X 0 1 1 0", "obs 1 H 0 1 1 0", "obs 1 V 0 1 1 0",
                "obs 1 X 0 1 0 1", "obs 2 X 0 1 2 3 X 2 3 0 1", "obs 2 X 0 3 1 4 X 3 2 2 1", "obs 1 X 0 1 2 3",
                "trav 1 X 0 1 2 3 0 0", "trav 1 X 0 0 1 1 0 0", "trav 2 X 0 3 1 4 X 3 2 2 1 0 0",
                "resseq 3 X 1 4 2 5 X 3 6 4 1 X 5 2 6 3 2 0 0 1 1", "resseq 3 X 1 4 2 5 X 3 6 4 1 X 5 2 6 3 3 2 1 0 0 0 1",
                "resseq 3 X 1 4 2 5 X 3 6 4 1 X 5 2 6 3 4 1 0 1 1 0 0 0 0", "resseq 3 H 1 4 2 5 X 3 6 4 1 M 5 2 6 3 2 1 1 0 0",
                "resseq 3 H 1 4 2 5 X 3 6 4 1 V 5 2 6 3 2 1 1 0 0", "resseq 2 V 0 1 2 3 H 2 3 0 1 1 0 0", "resseq 0 1 0 1",
                "resat 3 V 1 4 2 5 X 3 6 4 1 X 5 2 6 3 1 0",
                "braidfrom", "braid 0", "braid 1", "braid 2", "braid 2 1", "braid 2 -1", "braid 2 1 1 1", "braid 2 1 -1",
                "braid 3 1 1", "braid 2 2", "braid 2 0", "braidfrom 0", "braidfrom 1 0", "braidfrom 1 -2 1 -2",
                "braidfrom -1 -1 -2 1 3 2 2 -4 -3 2 -3 -4",
            ] {
                emit(&mut o, c.to_string());
            }
            // 1. corpus (Link::load is exercised and must agree with the generator-side parse)
            let cps = corpus();
            let mut pool: Vec<PD> = vec![];
            for (idx, (name, code)) in cps.iter().enumerate() {
                let n = code.len();
                let take = if thorough { true } else { n <= 10 || idx % 8 == (seed % 8) as usize };
                if !take { continue; }
                let pd = pd_of_code(code);
                // (names such as L10a10 are not accepted by Link::is_valid_name - its pattern [1-9]+ excludes the
                //  digit 0 - and are then treated as a path; fall back to the explicit path)
                let path = format!("{}/yui-link/resources/links/{}.json", repo(), name);
                match guarded(|| Link::load(name).or_else(|_| Link::load(&path)).ok().map(|l| l.data().clone())) {
                    Some(Some(d)) if d == *mk_link(&pd).data() => {}
                    _ => { o.case(&format!("obs {}", fmt_pd(&pd)), &format!("LOAD-DIFF {}", name)); continue; }
                }
                battery(&mut o, &mut r, &pd, &mut emit);
                pool.push(pd);
            }
            // 2. braid closures
            let nb = if thorough { 8000 } else { 2000 };
            for k in 0..nb {
                let strands = 2 + r.below(7) as usize;
                let len = r.below(15) as usize;
                let (strands, w) = if k % 5 == 0 { over_component_word(&mut r, strands.min(7), len.min(10)) } else { (strands, random_word(&mut r, strands, len)) };
                let ws = w.iter().map(|x| x.to_string()).collect::<Vec<_>>().join(" ");
                emit(&mut o, format!("braid {} {}", strands, ws));
                if k % 3 == 0 && !w.is_empty() {
                    // group operations on the same word and a second random word (every fourth with another strand count)
                    let s2 = if k % 12 == 0 { strands + 1 } else { strands };
                    let l2 = r.below(5) as usize;
                    let w2: Vec<String> = (0..l2).map(|_| { let i = 1 + r.below(s2 as u64 - 1) as i64; (if r.bool() { i } else { -i }).to_string() }).collect();
                    emit(&mut o, format!("bgrp {} {} {} {} {}", strands, w.len(), ws, s2, w2.join(" ")).split_whitespace().collect::<Vec<_>>().join(" "));
                }
                if k % 4 == 0 { emit(&mut o, format!("braidfrom {}", ws)); }
                if k % 25 == 0 {
                    // strand count too small / too large, a zero letter
                    emit(&mut o, format!("braid {} {}", strands.saturating_sub(1), ws));
                    emit(&mut o, format!("braid {} {}", strands + 1, ws));
                    emit(&mut o, format!("braidfrom {} 0", ws));
                }
                if let Some(code) = gen_closure(strands, &w) {
                    let pd = pd_of_code(&code);
                    if k % 3 == 0 || thorough { battery(&mut o, &mut r, &pd, &mut emit); } else { emit(&mut o, format!("obs {}", fmt_pd(&pd))); }
                    if pool.len() < 4000 { pool.push(pd); }
                }
            }
            // 3. split unions of pool diagrams
            let nsu = if thorough { 1000 } else { 250 };
            for _ in 0..nsu {
                if pool.len() < 2 { break; }
                let a = r.pick(&pool).clone();
                let b = r.pick(&pool).clone();
                if a.len() + b.len() > 22 { continue; }
                let u = split_union(&mut r, &a, &b);
                battery(&mut o, &mut r, &u, &mut emit);
            }
            // 4. random valid codes (perfect matchings of the slots; mostly non-planar, all types): exact
            //    correspondence only - the invariance cases are for genuine diagrams
            let nrv = if thorough { 60000 } else { 12000 };
            for k in 0..nrv {
                let n = 1 + r.below(if k % 10 == 0 { 12 } else { 6 }) as usize;
                let pd = random_valid(&mut r, n, k % 2 == 0);
                emit(&mut o, format!("obs {}", fmt_pd(&pd)));
                if k % 4 == 0 {
                    emit(&mut o, format!("trav {} {} {}", fmt_pd(&pd), r.below(n as u64), r.below(4)));
                    let cn = pd.iter().filter(|(t, _)| *t == 'X' || *t == 'M').count();
                    emit(&mut o, format!("resby {} {}", fmt_pd(&pd), bits(&mut r, cn)));
                    emit(&mut o, format!("inv relab {} {}", fmt_pd(&pd), fmt_pd(&relabel_random(&mut r, &pd))));
                    emit(&mut o, format!("inv mirror {} {}", fmt_pd(&pd), fmt_pd(&mirror_pd(&pd))));
                    emit(&mut o, format!("mirror {}", fmt_pd(&pd)));
                    emit(&mut o, gen_resseq(&mut r, &pd));
                }
            }
            // 5. malformed stream: labels occurring 1, 3, 4 times; damaged valid codes
            let nm = if thorough { 60000 } else { 12000 };
            for k in 0..nm {
                let pd = if k % 2 == 0 || pool.is_empty() { malformed(&mut r) } else { let p = r.pick(&pool).clone(); damaged(&mut r, &p) };
                let n = pd.len();
                emit(&mut o, format!("obs {}", fmt_pd(&pd)));
                if n > 0 {
                    emit(&mut o, format!("trav {} {} {}", fmt_pd(&pd), r.below(n as u64), r.below(4)));
                }
                if k % 3 == 0 {
                    let cn = pd.iter().filter(|(t, _)| *t == 'X' || *t == 'M').count();
                    emit(&mut o, format!("resby {} {}", fmt_pd(&pd), bits(&mut r, cn)));
                    emit(&mut o, gen_resseq(&mut r, &pd));
                }
            }
            o.finish();
        }
    }
}
