//! C12 correspondence harness: sparse kernels (triangular solve, Schur complement, direct-sum
//! decomposition) of yui-matrix vs the Coq models Model/{Triang,Schur,Decomp}.v.
//! Case lines are the model driver's input (see ocaml/c12_driver.ml for the syntax).  Every case is run in
//! rayon pools of 1, 2 and 16 threads, 5 times per pool on the same pool; all 15 results must be equal
//! (otherwise the result line is THREADS-DIFFER ...).
//! The generator works on plain token matrices and never calls the implementation.
use rayon::ThreadPool;
use yui::{FF, GaussInt, Ratio};
use yui_matrix::sparse::decomp::dir_sum_decomp;
use yui_matrix::sparse::schur::Schur;
use yui_matrix::sparse::triang::{
    inv_triangular, solve_triangular, solve_triangular_left, solve_triangular_vec, TriangularType,
};
use yui_matrix::sparse::{SpMat, SpVec};
use yui_matrix::MatTrait;
use yui_verif_harness::*;

const REPS: usize = 5;
const POOLS: [usize; 3] = [1, 2, 16];

struct Cur<'a> {
    t: &'a [&'a str],
    k: usize,
}
impl<'a> Cur<'a> {
    fn next(&mut self) -> &'a str {
        let s = self.t[self.k];
        self.k += 1;
        s
    }
    fn usize(&mut self) -> usize {
        self.next().parse().unwrap()
    }
}

fn tri(s: &str) -> TriangularType {
    match s {
        "U" => TriangularType::Upper,
        "L" => TriangularType::Lower,
        _ => panic!("bad triangular type"),
    }
}

/// run `f` 5 times in each of the pools; all results must agree
fn in_pools(pools: &[ThreadPool], f: &(dyn Fn() -> String + Sync)) -> String {
    let mut first: Option<String> = None;
    for p in pools {
        let rs: Vec<String> =
            p.install(|| (0..REPS).map(|_| guarded(|| f()).unwrap_or_else(|| "P".to_string())).collect());
        for r in rs {
            match &first {
                None => first = Some(r),
                Some(f0) => {
                    if *f0 != r {
                        return format!("THREADS-DIFFER {} // {}", f0, r);
                    }
                }
            }
        }
    }
    first.unwrap()
}

macro_rules! ring_mod {
    ($name:ident, $T:ty, $parse:expr, $tok:expr) => {
        mod $name {
            use super::*;
            type T = $T;
            fn pv(s: &str) -> T {
                ($parse)(s)
            }
            fn sv(x: &T) -> String {
                ($tok)(x)
            }
            /// builds the matrix through the public API, keeping explicit zeros:
            /// SpVec::from_sorted_entries stores what it is given, from_col_vecs concatenates the columns
            fn parse_mat(c: &mut Cur) -> SpMat<T> {
                let (m, n, nnz) = (c.usize(), c.usize(), c.usize());
                let mut cols: Vec<Vec<(usize, T)>> = vec![vec![]; n];
                for _ in 0..nnz {
                    let (i, j) = (c.usize(), c.usize());
                    let v = pv(c.next());
                    cols[j].push((i, v));
                }
                SpMat::from_col_vecs(m, cols.into_iter().map(|e| SpVec::from_sorted_entries(m, e)))
            }
            fn parse_vec(c: &mut Cur) -> SpVec<T> {
                let (d, nnz) = (c.usize(), c.usize());
                let mut es = vec![];
                for _ in 0..nnz {
                    let i = c.usize();
                    es.push((i, pv(c.next())));
                }
                SpVec::from_sorted_entries(d, es)
            }
            fn str_mat(a: &SpMat<T>) -> String {
                let mut s = format!("{} {} {}", a.nrows(), a.ncols(), a.nnz());
                for (i, j, v) in a.iter() {
                    s.push_str(&format!(" {} {} {}", i, j, sv(v)));
                }
                s
            }
            fn str_vec(v: &SpVec<T>) -> String {
                let es: Vec<_> = v.iter().collect();
                let mut s = format!("{} {}", v.dim(), es.len());
                for (i, x) in es {
                    s.push_str(&format!(" {} {}", i, sv(x)));
                }
                s
            }
            fn nats(v: &[usize]) -> String {
                v.iter().map(|x| x.to_string()).collect::<Vec<_>>().join(",")
            }

            pub fn run(op: &str, c: &mut Cur, pools: &[ThreadPool]) -> String {
                match op {
                    "solve" | "solvel" => {
                        let t = tri(c.next());
                        let a = parse_mat(c);
                        let y = parse_mat(c);
                        let left = op == "solvel";
                        in_pools(pools, &|| {
                            let x = if left { solve_triangular_left(t, &a, &y) } else { solve_triangular(t, &a, &y) };
                            str_mat(&x)
                        })
                    }
                    "solvev" => {
                        let t = tri(c.next());
                        let a = parse_mat(c);
                        let y = parse_vec(c);
                        in_pools(pools, &|| str_vec(&solve_triangular_vec(t, &a, &y)))
                    }
                    "inv" => {
                        let t = tri(c.next());
                        let a = parse_mat(c);
                        in_pools(pools, &|| str_mat(&inv_triangular(t, &a)))
                    }
                    "schur" => {
                        let t = tri(c.next());
                        let r = c.usize();
                        let m = parse_mat(c);
                        in_pools(pools, &|| {
                            // both call forms: with and without the transfer maps
                            let only = guarded(|| {
                                let s = Schur::from_partial_triangular(t, &m, r, false);
                                assert!(s.trans_src().is_none() && s.trans_tgt().is_none());
                                str_mat(s.complement())
                            });
                            let full = guarded(|| {
                                let s = Schur::from_partial_triangular(t, &m, r, true);
                                let (ts, tt) = (s.trans_src().unwrap(), s.trans_tgt().unwrap());
                                let parts = [
                                    str_mat(s.complement()),
                                    str_mat(&ts.forward_mat()),
                                    str_mat(&ts.backward_mat()),
                                    str_mat(&tt.forward_mat()),
                                    str_mat(&tt.backward_mat()),
                                ];
                                // dimension bookkeeping of the transfer maps
                                assert_eq!(ts.src_dim(), m.ncols());
                                assert_eq!(ts.tgt_dim(), m.ncols() - r);
                                assert_eq!(tt.src_dim(), m.nrows());
                                assert_eq!(tt.tgt_dim(), m.nrows() - r);
                                (parts[0].clone(), parts.join(" | "))
                            });
                            match (full, only) {
                                (Some((s, all)), Some(s0)) => {
                                    if s != s0 { "FORMS-DIFFER".to_string() } else { all }
                                }
                                (None, None) => "P".to_string(),
                                (None, Some(s0)) => format!("P | {}", s0),
                                (Some(_), None) => "FORMS-DIFFER".to_string(),
                            }
                        })
                    }
                    "decomp" => {
                        let m = parse_mat(c);
                        in_pools(pools, &|| {
                            let (p, q, bs) = dir_sum_decomp(m.clone());
                            let mut s = format!("{} | {} | {}", nats(&p.vec()), nats(&q.vec()), bs.len());
                            for b in bs.iter() {
                                s.push_str(" ; ");
                                s.push_str(&str_mat(b));
                            }
                            s
                        })
                    }
                    _ => panic!("bad op {}", op),
                }
            }
        }
    };
}

ring_mod!(rz, i64, |s: &str| s.parse::<i64>().unwrap(), |x: &i64| x.to_string());
ring_mod!(
    rq,
    Ratio<i64>,
    |s: &str| {
        let mut it = s.split('/');
        let n: i64 = it.next().unwrap().parse().unwrap();
        let d: i64 = it.next().map(|d| d.parse().unwrap()).unwrap_or(1);
        Ratio::new(n, d)
    },
    |x: &Ratio<i64>| format!("{}/{}", x.numer(), x.denom())
);
ring_mod!(rf7, FF<7>, |s: &str| FF::<7>::new(s.parse::<i32>().unwrap()), |x: &FF<7>| x.rep().to_string());
ring_mod!(
    rzi,
    GaussInt<i64>,
    |s: &str| {
        let mut it = s.split(',');
        let a: i64 = it.next().unwrap().parse().unwrap();
        let b: i64 = it.next().unwrap().parse().unwrap();
        GaussInt::new(a, b)
    },
    |x: &GaussInt<i64>| {
        let (a, b) = x.pair();
        format!("{},{}", a, b)
    }
);

fn run_case(line: &str, pools: &[ThreadPool]) -> String {
    guarded(|| {
        let t: Vec<&str> = line.split_whitespace().collect();
        if t[0] == "decompw" { return decomp_wide(&t, pools); }
        let mut c = Cur { t: &t, k: 2 };
        let r = match t[1] {
            "Z" => rz::run(t[0], &mut c, pools),
            "Q" => rq::run(t[0], &mut c, pools),
            "F7" => rf7::run(t[0], &mut c, pools),
            "Zi" => rzi::run(t[0], &mut c, pools),
            _ => panic!("bad ring"),
        };
        assert_eq!(c.k, t.len(), "trailing tokens");
        r
    })
    .unwrap_or("TOP-PANIC".into())
}

/// `decompw <stars> <leaves> <len> <hubpos>`: a matrix too large for the nat-indexed model (tens of thousands of
/// rows) given by its parameters: `stars` components, each with one LONG hub column (len private rows) that shares
/// one further row with each of its `leaves` one-entry leaf columns; leaf columns first and hubs last (hubpos = 1)
/// or hubs first (0).  Every merge is a bridge onto a hub and the intersection test of a (leaf, hub) pair walks
/// the whole hub column, so concurrent merges onto the same root overlap in time.
/// The result line is a summary that the parameters determine: the sorted multiset of (rows, cols, nnz) of the
/// returned blocks and the totals; every pool and repetition must give the same summary.
fn decomp_wide(t: &[&str], pools: &[ThreadPool]) -> String {
    let (stars, leaves, len, hubpos): (usize, usize, usize, usize) =
        (t[1].parse().unwrap(), t[2].parse().unwrap(), t[3].parse().unwrap(), t[4].parse().unwrap());
    let n = stars * (leaves + 1);
    let block = len + leaves;
    let m = stars * block;
    let mut entries: Vec<(usize, usize, i64)> = vec![];
    for s in 0..stars {
        let row0 = s * block;
        let hub_col = if hubpos == 1 { leaves * stars + s } else { s };
        for q in 0..len { entries.push((row0 + q, hub_col, if q % 2 == 0 { 1 } else { -1 })); }
        for k in 0..leaves {
            let leaf_col = if hubpos == 1 { k * stars + s } else { stars + k * stars + s };
            entries.push((row0 + len + k, hub_col, 2 + k as i64));
            entries.push((row0 + len + k, leaf_col, 1));
        }
    }
    let a = yui_matrix::sparse::SpMat::<i64>::from_entries((m, n), entries);
    in_pools(pools, &|| {
        let (p, q, bs) = dir_sum_decomp(a.clone());
        let mut v: Vec<(usize, usize, usize)> = bs.iter().map(|b| (b.nrows(), b.ncols(), b.iter().filter(|(_, _, x)| **x != 0).count())).collect();
        v.sort();
        let mut ps = p.vec().to_vec(); ps.sort();
        let mut qs = q.vec().to_vec(); qs.sort();
        let perm_ok = ps.iter().enumerate().all(|(i, &x)| i == x) && qs.iter().enumerate().all(|(i, &x)| i == x) && ps.len() == m && qs.len() == n;
        format!("blocks={} perm={} shapes={}", bs.len(), perm_ok as u8,
                v.iter().map(|(a, b, c)| format!("{}x{}:{}", a, b, c)).collect::<Vec<_>>().join(","))
    })
}

// ------------------------------------------------------------------------------------------------
// generator: token matrices
// ------------------------------------------------------------------------------------------------
#[derive(Clone)]
struct GM {
    m: usize,
    n: usize,
    cols: Vec<Vec<(usize, String)>>, // per column: (row, value token), rows strictly increasing
}
impl GM {
    fn new(m: usize, n: usize) -> Self {
        GM { m, n, cols: vec![vec![]; n] }
    }
    fn set(&mut self, i: usize, j: usize, v: String) {
        let c = &mut self.cols[j];
        match c.binary_search_by_key(&i, |e| e.0) {
            Ok(k) => c[k].1 = v,
            Err(k) => c.insert(k, (i, v)),
        }
    }
    fn unset(&mut self, i: usize, j: usize) {
        self.cols[j].retain(|e| e.0 != i);
    }
    fn toks(&self) -> String {
        let nnz: usize = self.cols.iter().map(|c| c.len()).sum();
        let mut s = format!("{} {} {}", self.m, self.n, nnz);
        for (j, c) in self.cols.iter().enumerate() {
            for (i, v) in c {
                s.push_str(&format!(" {} {} {}", i, j, v));
            }
        }
        s
    }
    fn col_as_vec(&self, j: usize) -> String {
        let c = &self.cols[j];
        let mut s = format!("{} {}", self.m, c.len());
        for (i, v) in c {
            s.push_str(&format!(" {} {}", i, v));
        }
        s
    }
}

const RINGS: [&str; 4] = ["Z", "Q", "F7", "Zi"];

fn zero_tok(ring: &str) -> String {
    match ring {
        "Q" => "0/1".into(),
        "Zi" => "0,0".into(),
        _ => "0".into(),
    }
}
/// a non-zero value
fn val_tok(r: &mut Rng, ring: &str) -> String {
    loop {
        let s = match ring {
            "Z" => format!("{}", r.range(-3, 3)),
            "Q" => {
                let n = r.range(-3, 3);
                let d = if r.chance(1, 3) { 2 } else { 1 };
                if d == 2 && n % 2 == 0 { format!("{}/1", n / 2) } else { format!("{}/{}", n, d) }
            }
            "F7" => format!("{}", r.range(0, 6)),
            "Zi" => format!("{},{}", r.range(-2, 2), r.range(-2, 2)),
            _ => unreachable!(),
        };
        if s != zero_tok(ring) {
            return s;
        }
    }
}
/// a unit (n = size of the system: keeps Ratio<i64> / i64 far away from overflow)
fn unit_tok(r: &mut Rng, ring: &str, n: usize) -> String {
    match ring {
        "Z" => r.pick(&["1", "-1"]).to_string(),
        "Q" => {
            if n <= 5 && r.chance(1, 3) {
                r.pick(&["3/2", "-2/3", "3/1", "-1/3", "5/2"]).to_string()
            } else {
                r.pick(&["1/1", "-1/1", "2/1", "-2/1", "1/2", "-1/2"]).to_string()
            }
        }
        "F7" => format!("{}", r.range(1, 6)),
        "Zi" => r.pick(&["1,0", "-1,0", "0,1", "0,-1", "0,1", "0,-1"]).to_string(),
        _ => unreachable!(),
    }
}
/// a non-unit, non-zero value where the ring has one (fields: the zero token)
fn nonunit_tok(r: &mut Rng, ring: &str) -> String {
    match ring {
        "Z" => r.pick(&["2", "-2", "3"]).to_string(),
        "Zi" => r.pick(&["1,1", "2,0", "1,-1", "0,2"]).to_string(),
        _ => zero_tok(ring),
    }
}

fn rand_size(r: &mut Rng, max: usize) -> usize {
    match r.below(10) {
        0 => 0,
        1 => 1,
        2 => max,
        _ => r.below(max as u64 + 1) as usize,
    }
}

/// random m x n matrix: density in percent, a share of the stored entries are explicit zeros
fn rand_mat(r: &mut Rng, ring: &str, m: usize, n: usize, dens: u64, zeros: u64) -> GM {
    let mut g = GM::new(m, n);
    for j in 0..n {
        for i in 0..m {
            if r.below(100) < dens {
                g.set(i, j, val_tok(r, ring));
            } else if r.below(100) < zeros {
                g.set(i, j, zero_tok(ring));
            }
        }
    }
    g
}

/// valid triangular n x n matrix: unit diagonal, random entries on the allowed side, explicit zeros on
/// both sides (is_triang only looks at non-zero entries)
fn rand_triang(r: &mut Rng, ring: &str, upper: bool, n: usize) -> GM {
    let dens = *r.pick(&[15u64, 30, 50, 90]);
    let zeros = *r.pick(&[0u64, 10, 25]);
    let mut g = GM::new(n, n);
    for j in 0..n {
        for i in 0..n {
            if i == j {
                g.set(i, j, unit_tok(r, ring, n));
            } else {
                let allowed = if upper { i < j } else { i > j };
                if allowed && r.below(100) < dens {
                    g.set(i, j, val_tok(r, ring));
                } else if r.below(100) < zeros {
                    g.set(i, j, zero_tok(ring));
                }
            }
        }
    }
    g
}

/// break a valid triangular matrix in one of several ways; returns a tag
fn spoil(r: &mut Rng, ring: &str, upper: bool, g: &mut GM) -> &'static str {
    let n = g.n;
    if n == 0 {
        return "none";
    }
    let j = r.below(n as u64) as usize;
    match r.below(5) {
        0 => {
            g.set(j, j, nonunit_tok(r, ring));
            "nonunit-diag"
        }
        1 => {
            g.unset(j, j);
            "missing-diag"
        }
        2 => {
            g.set(j, j, zero_tok(ring));
            "zero-diag"
        }
        _ => {
            if n < 2 {
                return "none";
            }
            let (a, b) = loop {
                let a = r.below(n as u64) as usize;
                let b = r.below(n as u64) as usize;
                if a < b {
                    break (a, b);
                }
            };
            // an entry on the wrong side
            if upper { g.set(b, a, val_tok(r, ring)) } else { g.set(a, b, val_tok(r, ring)) }
            "not-triangular"
        }
    }
}

fn ul(upper: bool) -> &'static str {
    if upper { "U" } else { "L" }
}

fn gen_solve_cases(r: &mut Rng, ring: &str, count: usize, maxn: usize, emit: &mut dyn FnMut(String)) {
    for _ in 0..count {
        let upper = r.bool();
        let n = rand_size(r, maxn);
        let a = rand_triang(r, ring, upper, n);
        let k = rand_size(r, 6);
        let ydens = *r.pick(&[20u64, 50, 100]);
        match r.below(10) {
            0..=3 => {
                let y = rand_mat(r, ring, n, k, ydens, 15);
                emit(format!("solve {} {} {} {}", ring, ul(upper), a.toks(), y.toks()));
            }
            4 | 5 => {
                // x a = y : y is k x n
                let y = rand_mat(r, ring, k, n, ydens, 15);
                emit(format!("solvel {} {} {} {}", ring, ul(upper), a.toks(), y.toks()));
            }
            6 | 7 => {
                let y = rand_mat(r, ring, n, 1, ydens, 15);
                emit(format!("solvev {} {} {} {}", ring, ul(upper), a.toks(), y.col_as_vec(0)));
            }
            8 => emit(format!("inv {} {} {}", ring, ul(upper), a.toks())),
            _ => {
                // identical columns / many columns: every worker sees the same data again and again
                let y1 = rand_mat(r, ring, n, 1, ydens, 15);
                let kk = 8 + r.below(24) as usize;
                let mut y = GM::new(n, kk);
                for j in 0..kk {
                    if r.chance(3, 4) {
                        y.cols[j] = y1.cols[0].clone();
                    }
                }
                emit(format!("solve {} {} {} {}", ring, ul(upper), a.toks(), y.toks()));
            }
        }
    }
}

/// invalid inputs.  Inputs that leave a residue in the scratch buffer (missing diagonal entry, entry on
/// the wrong side) are only generated with at most one right-hand side: with several columns their
/// result legitimately depends on which columns share a worker thread.
fn gen_invalid_cases(r: &mut Rng, ring: &str, count: usize, emit: &mut dyn FnMut(String)) {
    for _ in 0..count {
        let upper = r.bool();
        let n = 1 + rand_size(r, 7);
        let mut a = rand_triang(r, ring, upper, n);
        match r.below(8) {
            0 => {
                // shape mismatch a.nrows != y.nrows
                let ym = if r.bool() { n + 1 } else { n - 1 };
                let y = rand_mat(r, ring, ym, 2, 50, 10);
                emit(format!("solve {} {} {} {}", ring, ul(upper), a.toks(), y.toks()));
            }
            1 => {
                // non-square a (n x (n+1) or (n+1) x n), k = 0 and k > 0
                let wide = r.bool();
                let mut b = GM::new(if wide { n } else { n + 1 }, if wide { n + 1 } else { n });
                for j in 0..n {
                    b.cols[j] = a.cols[j].clone();
                }
                let k = r.below(3) as usize;
                let y = rand_mat(r, ring, b.m, k, 50, 10);
                emit(format!("solve {} {} {} {}", ring, ul(upper), b.toks(), y.toks()));
            }
            2 => {
                // non-unit / zero diagonal with several columns: panics as soon as the entry is needed
                let j = r.below(n as u64) as usize;
                a.set(j, j, nonunit_tok(r, ring));
                let k = 1 + r.below(4) as usize;
                let y = rand_mat(r, ring, n, k, 60, 10);
                // keep row j of y empty in half of the cases: then the bad pivot may never be touched
                emit(format!("solve {} {} {} {}", ring, ul(upper), a.toks(), y.toks()));
            }
            _ => {
                let tag = spoil(r, ring, upper, &mut a);
                let _ = tag;
                let y = rand_mat(r, ring, n, 1, 60, 10);
                match r.below(3) {
                    0 => emit(format!("solve {} {} {} {}", ring, ul(upper), a.toks(), y.toks())),
                    1 => emit(format!("solvev {} {} {} {}", ring, ul(upper), a.toks(), y.col_as_vec(0))),
                    _ => {
                        let yt = rand_mat(r, ring, 1, n, 60, 10);
                        emit(format!("solvel {} {} {} {}", ring, ul(upper), a.toks(), yt.toks()))
                    }
                }
            }
        }
    }
}

fn gen_schur_cases(r: &mut Rng, ring: &str, count: usize, maxn: usize, emit: &mut dyn FnMut(String)) {
    for _ in 0..count {
        let upper = r.bool();
        let m = rand_size(r, maxn);
        let n = rand_size(r, maxn);
        let mn = m.min(n);
        let rr = match r.below(4) {
            0 => 0,
            1 => mn,
            _ => r.below(mn as u64 + 1) as usize,
        };
        let a = rand_triang(r, ring, upper, rr);
        let dens = *r.pick(&[20u64, 40, 80]);
        let mut g = rand_mat(r, ring, m, n, dens, 10);
        for j in 0..rr {
            g.cols[j].retain(|e| e.0 >= rr);
            let mut c = a.cols[j].clone();
            c.extend(g.cols[j].iter().cloned());
            g.cols[j] = c;
        }
        let mut rtok = rr;
        if r.chance(1, 25) {
            // invalid: r beyond the shape, or a spoiled leading block (single code path: deterministic
            // only when the complement has at most one column, so keep n - r <= 1 for residue cases)
            if r.bool() {
                rtok = mn + 1 + r.below(2) as usize;
            } else if rr > 0 && (ring == "Z" || ring == "Zi") {
                // (fields have no non-zero non-unit; a stored zero would be dropped by divide4 and leave a
                // residue in the scratch buffer, whose effect depends on the schedule)
                let j = r.below(rr as u64) as usize;
                g.set(j, j, nonunit_tok(r, ring));
            }
        }
        emit(format!("schur {} {} {} {}", ring, ul(upper), rtok, g.toks()));
    }
}

fn shuffle(r: &mut Rng, v: &mut Vec<usize>) {
    for i in (1..v.len()).rev() {
        let j = r.below(i as u64 + 1) as usize;
        v.swap(i, j);
    }
}

fn gen_decomp_cases(r: &mut Rng, ring: &str, count: usize, maxn: usize, emit: &mut dyn FnMut(String)) {
    for _ in 0..count {
        // block-structured matrix hidden by random permutations
        let nb = match r.below(8) {
            0 => 0,
            1 => 1,
            _ => 1 + r.below(4) as usize,
        };
        let mut shapes = vec![];
        let (mut m, mut n) = (0usize, 0usize);
        for _ in 0..nb {
            let bm = 1 + r.below(4) as usize;
            let bn = 1 + r.below(4) as usize;
            if m + bm > maxn || n + bn > maxn {
                break;
            }
            shapes.push((m, n, bm, bn));
            m += bm;
            n += bn;
        }
        // extra zero rows / columns
        let zr = if r.chance(1, 2) { r.below(3) as usize } else { 0 };
        let zc = if r.chance(1, 2) { r.below(3) as usize } else { 0 };
        let (m, n) = ((m + zr).min(maxn.max(m)), (n + zc).min(maxn.max(n)));
        let mut rp: Vec<usize> = (0..m).collect();
        let mut cp: Vec<usize> = (0..n).collect();
        if r.chance(5, 6) {
            shuffle(r, &mut rp);
            shuffle(r, &mut cp);
        }
        let dens = *r.pick(&[35u64, 60, 100]);
        let glue = *r.pick(&[0u64, 0, 0, 5, 15]); // explicit zeros, also outside the blocks
        let mut g = GM::new(m, n);
        for &(i0, j0, bm, bn) in &shapes {
            for i in i0..i0 + bm {
                for j in j0..j0 + bn {
                    if r.below(100) < dens {
                        g.set(rp[i], cp[j], val_tok(r, ring));
                    }
                }
            }
        }
        if glue > 0 {
            for i in 0..m {
                for j in 0..n {
                    if r.below(100) < glue && !g.cols[j].iter().any(|e| e.0 == i) {
                        g.set(i, j, zero_tok(ring));
                    }
                }
            }
        }
        emit(format!("decomp {} {}", ring, g.toks()));
    }
    // unstructured matrices as well
    for _ in 0..count / 4 {
        let m = rand_size(r, maxn);
        let n = rand_size(r, maxn);
        let dens = *r.pick(&[5u64, 12, 25, 100]);
        let zs = *r.pick(&[0u64, 5]);
        let g = rand_mat(r, ring, m, n, dens, zs);
        emit(format!("decomp {} {}", ring, g.toks()));
    }
}

/// wide matrices (35..80 non-empty columns) whose column-intersection graph consists of a few stars with the hub
/// column at the largest index and long leaf columns: every merge is a bridge and many of them target the same
/// root, so a grouping protocol that is not atomic per merge loses updates under 2..16 threads
fn gen_decomp_wide(r: &mut Rng, ring: &str, count: usize, emit: &mut dyn FnMut(String)) {
    for _ in 0..count {
        let stars = 1 + r.below(3) as usize;
        let leaves_per: Vec<usize> = (0..stars).map(|_| 12 + r.below(16) as usize).collect();
        let nleaves: usize = leaves_per.iter().sum();
        let n = nleaves + stars;                       // hubs are the last `stars` columns
        let private = 3 + r.below(5) as usize;         // private rows per leaf (long columns)
        let m = nleaves * (1 + private);
        let mut g = GM::new(m, n);
        let mut leaf = 0usize;
        for (s, &k) in leaves_per.iter().enumerate() {
            let hub = nleaves + s;
            for _ in 0..k {
                let base = leaf * (1 + private);
                g.set(base, leaf, val_tok(r, ring));
                g.set(base, hub, val_tok(r, ring));
                for q in 0..private { g.set(base + 1 + q, leaf, val_tok(r, ring)); }
                leaf += 1;
            }
        }
        emit(format!("decomp {} {}", ring, g.toks()));
    }
}

/// lopsided columns: 1..3 LONG columns (17..40 stored rows with random gaps, each in its own band of rows) next to SHORT
/// columns (1..4 stored rows) placed around the gaps g of a long column L (rows of L's band that L does not store,
/// including the rows before its first and after its last stored row): {g, succ_L(g)}, {pred_L(g), g}, {g}, {g, g+2},
/// {g, g', succ_L(g')}, {g, succ_L(succ_L(g))}, {row of another long column, g, succ_L(g)} ...  Every row is used by at most
/// one short column, so the listed stored row of L is the ONLY intersection of that short column with anything else: an
/// intersection test that treats a (short, long) pair differently from the plain merge (binary search, galloping) and
/// mishandles "the next stored row after a miss" splits a summand.  Also pairs of long columns meeting in exactly one row.
fn gen_decomp_lopsided(r: &mut Rng, ring: &str, count: usize, emit: &mut dyn FnMut(String)) {
    for case in 0..count {
        let nl = 1 + r.below(3) as usize;
        // bands of rows
        let mut bands: Vec<(usize, usize)> = vec![]; // (first row, width)
        let mut m = if r.bool() { r.below(3) as usize } else { 0 }; // free rows on top
        for _ in 0..nl {
            let w = match nl { 1 => 19 + r.below(27), 2 => 19 + r.below(16), _ => 19 + r.below(8) } as usize;
            bands.push((m, w));
            m += w;
            if r.chance(1, 3) { m += 1 + r.below(2) as usize; } // free rows between the bands
        }
        m += r.below(3) as usize;
        // stored rows of the long columns
        let mut long_rows: Vec<Vec<usize>> = vec![];
        for &(b0, w) in &bands {
            let maxg = (w - 17).min(8);
            let ng = 1 + r.below(maxg as u64) as usize;
            let mut gap = vec![false; w];
            let mut placed = 0;
            while placed < ng {
                // boundary-biased: the first / second / last rows of the band are gaps more often
                let q = match r.below(8) { 0 => 0, 1 => 1, 2 => w - 1, 3 => w - 2, _ => r.below(w as u64) as usize };
                if !gap[q] { gap[q] = true; placed += 1; }
            }
            long_rows.push((0..w).filter(|&q| !gap[q]).map(|q| b0 + q).collect());
        }
        let mut used = vec![false; m];
        // pairs of long columns meeting in exactly one row (a stored row of the earlier one)
        if nl >= 2 && r.chance(1, 3) {
            let a = r.below(nl as u64) as usize;
            let b = (a + 1 + r.below(nl as u64 - 1) as usize) % nl;
            let row = *r.pick(&long_rows[a]);
            long_rows[b].push(row);
            long_rows[b].sort();
            used[row] = true;
        }
        let stored = |l: usize, i: usize| long_rows[l].binary_search(&i).is_ok();
        let succ = |l: usize, i: usize| long_rows[l].iter().copied().find(|&x| x > i);
        let pred = |l: usize, i: usize| long_rows[l].iter().rev().copied().find(|&x| x < i);
        // short columns
        let ns = 2 + r.below(8) as usize;
        let mut shorts: Vec<Vec<usize>> = vec![];
        let mut tries = 0;
        while shorts.len() < ns && tries < 200 {
            tries += 1;
            let l = r.below(nl as u64) as usize;
            let (b0, w) = bands[l];
            // gaps of l: rows around its band that it does not store
            let lo = b0.saturating_sub(1);
            let hi = (b0 + w + 1).min(m);
            let gaps: Vec<usize> = (lo..hi).filter(|&i| !stored(l, i) && !(0..nl).any(|l2| stored(l2, i))).collect();
            if gaps.is_empty() { continue; }
            let g = *r.pick(&gaps);
            let mut rows: Vec<usize> = vec![g];
            match r.below(14) {
                0..=5 => { if let Some(x) = succ(l, g) { rows.push(x); } }                      // {g, succ g}: the adversarial one
                6 => { if let Some(x) = pred(l, g) { rows.push(x); } }                           // {pred g, g}
                7 => {}                                                                          // {g}: a summand of its own
                8 => { if g + 2 < m { rows.push(g + 2); } }                                      // {g, g+2}
                9 => {                                                                           // {g, g', succ g'}
                    let g2 = *r.pick(&gaps);
                    rows.push(g2);
                    if let Some(x) = succ(l, g.max(g2)) { rows.push(x); }
                }
                10 => { if let Some(x) = succ(l, g).and_then(|x| succ(l, x)) { rows.push(x); } }  // {g, succ succ g}
                11 => {                                                                          // {g, g'}: no link at all
                    rows.push(*r.pick(&gaps));
                }
                12 => {                                                                          // {g, last stored row}
                    rows.push(*long_rows[l].last().unwrap());
                }
                _ => {                                                                           // {row of another long column, g, succ g}
                    if nl >= 2 {
                        let l2 = (l + 1 + r.below(nl as u64 - 1) as usize) % nl;
                        rows.push(*r.pick(&long_rows[l2]));
                    }
                    if let Some(x) = succ(l, g) { rows.push(x); }
                }
            }
            rows.sort();
            rows.dedup();
            if rows.iter().any(|&i| used[i]) { continue; }
            for &i in &rows { used[i] = true; }
            shorts.push(rows);
        }
        // assemble with the columns in random order (long columns first / last / mixed)
        let n = nl + shorts.len() + if r.chance(1, 4) { 1 } else { 0 }; // sometimes an empty column
        let mut cp: Vec<usize> = (0..n).collect();
        match case % 3 { 0 => {}, 1 => cp.reverse(), _ => shuffle(r, &mut cp) }
        let zeros = r.chance(1, 5); // explicit stored zeros also link columns
        let mut g = GM::new(m, n);
        let put = |g: &mut GM, r: &mut Rng, i: usize, j: usize| {
            let v = if zeros && r.chance(1, 6) { zero_tok(ring) } else { val_tok(r, ring) };
            g.set(i, j, v);
        };
        for (l, rows) in long_rows.iter().enumerate() {
            for &i in rows { put(&mut g, r, i, cp[l]); }
        }
        for (k, rows) in shorts.iter().enumerate() {
            for &i in rows { put(&mut g, r, i, cp[nl + k]); }
        }
        emit(format!("decomp {} {}", ring, g.toks()));
    }
}

fn main() {
    quiet_panics();
    let pools: Vec<ThreadPool> =
        POOLS.iter().map(|&k| rayon::ThreadPoolBuilder::new().num_threads(k).build().unwrap()).collect();
    match parse_args() {
        Mode::Replay { file, out } => {
            let mut o = Out::new(&out);
            for l in read_lines(&file) {
                let res = run_case(&l, &pools);
                o.case(&l, &res);
            }
            o.finish();
        }
        Mode::Gen { seed, thorough, out } => {
            let mut o = Out::new(&out);
            let mut r = Rng::new(seed);
            let mut emit = |c: String| {
                let res = run_case(&c, &pools);
                o.case(&c, &res);
            };
            let f = if thorough { 6 } else { 1 };
            // fixed corner cases first: empty systems, 1 x 1, the repo's own test matrices are covered
            // by the random stream
            for ring in RINGS {
                let z = GM::new(0, 0);
                emit(format!("solve {} U {} {}", ring, z.toks(), GM::new(0, 3).toks()));
                emit(format!("solve {} L {} {}", ring, z.toks(), z.toks()));
                emit(format!("solvel {} U {} {}", ring, z.toks(), GM::new(2, 0).toks()));
                emit(format!("inv {} L {}", ring, z.toks()));
                emit(format!("solvev {} U {} 0 0", ring, z.toks()));
                emit(format!("schur {} U 0 {}", ring, z.toks()));
                emit(format!("schur {} L 0 {}", ring, GM::new(0, 3).toks()));
                emit(format!("schur {} L 0 {}", ring, GM::new(2, 0).toks()));
                emit(format!("decomp {} {}", ring, z.toks()));
                emit(format!("decomp {} {}", ring, GM::new(3, 0).toks()));
                emit(format!("decomp {} {}", ring, GM::new(0, 2).toks()));
                emit(format!("decomp {} {}", ring, GM::new(2, 2).toks()));
            }
            for ring in RINGS {
                let mut rr = r.fork();
                gen_solve_cases(&mut rr, ring, 450 * f, 12, &mut emit);
                gen_invalid_cases(&mut rr, ring, 120 * f, &mut emit);
                gen_schur_cases(&mut rr, ring, 300 * f, 10, &mut emit);
                gen_decomp_cases(&mut rr, ring, 300 * f, 12, &mut emit);
            }
            {
                let mut rr = r.fork();
                gen_decomp_wide(&mut rr, "Z", 10 * f, &mut emit);
                gen_decomp_wide(&mut rr, "F7", 4 * f, &mut emit);
                // very long columns (a wide window between reading the roots and merging them)
                for k in 0..(5 * f) {
                    let (leaves, stars, len) = *rr.pick(&[(3usize, 16usize, 10000usize), (3, 32, 4000), (7, 8, 10000), (5, 12, 6000), (2, 24, 8000)]);
                    let leaves = leaves + rr.below(2) as usize;
                    emit(format!("decompw {} {} {} {}", stars, leaves, len, if k % 5 == 4 { 0 } else { 1 }));
                }
            }
            {
                // long columns next to short ones whose only link is one shared row (see gen_decomp_lopsided)
                let mut rr = r.fork();
                gen_decomp_lopsided(&mut rr, "Z", 28 * f, &mut emit);
                gen_decomp_lopsided(&mut rr, "F7", 12 * f, &mut emit);
            }
            o.finish();
        }
    }
}
